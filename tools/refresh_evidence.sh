#!/bin/sh
# Re-run every claimed quick check on the unchanged /repo tree so that the committed evidence files describe it.
cd /verif
if [ -n "$(git -C /repo status --porcelain)" ]; then echo "/repo has uncommitted changes"; exit 3; fi
rc=0
for p in $(python3 -c "import json;print(' '.join(c['property_id'] for c in json.load(open('MANIFEST.json'))['checks']))"); do
  ./check $p quick > /tmp/refresh.$p.log 2>&1; r=$?
  grep -v KNOWN-FINDING /tmp/refresh.$p.log | tail -1
  grep -c KNOWN-FINDING /tmp/refresh.$p.log | sed "s/^/   known findings reported: /"
  [ $r -ne 0 ] && { echo "   EXIT $r for $p"; rc=1; }
done
exit $rc
