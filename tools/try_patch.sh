#!/bin/sh
# tools/try_patch.sh <patch.diff> <PROPERTY> [tier]  -- apply a seeded change to /repo, run the check, undo.
set -u
P="$1"; ID="$2"; TIER="${3:-quick}"
git -C /repo apply "$P" || { echo "patch does not apply"; exit 3; }
/verif/check "$ID" "$TIER"; RC=$?
git -C /repo checkout -- .
echo "try_patch: $P -> exit $RC"
exit $RC
