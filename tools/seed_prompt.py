#!/usr/bin/env python3
"""seed_prompt.py <round> <ID>  -- print the prompt for a seeding sub-agent: the property text, its scratch worktree,
the delivery format, and one line per change already taken for that property (nothing else from /verif)."""
import json, glob, sys
rnd, pid = sys.argv[1], sys.argv[2]
prop = next(json.loads(l) for l in open('/verif/properties.jsonl') if json.loads(l)['id'] == pid)
taken = []
for f in sorted(glob.glob(f'/verif/seeded/{pid}-*/meta.json')):
    m = json.load(open(f)); taken.append(f"- {m['needs_to_manifest']}")
base = f"/tmp/seed{rnd}/{pid}"
FEATS = "net,tsig,zonefile,ring,tokio-stream,unstable-client-transport,unstable-client-cache,unstable-server-transport,unstable-xfr,unstable-zonetree,unstable-validator,unstable-sign,unstable-crypto-sign"
print(f"""You are helping to evaluate a verification framework for the Rust DNS library NLnetLabs/domain by producing *seeded defects*: small, realistic source changes that break a stated semantic property while the code still compiles and the existing default test suite still passes. Your changes will never be merged anywhere; they are test inputs for a checker you know nothing about.

Your scratch git worktree of the library is {base}/wt (a detached worktree; work ONLY there and in {base}/out; do not read or touch /repo, /verif or any other directory outside {base}; do not look at other /tmp/seed* directories). There is no network: always pass --offline to cargo and set CARGO_NET_OFFLINE=true. Use `-j 4` for cargo (other jobs share this machine) and CARGO_TARGET_DIR={base}/target.

The property (id {pid}):

{json.dumps({k: prop[k] for k in ('title','statement','quantifier','why_tests_cant','anchors')}, indent=1)}

Task: deliver TWO independent changes, A and B, each of which
 1. is a small plausible edit to the library source (the kind of slip or "simplification"/"optimisation" a maintainer could make and a reviewer could miss), touching only files under src/;
 2. breaks the property above (say which clause);
 3. still compiles with all features and still passes the pinned suite: `cargo test --workspace --no-fail-fast --offline -j 4` (default features) in the worktree;
 4. needs something SPECIFIC to manifest - a particular interleaving or timing, a cancellation, a fault or error injected at a particular point, a multi-step sequence of operations, an unusual input or configuration, or two cooperating sites that each look fine alone. Changes that any ordinary use would expose at once are useless. At least one of A and B must need timing, an interleaving, a cancellation/drop at a particular point, or an injected fault/error (not merely an unusual input).
 5. comes with a demonstration: ONE integration test file (to be placed at tests/<name>.rs) that PASSES on the unchanged worktree and FAILS with the change applied. It may use any of the crate's features; the full feature list that builds offline is `{FEATS}`. Use tokio's paused clock / in-memory streams / mock sockets as needed; no real network, no sleeping for real seconds.

Changes already taken for this property in earlier rounds (do NOT deliver these again or trivial variants of them; look for different code paths, different clauses of the statement, different anchors):
{chr(10).join(taken)}

Deliver, for X in A, B, the directory {base}/out/X/ with exactly:
 - patch.diff   : `git diff` of the change against the unchanged worktree (src/ only; must apply with `git apply` to a clean worktree)
 - demo.rs      : the integration test file
 - demo_cargo.txt : must contain a stanza of exactly this shape (name of your choice, unique, e.g. seeded{rnd}_{pid.lower()}_a):
       [[test]]
       name = "seeded{rnd}_{pid.lower()}_a"
       required-features = ["net", "unstable-client-transport"]
   (list the features the demo really needs; the test is run as `cargo test --offline --features <those> --test <name>` after copying demo.rs to tests/<name>.rs and appending the stanza to Cargo.toml)
 - notes.md     : what was changed and where, which clause of the property it breaks, and precisely what is needed for it to manifest (the sequence / timing / fault), in a few paragraphs.

Before you finish, verify for each change yourself, in the worktree: demo passes without the patch; demo fails with the patch; the pinned default suite passes with the patch (without the demo file). Then restore the worktree to clean (`git checkout -- . && git clean -fdq tests`), and delete {base}/target to free disk space. Report in your final message, per change: a one-paragraph description, what it needs to manifest, and the exact commands you ran with their outcome. If you could only produce one solid change, deliver one and say so; do not pad with a weak one.""")
