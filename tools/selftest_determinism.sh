#!/bin/sh
# Determinism self-test: N run seeds per scenario, executed in separate
# processes at 1, 4 and 16 workers (and a second time at 16); the
# (index, fingerprint, events, verdict) lists must be identical.
N="${1:-2000}"; shift
SCNS="${*:-client}"
BIN=/verif/sim/target/release/dsim
T=$(mktemp -d /var/tmp/dsim-det.XXXXXX)
rc=0
for s in $SCNS; do
  VERIF_WORKERS=1  $BIN fingerprints $s 0 $N > $T/$s.w1
  VERIF_WORKERS=4  $BIN fingerprints $s 0 $N > $T/$s.w4
  VERIF_WORKERS=16 $BIN fingerprints $s 0 $N > $T/$s.w16a
  VERIF_WORKERS=16 $BIN fingerprints $s 0 $N > $T/$s.w16b
  for f in w4 w16a w16b; do
    if ! cmp -s $T/$s.w1 $T/$s.$f; then echo "NONDETERMINISM: scenario $s differs between w1 and $f"; diff $T/$s.w1 $T/$s.$f | head -5; rc=1; fi
  done
  echo "$s: $(wc -l < $T/$s.w1) runs x4, $(cut -d' ' -f2 $T/$s.w1 | sort -u | wc -l) distinct fingerprints, deterministic=$([ $rc = 0 ] && echo yes || echo NO)"
done
rm -rf $T
exit $rc
