#!/bin/sh
# tools/mut_round.sh <dir-with-ID/out/V/patch.diff...> : blind triage of a round of seeded changes.
# usage: tools/mut_round.sh /tmp/seed8 C08 A C08 B ...   (pairs of ID, variant)
# Builds a frozen copy of the COMMITTED /verif/sim against a scratch worktree of /repo HEAD under /var/tmp/mutround,
# applies each patch in turn, runs the property's quick check, prints one line per seed. /repo is not touched.
set -u
BASE="$1"; shift
M=/var/tmp/mutround
rm -rf $M/sim; mkdir -p $M/verif/evidence $M/verif/replays
if [ ! -d $M/repo ]; then git -C /repo worktree add -q --detach $M/repo HEAD || exit 3; fi
git -C $M/repo checkout -q --detach "$(git -C /repo rev-parse HEAD)"; git -C $M/repo checkout -- .; git -C $M/repo clean -fdq
git -C /verif archive HEAD sim | tar -x -C $M
sed -i "s#path = \"/repo\"#path = \"$M/repo\"#" $M/sim/Cargo.toml
sed -i "s#\"/repo/#\"$M/repo/#g" $M/sim/src/core/runner.rs
cp /verif/known_findings.json $M/verif/
while [ $# -ge 2 ]; do
  ID="$1"; V="$2"; shift 2
  P="$BASE/$ID/out/$V/patch.diff"
  git -C $M/repo checkout -- .
  git -C $M/repo apply "$P" || { echo "$ID-$V: patch does not apply"; continue; }
  if ! (cd $M/sim && CARGO_TARGET_DIR=$M/target cargo build --release --offline > $M/build.log 2>&1); then echo "$ID-$V: BUILD FAILED"; tail -n 5 $M/build.log; continue; fi
  OUT=$(VERIF_DIR=$M/verif timeout 900 $M/target/release/dsim check "$ID" quick 2>&1); RC=$?
  echo "$ID-$V: exit $RC $(echo "$OUT" | sed -n 's/^violation class: //p' | head -1) $(echo "$OUT" | grep -c HARNESS) harness-errors"
done
git -C $M/repo checkout -- .
