#!/bin/sh
# tools/mut_try.sh <patch.diff> <PROPERTY> [tier]
# Triage helper: run a property check against a MUTANT of the library without
# touching /repo (so background runs that build from /repo stay clean).
# Works on a scratch worktree of /repo HEAD plus a copy of /verif/sim under
# /var/tmp/mut. Not used by any registered check; seeded changes are still
# recorded with tools/run_seeded.sh against /repo itself.
set -u
P="$1"; ID="$2"; TIER="${3:-quick}"
M=/var/tmp/mut
mkdir -p $M/verif/evidence $M/verif/replays
if [ ! -d $M/repo ]; then git -C /repo worktree add -q --detach $M/repo HEAD || exit 3; fi
git -C $M/repo checkout -q --detach "$(git -C /repo rev-parse HEAD)" 2>/dev/null
git -C $M/repo checkout -- . && git -C $M/repo clean -fdq
rsync -a --delete --exclude target --exclude build.log /verif/sim/ $M/sim/
sed -i "s#path = \"/repo\"#path = \"$M/repo\"#" $M/sim/Cargo.toml
# (the panic hook attributes panics by source path)
sed -i "s#\"/repo/#\"$M/repo/#g" $M/sim/src/core/runner.rs
cp /verif/known_findings.json $M/verif/
if [ "$P" != "-" ]; then git -C $M/repo apply "$P" || { echo "patch does not apply"; exit 3; }; fi
cd $M/sim && CARGO_TARGET_DIR=$M/target cargo build --release --offline > $M/build.log 2>&1 || { tail -20 $M/build.log; exit 2; }
VERIF_DIR=$M/verif $M/target/release/dsim check "$ID" "$TIER"; RC=$?
git -C $M/repo checkout -- .
echo "mut_try: $P -> exit $RC"
exit $RC
