#!/bin/sh
# tools/run_seeded_frozen.sh [ID-V ...] -- like run_seeded.sh, but without touching /repo or the working copy of
# /verif/sim: the COMMITTED /verif/sim is built against a scratch worktree of /repo HEAD (under /var/tmp/mutround)
# with the seeded patch applied, the property's quick check is run there, the outcome goes to seeded/<id>/meta.json.
set -u
cd /verif
LIST="${*:-$(ls seeded)}"
M=/var/tmp/mutround
rm -rf $M/sim; mkdir -p $M/verif/evidence $M/verif/replays
if [ ! -d $M/repo ]; then git -C /repo worktree add -q --detach $M/repo HEAD || exit 3; fi
git -C $M/repo checkout -q --detach "$(git -C /repo rev-parse HEAD)"; git -C $M/repo checkout -- .; git -C $M/repo clean -fdq
git -C /verif archive HEAD sim | tar -x -C $M
sed -i "s#path = \"/repo\"#path = \"$M/repo\"#" $M/sim/Cargo.toml
sed -i "s#\"/repo/#\"$M/repo/#g" $M/sim/src/core/runner.rs
cp /verif/known_findings.json $M/verif/
VERIF_COMMIT=$(git -C /verif rev-parse --short HEAD); REPO_COMMIT=$(git -C /repo rev-parse --short HEAD)
for s in $LIST; do
  [ -f seeded/$s/patch.diff ] || continue
  PID=$(python3 -c "import json;print(json.load(open('seeded/$s/meta.json'))['breaks_property'])")
  git -C $M/repo checkout -- .
  git -C $M/repo apply /verif/seeded/$s/patch.diff || { echo "$s: patch does not apply"; continue; }
  if ! (cd $M/sim && CARGO_TARGET_DIR=$M/target cargo build --release --offline > $M/build.log 2>&1); then echo "$s: BUILD FAILED"; continue; fi
  OUT=$(VERIF_DIR=$M/verif timeout 1200 $M/target/release/dsim check "$PID" quick 2>&1); RC=$?
  CLASS=$(echo "$OUT" | sed -n 's/^violation class: //p' | head -1)
  python3 - "$s" "$RC" "$CLASS" "$VERIF_COMMIT" "$REPO_COMMIT" <<'PY'
import json,sys
s,rc,cls,vc,rcm=sys.argv[1],int(sys.argv[2]),sys.argv[3],sys.argv[4],sys.argv[5]
p=f"/verif/seeded/{s}/meta.json"; m=json.load(open(p))
m["detected_by"]={"check":f"./check {m['breaks_property']} quick","exit":rc,"violation_class":cls or None,"detected":rc==1,
  "how":f"committed /verif/sim ({vc}) built against a scratch worktree of /repo {rcm} with the patch applied (tools/run_seeded_frozen.sh)"}
json.dump(m,open(p,"w"),indent=1)
print(f"{s}: exit {rc} {cls}")
PY
done
git -C $M/repo checkout -- .
