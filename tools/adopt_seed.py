#!/usr/bin/env python3
"""adopt_seed.py <pending_dir> <ID> <variant> "<what it needs to manifest>" -- copy a confirmed seeded change into /verif/seeded/."""
import json, os, shutil, sys
src, pid, var, needs = sys.argv[1:5]
conf = json.load(open(f"{src}/confirm.json"))
assert conf["confirmed"], "not confirmed"
dst = f"/verif/seeded/{pid}-{var}"
os.makedirs(dst, exist_ok=True)
for f in ["patch.diff", "demo.rs", "demo_cargo.txt", "notes.md"]:
    shutil.copy(f"{src}/{f}", f"{dst}/{f}")
meta = {
    "id": f"{pid}-{var}",
    "breaks_property": pid,
    "needs_to_manifest": needs,
    "source": "independent sub-agent given only the property text and a scratch worktree",
    "confirmed_by": "tools/confirm_seed.py in a scratch worktree of /repo HEAD: demo passes without the patch, fails with it; `cargo test --workspace --offline` (pinned suite) passes with it",
    "confirmation": {k: v for k, v in conf.items() if not k.endswith("_tail")},
    "detected_by": None,
}
json.dump(meta, open(f"{dst}/meta.json", "w"), indent=1)
print("adopted", dst)
