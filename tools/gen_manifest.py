#!/usr/bin/env python3
"""Generate /verif/MANIFEST.json from the table below (single source of truth)."""
import json, subprocess

PURE = {
 "C01": "pure function of a byte string (message parsing): no schedule, clock, peer, I/O seam or fault for a simulator to own; corrupted packets do reach Message parsing inside the C15/C16/C10 simulations but that is a by-product, not a decision of C01",
 "C03": "name construction/validation is a deterministic in-memory state machine of its inputs; no scheduler, clock, I/O or fault dimension",
 "C04": "pure relations (Eq/Ord/Hash) over values; nothing for a scheduler or fault injector to act on",
 "C05": "pure codec round-trip over record data values; no nondeterminism or fault seam",
 "C06": "pure codec pair (presentation format writer/reader); no nondeterminism or fault seam",
 "C07": "pure function of the file's bytes (the reader's only I/O is one std::io::copy into a buffer before parsing); layout-independence is a metamorphic input relation, not a schedule",
 "C12": "sign/verify, key tags and DS digests are pure functions of their arguments; 'alterations' are input mutations, not faults of a seam",
 "C13": "NSEC/NSEC3 chain generation is a pure function zone -> chain; configurations are function parameters",
 "C17": "pure arithmetic on two 32-bit integers",
 "C18": "pure codecs; splitting the input across decoder calls is an input partition, not a schedule or short read from a seam",
 "C19": "differential comparison of two pure codecs; no schedule, clock, peer or fault",
}

# property -> dict(level, text, note, technique, design_ref)
CLAIMED = {}
PENDING = {}

def claim(pid, level, text, note, technique, ref):
    CLAIMED[pid] = dict(level=level, text=text, note=note, technique=technique, ref=ref)

exec(open("/verif/tools/claims.py").read())

checks = []
for pid in sorted(CLAIMED):
    c = CLAIMED[pid]
    checks.append({
        "property_id": pid,
        "quick_cmd": f"./check {pid} quick",
        "thorough_cmd": f"./check {pid} thorough",
        "evidence_file": f"evidence/{pid}.json",
        "replay_cmd_template": "./check --replay {path}",
        "engine": "dsim",
        "level_claimed": {"category": c["level"], "text": c["text"], "design_ref": c["ref"]},
        "level_note": c["note"],
        "technique": c["technique"],
    })
na = [{"property_id": p, "reason": r} for p, r in sorted({**PURE, **PENDING}.items()) if p not in CLAIMED]
hooks_commits = [l.split()[0] for l in subprocess.run("git -C /repo log --format='%h %s' 6832857..HEAD", shell=True, capture_output=True, text=True).stdout.splitlines() if l.split(" ", 1)[1].startswith("verif-hook:")]
manifest = {
    "version": 1,
    "setup_cmd": "cd /verif/sim && CARGO_NET_OFFLINE=true cargo build --release --offline",
    "hooks": {
        "guard": "domain_verif",
        "enable": "RUSTFLAGS --cfg domain_verif (set in /verif/sim/.cargo/config.toml). Two source hooks: src/zonetree/in_memory/sync.rs makes the zone tree's parking_lot RwLock acquisitions consult domain::zonetree::verif_hooks (used by the zone_threads scenario to interleave real threads at lock acquisitions); src/base/message_builder.rs gives HashCompressor a fixed-key hasher instead of hashbrown's address- and clock-seeded default (so that a run replays exactly even when a defect leaves stale entries in the table). Everything else needs no source hooks: clocks and randomness are intercepted at the libc boundary, sockets and peers through the library's own traits.",
        "baseline_off_cmd": "cd /repo && cargo test --workspace --no-fail-fast --offline",
        "source_commits": hooks_commits,
        "add_only": False,
    },
    "engines": [{
        "name": "dsim",
        "path": "sim/",
        "serves_properties": sorted(CLAIMED),
        "kind_free_text": "deterministic simulation with fault injection: one process, paused tokio clock, libc-level clock_gettime/getrandom interposition, simulated sockets/pipes/peers behind the library's own traits, seeded choice tape (schedule + workload + faults) with replay and tape minimisation",
    }],
    "checks": checks,
    "not_applicable": na,
    "notes": "Every check rebuilds dsim (and therefore domain) from /repo's working tree. VERIF_SEED selects the batch (default 20260924); VERIF_WORKERS the worker threads (default: all cores); VERIF_SCALE multiplies the run counts. Exit 2 = harness/build error. Known findings: known_findings.json; seeded changes used to test the checks: seeded/.",
}
json.dump(manifest, open("/verif/MANIFEST.json", "w"), indent=1)
print("claimed:", sorted(CLAIMED), "n/a:", [x["property_id"] for x in na])
