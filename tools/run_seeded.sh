#!/bin/sh
# tools/run_seeded.sh [ID-V ...]  -- run every (or the named) seeded change against its property's quick check; record the outcome in seeded/<id>/meta.json.
cd /verif
LIST="${*:-$(ls seeded)}"
for s in $LIST; do
  [ -f seeded/$s/patch.diff ] || continue
  PID=$(python3 -c "import json;print(json.load(open('seeded/$s/meta.json'))['breaks_property'])")
  if ! python3 -c "import json,sys;sys.exit(0 if any(c['property_id']=='$PID' for c in json.load(open('MANIFEST.json'))['checks']) else 1)"; then echo "$s: property $PID not claimed yet, skipped"; continue; fi
  git -C /repo apply /verif/seeded/$s/patch.diff || { echo "$s: patch does not apply"; continue; }
  OUT=$(./check $PID quick 2>&1); RC=$?
  git -C /repo checkout -- .
  CLASS=$(echo "$OUT" | sed -n 's/^violation class: //p' | head -1)
  python3 - "$s" "$RC" "$CLASS" <<'PY'
import json,sys
s,rc,cls=sys.argv[1],int(sys.argv[2]),sys.argv[3]
p=f"/verif/seeded/{s}/meta.json"; m=json.load(open(p))
m["detected_by"]={"check":f"./check {m['breaks_property']} quick","exit":rc,"violation_class":cls or None,"detected":rc==1}
json.dump(m,open(p,"w"),indent=1)
print(f"{s}: exit {rc} {cls}")
PY
done
# restore evidence for the unchanged tree is the caller's business (run the checks again).
