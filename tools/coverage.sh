#!/bin/sh
# tools/coverage.sh [scale]  -- reach measurement: which lines of /repo/src the quick tiers execute.
# Builds dsim with -C instrument-coverage (nightly toolchain: it ships llvm-cov / llvm-profdata) into a scratch
# target directory, runs every claimed property's quick tier, and prints line coverage per anchored source file.
# `tools/coverage.sh missed <path-substring>` afterwards lists the uncovered lines of one file.
# Not a check: nothing here decides a property; it shows where the workloads do not reach (DESIGN section 7).
set -u
N=$(ls -d ~/.rustup/toolchains/nightly-x86_64-unknown-linux-gnu/lib/rustlib/x86_64-unknown-linux-gnu/bin)
T=/var/tmp/dsim-cov
if [ "${1:-}" = "missed" ]; then
  $N/llvm-cov show $T/target/release/dsim -instr-profile=$T/all.profdata --sources /repo/src/$2 2>/dev/null | grep -E '^\s*[0-9]+\|\s+0\|' | cut -c1-170
  exit 0
fi
SCALE="${1:-1}"
mkdir -p $T/vd/evidence $T/vd/replays; cp /verif/known_findings.json $T/vd/; rm -f $T/*.profraw
(cd /verif/sim && RUSTFLAGS="--cfg tokio_unstable --cfg domain_verif -C link-arg=-rdynamic -C instrument-coverage" LLVM_PROFILE_FILE=$T/build-%p.profraw CARGO_TARGET_DIR=$T/target cargo +nightly build --release --offline 2>&1 | tail -n 1) || exit 2
rm -f $T/build-*.profraw; git -C /repo clean -fq -- "default_*.profraw" 2>/dev/null  # (untracked ones only: the snapshot commit tracks a few)
for p in C02 C08 C09 C10 C11 C14 C15 C16 C20; do
  VERIF_DIR=$T/vd VERIF_SCALE=$SCALE LLVM_PROFILE_FILE=$T/$p-%p.profraw $T/target/release/dsim check $p quick > $T/$p.log 2>&1; echo "$p exit $?"
done
$N/llvm-profdata merge -sparse $T/*.profraw -o $T/all.profdata || exit 2
$N/llvm-cov report $T/target/release/dsim -instr-profile=$T/all.profdata --ignore-filename-regex='(\.cargo|rustc|/verif/)' 2>/dev/null > $T/report.txt
awk 'NF>=13 {printf "%-58s lines %6s missed %6s  %s\n", $1, $8, $9, $10}' $T/report.txt | grep -E "zonetree|net/(client|server|xfr)|tsig|validator|message_builder" | tee $T/summary.txt
