# Claims table, exec'd by gen_manifest.py.
PENDING.update({
 "C14": "check not built yet in this round (planned: validator simulation, DESIGN section 4)",
})
claim("C15", "exploration",
      "Seeded exploration of schedules and fault scripts: the six real client transports run over a simulated network against simulated peers on a virtual clock; every response is attributed through unique names/tokens, every request must complete once within its configured budget, fault-free runs must succeed. Evidence, not proof: a clean batch means no violation among the sampled executions.",
      "Trusted: tokio's paused clock/timers/channels; the simulated peers, network and oracle in /verif/sim; library tasks spawned with tokio::spawn are ordered FIFO by the runtime (perturbed by seeded stalls/delays, not chosen directly). Documented idle closure of a bare stream connection is modelled and accepted.",
      "deterministic simulation with fault injection (seeded schedule/fault search, replayable choice tape)",
      "DESIGN.md section 4, C15")

claim("C20", "exploration",
      "Seeded exploration of query/response histories on a virtual clock: the real cache sits between simulated clients and a simulated upstream whose every response is uniquely serialised; each delivered response must be the caller's own upstream response or an aged copy (same question, compatible RD/CD/AD/DO flags, records equal with TTLs reduced by the elapsed whole seconds, never increased) of a logged upstream response that is still within min(smallest TTL, max_validity, the bound of its RFC 2308 class). Evidence, not proof.",
      "Trusted: tokio's paused clock, moka as a map with eviction (a miss is always acceptable), the upstream stub and the independent classification/aging model in /verif/sim. AA clearing and the stored header's ID are documented cache behaviour and accepted.",
      "deterministic simulation on a virtual clock with history checking against a log-based reference model",
      "DESIGN.md section 4, C20")

claim("C09", "exploration",
      "Seeded exploration of reader/writer interleavings at operation granularity over the real in-memory zone store: pinned readers re-observe walk() and query answers while writers (low-level interface and ZoneUpdater) update, remove, replace, commit with/without serial bump, or abort by drop; new readers must walk exactly the last committed content of a multi-version model, their answers must consist of that version's records, writers must be serialised, aborts invisible. Evidence, not proof; one known finding (unversioned node creation visible to pinned readers) is reported as KNOWN-FINDING.",
      "Interleavings are chosen at API-call granularity on one thread; lock-level schedules inside one zone operation (parking_lot RwLocks, real threads) are not explored. The content model covers plain RRset operations. Trusted: tokio::sync::Mutex, the model and observers in /verif/sim.",
      "deterministic simulation (seeded task scheduler) with a multi-version reference model and self-consistency of pinned readers",
      "DESIGN.md section 4, C08/C09")

claim("C08", "exploration",
      "Seeded exploration of zone contents and update histories: legal zones with wildcards, empty non-terminals, CNAMEs, delegations (DS, glue, occluded names) are built directly and then evolved by update batches (add/delete/delete-name/full replacement, ZoneUpdater or low-level interface, aborts); afterwards every (qname, qtype) of the universe is asked of the zone with history and of a zone built directly from the same records; both are compared with each other (history independence) and with an executable RFC 1034 section 4.3.2 / RFC 4592 reference lookup. Four genuine history-dependence defects are reported as KNOWN-FINDING by root cause; any deviation without such a cause is a violation. Evidence, not proof.",
      "Histories are sequential (no concurrency needed for this property); 'crash' = writer/updater dropped before commit. Trusted: the reference lookup and workload generator in /verif/sim; qtype ANY, non-required additional data and the negative-answer SOA TTL are not compared (RFC latitude).",
      "deterministic simulation of update/abort histories with differential rebuild and an executable RFC reference model",
      "DESIGN.md section 4, C08/C09")

claim("C16", "exploration",
      "Seeded exploration of client behaviours and schedules against the real datagram and stream servers with the mandatory/EDNS/cookies middleware over a stub service: every octet the servers write is recorded; each response must parse, be correctly framed, carry the ID, question and content of a request of that same peer/connection, appear exactly as often as the service produced it (also for multi-response transactions, in order), respect the UDP size rule (512 without EDNS; min(max(512, advertised), configured) with EDNS; TC set and OPT kept when content is dropped), while hostile senders and misbehaving connections must not panic the server or stop others from being served. Evidence, not proof; the documented discard of responses when the per-connection queue is full is reported as KNOWN-FINDING.",
      "Losses are excused only for a connection whose own client aborted, sent a hostile frame, stalled reading beyond the write timeout (or used a tiny window against a sub-second write timeout). Trusted: tokio runtime FIFO scheduling of per-request tasks, the stub service/clients/ledger in /verif/sim. A busy-wait in the library (yield_now loop while the response queue is full inside a transaction) is bridged by the simulator's spin breaker, which advances virtual time when 1024 task polls pass without any simulation event.",
      "deterministic simulation with fault injection (hostile and misbehaving clients, seeded pacing/segmentation/stalls/aborts), exactly-once ledger over recorded server output",
      "DESIGN.md section 4, C16")

claim("C11", "exploration",
      "Seeded exploration of two TSIG endpoints with skewed/jumping clocks over a tampering channel: requests, answers, signed BADTIME and unsigned error responses, multi-message sequences from the library's own server and from an independent RFC 8945 signer (signed/unsigned patterns up to 100 unsigned in a row). Every MAC the library produces must equal an independent RFC 8945 computation; every verdict (accept / reject and the error class) on every delivered, possibly mutated message must equal the model's; accepted messages must be restored to their pre-signing form; a rejected forged answer must leave the transaction usable. Evidence, not proof.",
      "Trusted: ring::hmac as a primitive, the independent wire scanner / digest model / signer in /verif/sim. Clock skew is injected through the `now` parameter of the core API. Stale TSIG octets left behind the restored message are reported as KNOWN-FINDING.",
      "deterministic simulation with fault injection (tampering channel, clock skew/jumps) against an independent executable RFC 8945 reference model",
      "DESIGN.md section 4, C11")

claim("C02", "fault_enumeration",
      "Narrow claim: the failure half of C02. Seeded builder operation sequences (push question/record with compressible names, section changes, rewinds, push limits, OPT) are executed over a fault-injecting target buffer; for each sampled sequence EVERY space-exhaustion point (sink capacity at each octet offset; sparser beyond 600/1500 offsets and for messages > 8 KiB, but always every offset around the 0x3FFF pointer limit and the message end) and a push limit at every third such position is enumerated, for one of none/static/tree/hash compressor x plain/stream target. After every operation: a failed push leaves octets and counts unchanged, the stream length prefix equals the message length, and the message parses back to exactly the accepted items with the pushed names. The input half (all names, record types, targets) is only sampled.",
      "Trusted: the list model and parser-based read-back in /verif/sim (the read-back uses the library's own Message parser, whose totality is C01 and not claimed). FaultySink honours octseq's 'error leaves the builder alone' contract (no torn appends).",
      "fault injection on the target-buffer seam with exhaustive enumeration of the fault point per sampled operation sequence; list reference model",
      "DESIGN.md section 4, C02")

claim("C10", "exploration",
      "Seeded exploration of zone histories, packagings and message-level faults: a primary zone evolves through committed steps on the real write interface (every reported diff must turn content n-1 into content n, serials included, also across the 2^32 wrap); AXFR / multi-step IXFR record sequences are cut into messages at drawn points and delivered with at most one fault (drop, duplicate, swap, truncate, header corruption, wrong question type, stream cut) to the real interpreter + updater of a secondary; a reader of the secondary must see only complete versions, and the outcome must agree with an independent RFC 5936 / RFC 1995 reference interpreter run on the delivered messages. A second scenario lets the real XFR server middleware (zone/diff funnelers, batcher) produce the messages for AXFR, IXFR, journal-less fallback and current/newer-serial requests. Evidence, not proof; two known findings are reported.",
      "The interpreter/updater are driven directly (byte-stream transports are C15/C16, TSIG sequences C11). The AXFR zone walk of the middleware runs on a real blocking thread: contained (nothing else scheduled meanwhile), not scheduled by the simulator. Trusted: the reference interpreter, packager and content model in /verif/sim.",
      "deterministic simulation with fault injection (message-level stream faults, packaging choices, abort = updater dropped) and refinement against an executable RFC 5936/1995 reference interpreter",
      "DESIGN.md section 4, C10")
