# Claims table, exec'd by gen_manifest.py.
PENDING.update({
 "C02": "check not built yet in this round (planned: builder over a fault-injecting sink, DESIGN section 4)",
 "C08": "check not built yet in this round (planned: zonestore simulation, DESIGN section 4)",
 "C09": "check not built yet in this round (planned: zonestore simulation, DESIGN section 4)",
 "C10": "check not built yet in this round (planned: xfr simulation, DESIGN section 4)",
 "C11": "check not built yet in this round (planned: tsig simulation, DESIGN section 4)",
 "C14": "check not built yet in this round (planned: validator simulation, DESIGN section 4)",
 "C16": "check not built yet in this round (planned: server simulation, DESIGN section 4)",
 "C20": "check not built yet in this round (planned: cache simulation, DESIGN section 4)",
})
claim("C15", "exploration",
      "Seeded exploration of schedules and fault scripts: the six real client transports run over a simulated network against simulated peers on a virtual clock; every response is attributed through unique names/tokens, every request must complete once within its configured budget, fault-free runs must succeed. Evidence, not proof: a clean batch means no violation among the sampled executions.",
      "Trusted: tokio's paused clock/timers/channels; the simulated peers, network and oracle in /verif/sim; library tasks spawned with tokio::spawn are ordered FIFO by the runtime (perturbed by seeded stalls/delays, not chosen directly). Documented idle closure of a bare stream connection is modelled and accepted.",
      "deterministic simulation with fault injection (seeded schedule/fault search, replayable choice tape)",
      "DESIGN.md section 4, C15")
