#!/usr/bin/env python3
"""Confirm a seeded change independently: demo passes without the patch, fails
with it, and the pinned default-feature suite still passes with it.
usage: confirm_seed.py <seed_dir> <ID> <variant>   (writes <seed_dir>/confirm.json)"""
import json, os, re, subprocess, sys, shutil
seed, pid, var = sys.argv[1], sys.argv[2], sys.argv[3]
wt = f"/tmp/confirm-{pid}{var}"
env = dict(os.environ, CARGO_NET_OFFLINE="true", CARGO_TARGET_DIR="/tmp/confirm-target")
def sh(cmd, cwd=None, timeout=3600):
    p = subprocess.run(cmd, shell=True, cwd=cwd, env=env, capture_output=True, text=True, timeout=timeout)
    return p.returncode, (p.stdout + p.stderr)[-3000:]
subprocess.run(f"git -C /repo worktree remove --force {wt}", shell=True, capture_output=True)
rc, out = sh(f"git -C /repo worktree add -q --detach {wt} HEAD")
assert rc == 0, out
res = {"property": pid, "variant": var}
try:
    txt = open(f"{seed}/demo_cargo.txt").read()
    m = re.search(r"\[\[test\]\]\s*name\s*=\s*\"([^\"]+)\"(?:\s*path\s*=\s*\"[^\"]+\")?\s*required-features\s*=\s*\[([^\]]*)\]", txt)
    if m:
        name = m.group(1)
        feats = ",".join(f.strip().strip('"') for f in m.group(2).split(",") if f.strip())
        shutil.copy(f"{seed}/demo.rs", f"{wt}/tests/{name}.rs")
        with open(f"{wt}/Cargo.toml", "a") as f:
            f.write(f'\n[[test]]\nname = "{name}"\nrequired-features = [{m.group(2)}]\n')
        feats = os.environ.get("CONFIRM_FEATURES", feats)
        cmd = f"cargo test --offline -j 8 --features {feats} --test {name}"
    else:
        # auto-discovered test on default features
        name = f"seeded_{pid.lower()}_{var.lower()}"
        shutil.copy(f"{seed}/demo.rs", f"{wt}/tests/{name}.rs")
        cmd = f"cargo test --offline -j 8 --test {name}"
    # A demonstration may need the verification cfg (hooks); the pinned suite below never gets it.
    if os.environ.get("CONFIRM_DEMO_RUSTFLAGS"):
        cmd = f'RUSTFLAGS="{os.environ["CONFIRM_DEMO_RUSTFLAGS"]}" ' + cmd
    res["demo_cmd"] = cmd
    rc0, out0 = sh(cmd, wt)
    res["demo_without_patch_rc"] = rc0
    res["demo_without_patch_tail"] = out0[-600:]
    rc, out = sh(f"git apply {seed}/patch.diff", wt)
    res["patch_applies_to_HEAD"] = rc == 0
    rc1, out1 = sh(cmd, wt)
    res["demo_with_patch_rc"] = rc1
    res["demo_with_patch_tail"] = out1[-900:]
    # The pinned suite is run without the demonstration.
    os.remove(f"{wt}/tests/{name}.rs")
    sh("git checkout -- Cargo.toml", wt)
    rcb, outb = sh("cargo test --workspace --no-fail-fast --offline -j 8", wt)
    res["baseline_with_patch_rc"] = rcb
    res["baseline_with_patch_tail"] = "\n".join(l for l in outb.splitlines() if "test result" in l)[-600:]
    res["confirmed"] = (rc0 == 0 and rc1 != 0 and rcb == 0 and res["patch_applies_to_HEAD"])
finally:
    subprocess.run(f"git -C /repo worktree remove --force {wt}", shell=True, capture_output=True)
json.dump(res, open(f"{seed}/confirm.json", "w"), indent=1)
print(json.dumps({k: v for k, v in res.items() if not k.endswith("_tail")}))
