//! dsim — deterministic simulation with fault injection for NLnetLabs/domain.

#[macro_use]
pub mod core;
pub mod dns;
pub mod scen;

use crate::core::runner::{self, Tier};

fn usage() -> ! {
    eprintln!("usage: dsim check <PROPERTY> [quick|thorough]\n       dsim replay <FILE>\n       dsim run <scenario> <run-seed> [quick|thorough]\n       dsim fingerprints <scenario> <first-index> <count> [quick|thorough]");
    std::process::exit(2)
}

fn tier_arg(s: Option<&String>) -> Tier {
    let env = std::env::var("VERIF_TIER").ok();
    match s.map(|s| s.as_str()).or(env.as_deref()) {
        Some("thorough") => Tier::Thorough,
        _ => Tier::Quick,
    }
}

fn main() {
    let args: Vec<String> = std::env::args().collect();
    let verif_dir = std::env::var("VERIF_DIR").unwrap_or_else(|_| "/verif".to_string());
    runner::install_panic_hook();
    core::liblog::install_if_asked();
    core::findings::load(&format!("{}/known_findings.json", verif_dir));
    let seed: u64 = std::env::var("VERIF_SEED").ok().and_then(|s| s.parse().ok()).unwrap_or(20260924);
    match args.get(1).map(|s| s.as_str()) {
        Some("check") => {
            let prop = args.get(2).unwrap_or_else(|| usage());
            let spec = scen::check_spec(prop).unwrap_or_else(|| {
                eprintln!("no check for property {}", prop);
                std::process::exit(2)
            });
            let tier = tier_arg(args.get(3));
            std::process::exit(runner::run_check(&spec, tier, seed, &verif_dir));
        }
        Some("replay") => {
            let path = args.get(2).unwrap_or_else(|| usage());
            let rf = runner::load_replay(path).unwrap_or_else(|e| {
                eprintln!("{}", e);
                std::process::exit(2)
            });
            let scn = scen::scenario_by_name(&rf.scenario).unwrap_or_else(|| {
                eprintln!("unknown scenario {}", rf.scenario);
                std::process::exit(2)
            });
            match runner::replay_file(scn, path) {
                Ok((v, fp, log)) => {
                    for l in &log {
                        println!("{}", l);
                    }
                    println!("fingerprint {} (recorded {})", fp, rf.fingerprint);
                    match v {
                        Some(v) => {
                            println!("violation class: {}", v.class());
                            println!("detail: {}", v.detail);
                            println!("VIOLATION property={} replay={}", rf.property, path);
                            std::process::exit(1)
                        }
                        None => {
                            println!("no violation on replay (recorded class: {})", rf.violation.class());
                            std::process::exit(0)
                        }
                    }
                }
                Err(e) => {
                    eprintln!("HARNESS ERROR: {}", e);
                    std::process::exit(2)
                }
            }
        }
        Some("run") => {
            let scn = scen::scenario_by_name(args.get(2).unwrap_or_else(|| usage())).unwrap_or_else(|| usage());
            let s: u64 = args.get(3).and_then(|s| s.parse().ok()).unwrap_or_else(|| usage());
            let tier = tier_arg(args.get(4));
            let out = runner::run_one(scn, tier, s, runner::TapeInput::Gen(s), true);
            for l in &out.log {
                println!("{}", l);
            }
            println!("events={} vtime={:.3}s fp={} draws={} stats={:?}", out.events, out.vtime_ns as f64 / 1e9, out.fingerprint, out.draws.len(), out.stats);
            if let Some(e) = out.harness_error {
                println!("HARNESS ERROR: {}", e);
            }
            if let Some(v) = out.violation {
                println!("violation {}: {}", v.class(), v.detail);
            }
        }
        Some("fingerprints") => {
            // Determinism self-test helper: print (index, fingerprint).
            let scn = scen::scenario_by_name(args.get(2).unwrap_or_else(|| usage())).unwrap_or_else(|| usage());
            let first: u64 = args.get(3).and_then(|s| s.parse().ok()).unwrap_or(0);
            let count: u64 = args.get(4).and_then(|s| s.parse().ok()).unwrap_or(100);
            let tier = tier_arg(args.get(5));
            let w = runner::workers();
            let results = std::sync::Mutex::new(Vec::new());
            let next = std::sync::atomic::AtomicU64::new(first);
            std::thread::scope(|sc| {
                for _ in 0..w {
                    sc.spawn(|| loop {
                        let i = next.fetch_add(1, std::sync::atomic::Ordering::SeqCst);
                        if i >= first + count {
                            break;
                        }
                        let s = runner::run_seed(seed, scn.name(), i);
                        let out = runner::run_one(scn.clone(), tier, s, runner::TapeInput::Gen(s), false);
                        results.lock().unwrap().push((i, out.fingerprint, out.events, out.violation.map(|v| v.class()), out.harness_error, s));
                    });
                }
            });
            let mut r = results.into_inner().unwrap();
            r.sort();
            for (i, fp, ev, v, he, s) in r {
                println!("{} {:016x} {} {:?} {:?} seed={}", i, fp, ev, v, he, s);
            }
        }
        _ => usage(),
    }
}
