//! Small helpers for crafting and inspecting DNS messages in the stubs.

use domain::base::iana::{Class, Rcode};
use domain::base::{Message, MessageBuilder, Name, Rtype, Ttl};
use domain::rdata::A;
use std::net::Ipv4Addr;
use std::str::FromStr;

pub type VName = Name<Vec<u8>>;

pub fn name(s: &str) -> VName {
    Name::<Vec<u8>>::from_str(s).unwrap_or_else(|e| panic!("bad name {:?}: {}", s, e))
}

pub fn mk_query(qname: &str, qtype: Rtype, rd: bool) -> Message<Vec<u8>> {
    let mut mb = MessageBuilder::new_vec();
    mb.header_mut().set_rd(rd);
    let mut q = mb.question();
    q.push((name(qname), qtype)).unwrap();
    q.into_message()
}

#[derive(Clone, Debug)]
pub struct Parsed {
    pub id: u16,
    pub qr: bool,
    pub tc: bool,
    pub rcode: Rcode,
    pub qname: Option<String>,
    pub qtype: Option<Rtype>,
    pub qdcount: u16,
    pub ancount: u16,
    pub nscount: u16,
    pub arcount: u16,
    /// Tokens = the A rdata of answer records, as u32.
    pub tokens: Vec<u32>,
}

pub fn parse(bytes: &[u8]) -> Option<Parsed> {
    let msg = Message::from_octets(bytes).ok()?;
    let h = msg.header();
    let c = msg.header_counts();
    let (qname, qtype) = match msg.first_question() {
        Some(q) => (Some(format!("{}", q.qname()).to_ascii_lowercase()), Some(q.qtype())),
        None => (None, None),
    };
    let mut tokens = Vec::new();
    if let Ok(ans) = msg.answer() {
        for rr in ans.limit_to::<A>().flatten() {
            tokens.push(u32::from(rr.data().addr()));
        }
    }
    Some(Parsed {
        id: h.id(),
        qr: h.qr(),
        tc: h.tc(),
        rcode: h.rcode(),
        qname,
        qtype,
        qdcount: c.qdcount(),
        ancount: c.ancount(),
        nscount: c.nscount(),
        arcount: c.arcount(),
        tokens,
    })
}

/// Normal reply to `req` carrying `token` in an A record owned by the qname.
pub fn mk_reply(req: &[u8], token: u32, tc: bool, rcode: Rcode) -> Option<Vec<u8>> {
    let msg = Message::from_octets(req).ok()?;
    let q = msg.first_question()?;
    let mb = MessageBuilder::new_vec();
    let mut ab = mb.start_answer(&msg, rcode).ok()?;
    ab.header_mut().set_ra(true);
    ab.header_mut().set_tc(tc);
    ab.push((q.qname(), Class::IN, Ttl::from_secs(300), A::new(Ipv4Addr::from(token)))).ok()?;
    Some(ab.into_message().into_octets())
}

/// Reply with the given id but a different question.
pub fn mk_reply_other_question(id: u16, other_qname: &str, token: u32) -> Vec<u8> {
    mk_reply_other_question_rc(id, other_qname, Some(token), Rcode::NOERROR)
}

/// Reply with the given id, a different question, optionally no records,
/// and the given rcode (an error reply that is *not* header-only).
pub fn mk_reply_other_question_rc(id: u16, other_qname: &str, token: Option<u32>, rcode: Rcode) -> Vec<u8> {
    let mut mb = MessageBuilder::new_vec();
    mb.header_mut().set_id(id);
    mb.header_mut().set_qr(true);
    mb.header_mut().set_rcode(rcode);
    let mut q = mb.question();
    let n = name(other_qname);
    q.push((&n, Rtype::A)).unwrap();
    let mut ab = q.answer();
    if let Some(token) = token {
        ab.push((&n, Class::IN, Ttl::from_secs(300), A::new(Ipv4Addr::from(token)))).unwrap();
    }
    ab.into_message().into_octets()
}

/// Header-only error reply (no question, all counts zero).
pub fn mk_header_only(id: u16, rcode: Rcode) -> Vec<u8> {
    let mut mb = MessageBuilder::new_vec();
    mb.header_mut().set_id(id);
    mb.header_mut().set_qr(true);
    mb.header_mut().set_rcode(rcode);
    mb.into_message().into_octets()
}

pub fn set_id(bytes: &mut [u8], id: u16) {
    if bytes.len() >= 2 {
        bytes[0..2].copy_from_slice(&id.to_be_bytes());
    }
}

pub fn frame(body: &[u8]) -> Vec<u8> {
    let mut v = Vec::with_capacity(body.len() + 2);
    v.extend_from_slice(&(body.len() as u16).to_be_bytes());
    v.extend_from_slice(body);
    v
}

// ---------------------------------------------------------- generic views

#[derive(Clone, Debug, PartialEq, Eq)]
pub struct Rec {
    pub section: u8, // 1 answer, 2 authority, 3 additional
    pub owner: String,
    pub rtype: Rtype,
    pub class: Class,
    pub ttl: u32,
    pub rdata: String,
}

#[derive(Clone, Debug)]
pub struct View {
    pub id: u16,
    pub qr: bool,
    pub aa: bool,
    pub tc: bool,
    pub rd: bool,
    pub ra: bool,
    pub ad: bool,
    pub cd: bool,
    pub rcode: Rcode,
    pub questions: Vec<(String, Rtype, Class)>,
    pub recs: Vec<Rec>,
    /// (udp payload size, DO, version) if an OPT record is present.
    pub opt: Option<(u16, bool, u8)>,
    /// The full 12-bit response code (header bits plus the OPT record's).
    pub full_rcode: u16,
}

/// Full structural view of a message; `None` if any part fails to parse.
pub fn view(bytes: &[u8]) -> Option<View> {
    use domain::rdata::AllRecordData;
    let msg = Message::from_octets(bytes).ok()?;
    let h = msg.header();
    let mut questions = Vec::new();
    for q in msg.question() {
        let q = q.ok()?;
        questions.push((format!("{}", q.qname()), q.qtype(), q.qclass()));
    }
    let mut recs = Vec::new();
    let mut opt = None;
    let mut sec = msg.answer().ok()?;
    let mut section = 1u8;
    loop {
        for rr in &mut sec {
            let rr = rr.ok()?;
            if rr.rtype() == Rtype::OPT {
                if let Some(o) = msg.opt() {
                    opt = Some((o.udp_payload_size(), o.dnssec_ok(), o.version()));
                }
                continue;
            }
            let owner = format!("{}", rr.owner()).to_ascii_lowercase();
            let (rtype, class, ttl) = (rr.rtype(), rr.class(), rr.ttl().as_secs());
            let rec = rr.into_record::<AllRecordData<_, domain::base::ParsedName<_>>>().ok()??;
            recs.push(Rec {
                section,
                owner,
                rtype,
                class,
                ttl,
                rdata: format!("{}", rec.data()),
            });
        }
        match sec.next_section().ok()? {
            Some(s) => {
                sec = s;
                section += 1;
            }
            None => break,
        }
    }
    Some(View {
        id: h.id(),
        qr: h.qr(),
        aa: h.aa(),
        tc: h.tc(),
        rd: h.rd(),
        ra: h.ra(),
        ad: h.ad(),
        cd: h.cd(),
        rcode: h.rcode(),
        questions,
        recs,
        opt,
        full_rcode: msg.opt_rcode().to_int(),
    })
}

/// The `n` messages (n >= 1) of a full zone transfer answering `req`: the
/// first starts with the SOA, the last ends with it, in between address
/// records 10.77.<message>.<record>; every message repeats id and question.
pub fn mk_xfer_msgs(req: &[u8], n: usize) -> Vec<Vec<u8>> {
    use domain::base::Serial;
    use domain::rdata::Soa;
    let msg = Message::from_octets(req).expect("request");
    let q = msg.first_question().expect("question");
    let soa = Soa::new(name("ns.xfer.sim."), name("admin.xfer.sim."), Serial(7), Ttl::from_secs(1), Ttl::from_secs(2), Ttl::from_secs(3), Ttl::from_secs(4));
    let mut out = Vec::new();
    for i in 0..n {
        let mb = MessageBuilder::new_vec();
        let mut ab = mb.start_answer(&msg, Rcode::NOERROR).expect("start_answer");
        ab.header_mut().set_aa(true);
        if i == 0 {
            ab.push((q.qname(), Class::IN, Ttl::from_secs(60), soa.clone())).unwrap();
        }
        for j in 0..3u8 {
            ab.push((name(&format!("h{}-{}.xfer.sim.", i, j)), Class::IN, Ttl::from_secs(60), A::new(Ipv4Addr::new(10, 77, i as u8, j)))).unwrap();
        }
        if i + 1 == n {
            ab.push((q.qname(), Class::IN, Ttl::from_secs(60), soa.clone())).unwrap();
        }
        out.push(ab.into_message().into_octets());
    }
    out
}

/// A reply with the request's id whose question section is not the
/// request's: empty although records follow (`extra` = false), or the
/// request's question followed by another one (`extra` = true).
pub fn mk_reply_odd_question_section(req: &[u8], token: u32, extra: bool) -> Vec<u8> {
    let msg = Message::from_octets(req).expect("request");
    let q = msg.first_question().expect("question");
    let mut mb = MessageBuilder::new_vec();
    mb.header_mut().set_id(msg.header().id());
    mb.header_mut().set_qr(true);
    mb.header_mut().set_ra(true);
    let mut qb = mb.question();
    if extra {
        qb.push((q.qname(), q.qtype())).unwrap();
        qb.push((name("second.question.sim."), Rtype::A)).unwrap();
    }
    let mut ab = qb.answer();
    ab.push((q.qname(), Class::IN, Ttl::from_secs(300), A::new(Ipv4Addr::from(token)))).unwrap();
    ab.into_message().into_octets()
}
