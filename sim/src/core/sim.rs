//! Per-run simulation state, held in thread-locals of the run's own thread.
//!
//! Everything a run decides is drawn through [`draw`]; everything it
//! observes is logged through [`log`] (which also maintains the run's
//! fingerprint and global event sequence number).

use super::prng::{Fnv, Rng};
use std::cell::{Cell, RefCell};
use std::collections::BTreeMap;

/// Base of the virtual wall clock (seconds since the Unix epoch).
pub const EPOCH_BASE: u64 = 1_700_000_000;

#[derive(Clone, Debug, serde::Serialize, serde::Deserialize, PartialEq)]
pub struct Violation {
    pub property: String,
    pub oracle: String,
    /// Short, specific class of the failure (stable under minimisation).
    pub signature: String,
    pub detail: String,
}

impl Violation {
    pub fn class(&self) -> String {
        format!("{}/{}/{}", self.property, self.oracle, self.signature)
    }
}

#[derive(Clone, Debug, serde::Serialize, serde::Deserialize)]
pub struct Draw {
    pub label: String,
    pub n: u64,
    pub v: u64,
}

pub enum TapeMode {
    Gen(Rng),
    Replay { vals: Vec<u64>, pos: usize },
}

pub struct SimState {
    pub mode: TapeMode,
    pub draws: Vec<(&'static str, u64, u64)>,
    pub seq: u64,
    pub fp: Fnv,
    pub keep_log: bool,
    pub log: Vec<String>,
    pub stats: BTreeMap<&'static str, u64>,
    pub violation: Option<Violation>,
    pub known: Vec<Violation>,
    pub harness_error: Option<String>,
    pub event_cap: u64,
    pub draw_cap: usize,
    pub over_cap: bool,
}

thread_local! {
    static SIM: RefCell<Option<Box<SimState>>> = const { RefCell::new(None) };
    // Clock state lives in plain cells so that the interposed libc symbols
    // can read it re-entrantly (even while SIM is borrowed).
    pub(crate) static CLOCK_ACTIVE: Cell<bool> = const { Cell::new(false) };
    pub(crate) static VNOW_NS: Cell<u64> = const { Cell::new(0) };
    pub(crate) static LAST_NS: Cell<u64> = const { Cell::new(0) };
    pub(crate) static WALL_OFF_NS: Cell<i64> = const { Cell::new(0) };
    pub(crate) static ENV_RNG: Cell<Option<[u64; 5]>> = const { Cell::new(None) };
    pub(crate) static TOKIO_BASE: Cell<Option<tokio::time::Instant>> = const { Cell::new(None) };
}

pub fn install(state: SimState, env_seed: u64) {
    SIM.with(|s| *s.borrow_mut() = Some(Box::new(state)));
    VNOW_NS.with(|c| c.set(0));
    LAST_NS.with(|c| c.set(0));
    WALL_OFF_NS.with(|c| c.set(0));
    let mut sm = env_seed ^ 0xD1B5_4A32_D192_ED03;
    let st = [
        super::prng::splitmix64(&mut sm),
        super::prng::splitmix64(&mut sm),
        super::prng::splitmix64(&mut sm),
        super::prng::splitmix64(&mut sm),
        0,
    ];
    ENV_RNG.with(|c| c.set(Some(st)));
    CLOCK_ACTIVE.with(|c| c.set(true));
}

pub fn uninstall() -> Option<Box<SimState>> {
    CLOCK_ACTIVE.with(|c| c.set(false));
    ENV_RNG.with(|c| c.set(None));
    TOKIO_BASE.with(|c| c.set(None));
    SIM.with(|s| s.borrow_mut().take())
}

pub fn active() -> bool {
    SIM.with(|s| s.try_borrow().map(|b| b.is_some()).unwrap_or(true))
}

fn with<R>(f: impl FnOnce(&mut SimState) -> R) -> R {
    SIM.with(|s| {
        let mut b = s.borrow_mut();
        let st = b.as_mut().expect("no simulation active on this thread");
        f(st)
    })
}

fn try_with<R>(f: impl FnOnce(&mut SimState) -> R) -> Option<R> {
    SIM.try_with(|s| {
        let mut b = s.try_borrow_mut().ok()?;
        let st = b.as_mut()?;
        Some(f(st))
    })
    .ok()
    .flatten()
}

/// Draw a value in `[0, n)`. Value 0 is always the "simplest" choice: the
/// generators are written so that 0 means no fault / smallest / first.
pub fn draw(label: &'static str, n: u64) -> u64 {
    if n <= 1 {
        return 0;
    }
    with(|s| {
        if s.draws.len() >= s.draw_cap {
            s.over_cap = true;
            return 0;
        }
        let v = match &mut s.mode {
            TapeMode::Gen(rng) => rng.below(n),
            TapeMode::Replay { vals, pos } => {
                let v = vals.get(*pos).copied().unwrap_or(0);
                *pos += 1;
                if v >= n {
                    v % n
                } else {
                    v
                }
            }
        };
        s.draws.push((label, n, v));
        v
    })
}

/// `lo..=hi`, biased to `lo` under shrinking.
pub fn range(label: &'static str, lo: u64, hi: u64) -> u64 {
    debug_assert!(hi >= lo);
    lo + draw(label, hi - lo + 1)
}

/// True with probability `num/den`; false under shrinking (value 0).
pub fn chance(label: &'static str, num: u64, den: u64) -> bool {
    if num == 0 {
        return false;
    }
    let v = draw(label, den);
    v >= den - num.min(den)
}

pub fn pick<'a, T>(label: &'static str, items: &'a [T]) -> &'a T {
    &items[draw(label, items.len() as u64) as usize]
}

/// Append to the event log; returns the event's global sequence number.
pub fn log(args: std::fmt::Arguments<'_>) -> u64 {
    // Format outside the borrow: formatting user types may read the clock.
    let line = std::fmt::format(args);
    if trace_enabled() {
        eprintln!("[{}] {}", VNOW_NS.with(|c| c.get()) / 1_000_000, line);
    }
    try_with(|s| {
        s.seq += 1;
        s.fp.write(line.as_bytes());
        s.fp.write(b"\n");
        if s.keep_log && s.log.len() < 20_000 {
            let t = VNOW_NS.with(|c| c.get());
            s.log.push(format!("#{} t={}.{:06}s {}", s.seq, t / 1_000_000_000, (t / 1000) % 1_000_000, line));
        }
        if s.seq > s.event_cap {
            s.over_cap = true;
        }
        s.seq
    })
    .unwrap_or(0)
}

fn trace_enabled() -> bool {
    static T: std::sync::OnceLock<bool> = std::sync::OnceLock::new();
    *T.get_or_init(|| std::env::var("DSIM_TRACE").is_ok())
}

#[macro_export]
macro_rules! ev {
    ($($arg:tt)*) => { $crate::core::sim::log(format_args!($($arg)*)) };
}

/// (events logged, draws made): changes whenever the run makes progress.
pub fn progress_mark() -> (u64, u64) {
    try_with(|s| (s.seq, s.draws.len() as u64)).unwrap_or((0, 0))
}

pub fn seq() -> u64 {
    try_with(|s| s.seq).unwrap_or(0)
}

/// Count an occurrence of a fault kind / probe (measured, for the evidence).
pub fn stat(name: &'static str) {
    stat_add(name, 1);
}

pub fn stat_add(name: &'static str, n: u64) {
    try_with(|s| *s.stats.entry(name).or_insert(0) += n);
}

/// Record a violation (the first one wins) and ask the run to stop.
/// Returns `false` if the violation is a listed known finding (recorded as
/// such; the run continues).
pub fn violation(property: &str, oracle: &str, signature: impl Into<String>, detail: impl Into<String>) -> bool {
    let v = Violation {
        property: property.to_string(),
        oracle: oracle.to_string(),
        signature: signature.into(),
        detail: detail.into(),
    };
    if super::findings::is_known(&v) {
        known(v);
        return false;
    }
    try_with(|s| {
        if s.violation.is_none() {
            s.violation = Some(v);
        }
    });
    true
}

/// Record an occurrence of a listed known finding; the run continues.
pub fn known(v: Violation) {
    try_with(|s| {
        if s.known.len() < 64 && !s.known.iter().any(|k| k.class() == v.class()) {
            s.known.push(v);
        }
    });
}

pub fn harness_error(msg: impl Into<String>) {
    let m = msg.into();
    try_with(|s| {
        if s.harness_error.is_none() {
            s.harness_error = Some(m);
        }
    });
}

pub fn stopped() -> bool {
    try_with(|s| s.violation.is_some() || s.over_cap || s.harness_error.is_some()).unwrap_or(true)
}

pub fn over_cap() -> bool {
    try_with(|s| s.over_cap).unwrap_or(false)
}

// ---------------------------------------------------------------- clock

/// Synchronise the interposed clock with tokio's paused clock.
pub fn sync_clock() {
    if !CLOCK_ACTIVE.try_with(|c| c.get()).unwrap_or(false) {
        return;
    }
    // tokio::time::Instant::now() panics outside a runtime with time enabled.
    let base = TOKIO_BASE.with(|c| c.get());
    if let Some(base) = base {
        let now = tokio::time::Instant::now();
        let ns = now.saturating_duration_since(base).as_nanos() as u64;
        VNOW_NS.with(|c| {
            if ns > c.get() {
                c.set(ns)
            }
        });
    }
}

/// To be called once inside the runtime.
pub fn init_clock() {
    TOKIO_BASE.with(|c| c.set(Some(tokio::time::Instant::now())));
    sync_clock();
}

/// Virtual time in nanoseconds since the start of the run.
pub fn now_ns() -> u64 {
    sync_clock();
    VNOW_NS.with(|c| c.get())
}

pub fn now_ms() -> u64 {
    now_ns() / 1_000_000
}

/// Virtual wall clock (seconds since the epoch) including skew.
pub fn wall_secs() -> u64 {
    let ns = now_ns() as i128 + WALL_OFF_NS.with(|c| c.get()) as i128;
    (EPOCH_BASE as i128 + ns.div_euclid(1_000_000_000)) as u64
}

/// Set the wall-clock offset (skew / jump) in nanoseconds.
pub fn set_wall_offset_ns(off: i64) {
    WALL_OFF_NS.with(|c| c.set(off));
}

pub fn wall_offset_ns() -> i64 {
    WALL_OFF_NS.with(|c| c.get())
}

pub async fn sleep_ms(ms: u64) {
    tokio::time::sleep(std::time::Duration::from_millis(ms)).await;
    sync_clock();
}


/// Payload of a panic the simulation raises on purpose (a task that crashes
/// while it holds something): the panic hook lets it pass.
pub struct InjectedCrash;

/// Drop `x` the way a crashing task does: during the unwinding of a panic
/// (`std::thread::panicking()` is true in its `Drop`), the panic contained
/// as a runtime's task boundary or a `catch_unwind` would contain it.
pub fn crash_drop<T>(x: T) {
    stat("fault.holder_crashed");
    let _ = std::panic::catch_unwind(std::panic::AssertUnwindSafe(move || {
        let _held = x;
        std::panic::panic_any(InjectedCrash);
    }));
}
