//! Run one simulated execution; run batches on worker threads; minimise and
//! persist failures; write evidence.

use super::interpose::real_now_ns;
use super::prng::{mix, Fnv, Rng};
use super::sim::{self, Draw, SimState, TapeMode, Violation};
use crate::ev;
use serde::{Deserialize, Serialize};
use std::cell::RefCell;
use std::collections::{BTreeMap, HashSet};
use std::future::Future;
use std::pin::Pin;
use std::sync::atomic::{AtomicBool, AtomicU64, Ordering};
use std::sync::{Arc, Mutex, OnceLock};
use std::time::Duration;

#[derive(Clone, Copy, Debug, PartialEq, Eq, Serialize, Deserialize)]
#[serde(rename_all = "lowercase")]
pub enum Tier {
    Quick,
    Thorough,
}

pub trait Scenario: Send + Sync {
    fn name(&self) -> &'static str;
    fn property(&self) -> &'static str;
    /// Virtual-time cap for one run.
    fn max_vtime(&self) -> Duration {
        Duration::from_secs(3600)
    }
    fn event_cap(&self) -> u64 {
        20_000
    }
    /// The scenario body; runs inside a paused current-thread runtime.
    fn run(&self, tier: Tier) -> Pin<Box<dyn Future<Output = ()>>>;
    /// Whether a finished run counts as non-trivial for the evidence.
    fn nontrivial(&self, stats: &BTreeMap<&'static str, u64>) -> bool {
        stats.iter().any(|(k, v)| *v > 0 && (k.starts_with("fault.") || k.starts_with("probe.")))
    }
    /// Components that ran real code / stubs (for the evidence file).
    fn components(&self) -> (Vec<&'static str>, Vec<&'static str>);
    fn rule(&self) -> &'static str;
    fn assumptions(&self) -> Vec<&'static str> {
        Vec::new()
    }
    /// Whether exceeding the event cap is a violation (livelock) here.
    fn livelock_is_violation(&self) -> bool {
        false
    }
}

pub enum TapeInput {
    Gen(u64),
    Replay(Vec<u64>),
}

#[derive(Clone, Debug)]
pub struct PanicInfo {
    pub location: String,
    pub message: String,
}

pub struct RunOutcome {
    pub violation: Option<Violation>,
    pub known: Vec<Violation>,
    pub harness_error: Option<String>,
    pub events: u64,
    pub fingerprint: u64,
    pub vtime_ns: u64,
    pub stats: BTreeMap<&'static str, u64>,
    pub draws: Vec<(&'static str, u64, u64)>,
    pub log: Vec<String>,
    pub over_cap: bool,
}

thread_local! {
    // Spin breaker (see `spin_breaker`): task polls since the simulation last
    // made observable progress, the breaker task's waker and its step.
    static POLLS: std::cell::Cell<u64> = const { std::cell::Cell::new(0) };
    static LAST_MARK: std::cell::Cell<(u64, u64)> = const { std::cell::Cell::new((0, 0)) };
    static BREAKER_WAKER: RefCell<Option<std::task::Waker>> = const { RefCell::new(None) };
    static BREAKER_SIGNAL: std::cell::Cell<bool> = const { std::cell::Cell::new(false) };
    static BREAKER_STEP_MS: std::cell::Cell<u64> = const { std::cell::Cell::new(1) };
    static PANICS: RefCell<Vec<PanicInfo>> = const { RefCell::new(Vec::new()) };
    static IS_SIM_THREAD: std::cell::Cell<bool> = const { std::cell::Cell::new(false) };
}

static FOREIGN_PANICS: Mutex<Vec<PanicInfo>> = Mutex::new(Vec::new());

pub fn install_panic_hook() {
    let default = std::panic::take_hook();
    std::panic::set_hook(Box::new(move |info| {
        // A crash the simulation injects on purpose.
        if info.payload().downcast_ref::<sim::InjectedCrash>().is_some() {
            return;
        }
        let loc = info
            .location()
            .map(|l| format!("{}:{}", l.file(), l.line()))
            .unwrap_or_else(|| "?".into());
        let msg = if let Some(s) = info.payload().downcast_ref::<&str>() {
            s.to_string()
        } else if let Some(s) = info.payload().downcast_ref::<String>() {
            s.clone()
        } else {
            "<non-string panic>".to_string()
        };
        // A panic raised inside std/deps (e.g. Duration arithmetic) on behalf
        // of library code: attribute it to the innermost /repo/ frame.
        let mut loc = loc;
        if !loc.starts_with("/repo/") {
            let bt = std::backtrace::Backtrace::force_capture().to_string();
            let mut lib_frame: Option<String> = None;
            for line in bt.lines() {
                let l = line.trim();
                if let Some(rest) = l.strip_prefix("at ") {
                    // (The hook's own frame is the innermost of all.)
                    if rest.contains("src/core/runner.rs") {
                        continue;
                    }
                    if rest.starts_with("/repo/src/") {
                        lib_frame = Some(rest.rsplitn(2, ':').nth(1).unwrap_or(rest).to_string());
                        break;
                    }
                    if rest.contains("/verif/sim/src/") || rest.starts_with("./src/") || rest.starts_with("src/") {
                        break; // harness code is closer to the panic
                    }
                }
            }
            if let Some(f) = lib_frame {
                loc = format!("{} (via {})", f, loc);
            }
        }
        // A managed worker thread of the thread scheduler.
        let taken = crate::core::threads::WORKER_PANICS
            .try_with(|w| match &*w.borrow() {
                Some(sink) => {
                    sink.lock().unwrap().push((loc.clone(), msg.clone()));
                    true
                }
                None => false,
            })
            .unwrap_or(false);
        if taken {
            return;
        }
        let pi = PanicInfo { location: loc, message: msg };
        let is_sim = IS_SIM_THREAD.try_with(|c| c.get()).unwrap_or(false);
        if is_sim {
            let _ = PANICS.try_with(|p| p.borrow_mut().push(pi));
        } else {
            let name = std::thread::current().name().unwrap_or("").to_string();
            if name.starts_with("tokio-runtime-worker") || name.contains("blocking") {
                FOREIGN_PANICS.lock().unwrap().push(pi);
            } else {
                default(info);
            }
        }
    }));
}

pub fn foreign_panics() -> Vec<PanicInfo> {
    FOREIGN_PANICS.lock().unwrap().clone()
}

/// With a paused clock, virtual time only moves when the runtime is idle. A
/// task that busy-waits (`yield_now()` in a loop, as the stream server's
/// response queue does while it is full inside a transaction) would freeze
/// time forever, although in reality time passes while it spins. The hook
/// below counts task polls; when `SPIN_POLLS` polls pass without a single
/// simulation event or draw, it wakes a helper task that advances the
/// virtual clock (1 ms, doubling up to 64 ms while the spin persists).
const SPIN_POLLS: u64 = 1024;

/// `spawn_blocking` work (the XFR middleware's zone walk) runs on a real
/// thread the simulator does not schedule. To keep it from racing with the
/// tasks on the simulation thread, no task is polled while blocking work is
/// outstanding: the simulation thread waits (real time, bounded) until the
/// blocking pool is idle again. What the blocking work produced is then
/// complete before anybody looks at it.
thread_local! {
    static BLOCKING_TIDS: RefCell<Option<std::sync::Arc<std::sync::Mutex<Vec<i64>>>>> = const { RefCell::new(None) };
}

/// Is every thread of this run's blocking pool asleep (parked: idle, or
/// waiting for room in a bounded channel that only a task on the simulation
/// thread can make)? Read from /proc/self/task/<tid>/stat.
fn blocking_threads_all_asleep() -> bool {
    let tids: Vec<i64> = match BLOCKING_TIDS.with(|c| c.borrow().clone()) {
        Some(t) => t.lock().unwrap().clone(),
        None => return false,
    };
    let me = unsafe { libc::syscall(libc::SYS_gettid) } as i64;
    for tid in tids {
        if tid == me {
            continue;
        }
        let stat = match std::fs::read_to_string(format!("/proc/self/task/{}/stat", tid)) {
            Ok(s) => s,
            Err(_) => continue, // the thread is gone
        };
        // "<pid> (<comm>) <state> ..."
        let state = stat.rsplit(')').next().and_then(|r| r.trim_start().chars().next()).unwrap_or('R');
        if state != 'S' {
            return false;
        }
    }
    true
}

fn wait_for_blocking_work() {
    let h = match tokio::runtime::Handle::try_current() {
        Ok(h) => h,
        Err(_) => return,
    };
    let m = h.metrics();
    let busy = |m: &tokio::runtime::RuntimeMetrics| m.num_blocking_threads() > m.num_idle_blocking_threads() || m.blocking_queue_depth() > 0;
    if !busy(&m) {
        return;
    }
    let start = super::interpose::real_now_ns();
    let mut asleep = 0u32;
    while busy(&m) {
        std::thread::yield_now();
        // Blocking work that sleeps is waiting for the simulation thread (a
        // zone walk whose bounded channel is full: somebody has to take the
        // items out). Seen asleep a few times in a row, it is let be.
        // (Work still in the pool's queue has not even begun: its thread is
        // asleep because it has not been woken up yet.)
        if m.blocking_queue_depth() == 0 && blocking_threads_all_asleep() {
            asleep += 1;
            if asleep >= 3 {
                sim::stat("probe.blocking_work_parked_waiting_for_the_simulation");
                break;
            }
        } else {
            asleep = 0;
        }
        if super::interpose::real_now_ns() - start > 5_000_000_000 {
            // (A walk blocked on its bounded channel would wait for us.)
            sim::stat("probe.blocking_work_not_awaited");
            break;
        }
    }
}

fn before_task_poll() {
    wait_for_blocking_work();
    let n = POLLS.with(|c| {
        let n = c.get() + 1;
        c.set(n);
        n
    });
    if n % SPIN_POLLS != 0 {
        return;
    }
    let mark = sim::progress_mark();
    let last = LAST_MARK.with(|c| c.replace(mark));
    if mark == last {
        BREAKER_SIGNAL.with(|c| c.set(true));
        if let Some(w) = BREAKER_WAKER.with(|w| w.borrow().clone()) {
            w.wake();
        }
    } else {
        BREAKER_STEP_MS.with(|c| c.set(1));
    }
}

async fn spin_breaker() {
    loop {
        std::future::poll_fn(|cx| {
            if BREAKER_SIGNAL.with(|c| c.replace(false)) {
                std::task::Poll::Ready(())
            } else {
                BREAKER_WAKER.with(|w| *w.borrow_mut() = Some(cx.waker().clone()));
                std::task::Poll::Pending
            }
        })
        .await;
        let step = BREAKER_STEP_MS.with(|c| c.get());
        tokio::time::advance(Duration::from_millis(step)).await;
        sim::sync_clock();
        sim::stat("probe.spin_breaker_advanced_clock");
        // (An advance jumps over the deadlines inside the step: timers of
        // other tasks fire late by up to the step. Keep that small.)
        BREAKER_STEP_MS.with(|c| c.set((step * 2).min(64)));
    }
}

fn short_loc(loc: &str) -> String {
    loc.trim_start_matches("/repo/").split(" (via ").next().unwrap_or(loc).to_string()
}

/// Execute one run on a fresh OS thread. A pure function of
/// (code, scenario, tier, env_seed, tape).
pub fn run_one(scn: Arc<dyn Scenario>, tier: Tier, env_seed: u64, tape: TapeInput, keep_log: bool) -> RunOutcome {
    let (tx, rx) = std::sync::mpsc::channel();
    let scn2 = scn.clone();
    let handle = std::thread::Builder::new()
        .name("sim-run".into())
        .stack_size(8 << 20)
        .spawn(move || {
            let out = run_on_this_thread(scn2, tier, env_seed, tape, keep_log);
            let _ = tx.send(out);
        })
        .expect("spawn run thread");
    // Watchdog. A run normally takes milliseconds. Two ways of not ending:
    // (a) the run thread burns CPU without ever yielding to the simulator
    //     (a loop in library code with no await in it): decided by the
    //     thread's own CPU clock, so that a loaded machine cannot trip it -
    //     a livelock violation for scenarios that promise termination;
    // (b) no progress and no CPU use either (starved or blocked for real):
    //     a harness error after a generous wall-clock limit.
    use std::os::unix::thread::JoinHandleExt;
    let mut cpu_clock: libc::clockid_t = 0;
    let have_cpu_clock = unsafe { libc::pthread_getcpuclockid(handle.as_pthread_t(), &mut cpu_clock) } == 0;
    let cpu_ns = |clk: libc::clockid_t| -> u64 {
        let mut ts = libc::timespec { tv_sec: 0, tv_nsec: 0 };
        unsafe {
            libc::syscall(libc::SYS_clock_gettime, clk, &mut ts as *mut libc::timespec);
        }
        ts.tv_sec as u64 * 1_000_000_000 + ts.tv_nsec as u64
    };
    let t_start = real_now_ns();
    let dead = |harness_error: Option<String>, violation: Option<Violation>| RunOutcome {
        violation,
        known: Vec::new(),
        harness_error,
        events: 0,
        fingerprint: 0,
        vtime_ns: 0,
        stats: BTreeMap::new(),
        draws: Vec::new(),
        log: Vec::new(),
        over_cap: false,
    };
    // Both clocks are read as increments between two looks, half a second
    // apart, and an increment counts for five seconds at most (CPU time for
    // no more than the real time that passed): a clock that leaps - a
    // virtual machine that is snapshotted or migrated mid-run was seen to
    // add 90 s to every thread's CPU clock at once - is not a busy loop.
    const MAX_STEP_NS: u64 = 5_000_000_000;
    let (mut last_cpu, mut last_real) = (if have_cpu_clock { cpu_ns(cpu_clock) } else { 0 }, t_start);
    let (mut burnt, mut waited) = (0u64, 0u64);
    loop {
        match rx.recv_timeout(Duration::from_millis(500)) {
            Ok(out) => {
                let _ = handle.join();
                return out;
            }
            Err(std::sync::mpsc::RecvTimeoutError::Disconnected) => {
                let _ = handle.join();
                return dead(Some(format!("run thread ended without a result (scenario {}, env_seed {})", scn.name(), env_seed)), None);
            }
            Err(std::sync::mpsc::RecvTimeoutError::Timeout) => {}
        }
        let (cpu, real) = (if have_cpu_clock { cpu_ns(cpu_clock) } else { 0 }, real_now_ns());
        let real_step = real.saturating_sub(last_real).min(MAX_STEP_NS);
        burnt += cpu.saturating_sub(last_cpu).min(real_step + 50_000_000);
        waited += real_step;
        (last_cpu, last_real) = (cpu, real);
        if burnt > BUSY_LIMIT_S * 1_000_000_000 {
            // (The thread cannot be stopped; it is left behind.)
            if scn.livelock_is_violation() {
                return dead(
                    None,
                    Some(Violation {
                        property: scn.property().to_string(),
                        oracle: "livelock".into(),
                        signature: "busy-loop-without-yielding".into(),
                        detail: format!("the run thread used {} s of CPU time without finishing or yielding to the simulator (a loop in library code that never awaits)", burnt / 1_000_000_000),
                    }),
                );
            }
            return dead(Some(format!("watchdog: run thread busy for {} s of CPU time (scenario {}, env_seed {})", burnt / 1_000_000_000, scn.name(), env_seed)), None);
        }
        if waited > STALL_LIMIT_S * 1_000_000_000 {
            return dead(Some(format!("watchdog: run did not finish in {} s real time, {} s of them on the CPU (scenario {}, env_seed {})", STALL_LIMIT_S, burnt / 1_000_000_000, scn.name(), env_seed)), None);
        }
    }
}

/// CPU seconds a single run may burn before it counts as a busy loop.
const BUSY_LIMIT_S: u64 = 25;
/// Wall-clock seconds a run may take on a machine that does not schedule it.
const STALL_LIMIT_S: u64 = 300;

fn run_on_this_thread(scn: Arc<dyn Scenario>, tier: Tier, env_seed: u64, tape: TapeInput, keep_log: bool) -> RunOutcome {
    IS_SIM_THREAD.with(|c| c.set(true));
    let mode = match tape {
        TapeInput::Gen(seed) => TapeMode::Gen(Rng::new(seed)),
        TapeInput::Replay(vals) => TapeMode::Replay { vals, pos: 0 },
    };
    let state = SimState {
        mode,
        draws: Vec::new(),
        seq: 0,
        fp: Fnv::default(),
        keep_log,
        log: Vec::new(),
        stats: BTreeMap::new(),
        violation: None,
        known: Vec::new(),
        harness_error: None,
        event_cap: scn.event_cap(),
        draw_cap: 200_000,
        over_cap: false,
    };
    sim::install(state, env_seed);
    let mut seed_bytes = [0u8; 32];
    Rng::new(mix(env_seed ^ 0x7061_7573_6564)).fill(&mut seed_bytes);
    let max_vtime = scn.max_vtime();
    let property = scn.property();
    let res = std::panic::catch_unwind(std::panic::AssertUnwindSafe(|| {
        // The threads of this runtime's blocking pool (their kernel ids), so
        // that the barrier below can see whether one of them is parked.
        let pool_tids: std::sync::Arc<std::sync::Mutex<Vec<i64>>> = std::sync::Arc::new(std::sync::Mutex::new(Vec::new()));
        BLOCKING_TIDS.with(|c| *c.borrow_mut() = Some(pool_tids.clone()));
        let rt = tokio::runtime::Builder::new_current_thread()
            .on_thread_start(move || {
                let tid = unsafe { libc::syscall(libc::SYS_gettid) } as i64;
                pool_tids.lock().unwrap().push(tid);
            })
            .enable_time()
            .start_paused(true)
            .rng_seed(tokio::runtime::RngSeed::from_bytes(&seed_bytes))
            .on_thread_unpark(sim::sync_clock)
            .on_before_task_poll(|_| before_task_poll())
            .build()
            .expect("runtime");
        POLLS.with(|c| c.set(0));
        LAST_MARK.with(|c| c.set((0, 0)));
        BREAKER_SIGNAL.with(|c| c.set(false));
        BREAKER_STEP_MS.with(|c| c.set(1));
        rt.block_on(async {
            sim::init_clock();
            tokio::spawn(spin_breaker());
            let fut = scn.run(tier);
            if tokio::time::timeout(max_vtime, fut).await.is_err() {
                sim::stat("probe.vtime_cap_hit");
                ev!("virtual time cap reached");
            }
            sim::sync_clock();
            // Scenario tasks that never finish (peers) are dropped here, inside
            // the runtime (their sockets and timers want one to be dropped in).
            super::exec::shutdown_all();
        });
        // Dropping the runtime drops library tasks (and their sockets).
        drop(rt);
        super::exec::shutdown_all();
        BREAKER_WAKER.with(|w| *w.borrow_mut() = None);
    }));
    let vtime_ns = sim::VNOW_NS.with(|c| c.get());
    let panics: Vec<PanicInfo> = PANICS.with(|p| std::mem::take(&mut *p.borrow_mut()));
    let mut st = sim::uninstall().expect("sim state");
    if res.is_err() && panics.is_empty() {
        st.harness_error.get_or_insert("panic without hook record".into());
    }
    for p in &panics {
        if p.location.starts_with("/repo/") {
            if st.violation.is_none() {
                let v = Violation {
                    property: property.to_string(),
                    oracle: "panic".into(),
                    signature: short_loc(&p.location),
                    detail: format!("panic in library code at {}: {}", p.location, p.message),
                };
                if super::findings::is_known(&v) {
                    if !st.known.iter().any(|k| k.class() == v.class()) {
                        st.known.push(v);
                    }
                } else {
                    st.violation = Some(v);
                }
            }
        } else if st.harness_error.is_none() && st.violation.is_none() {
            st.harness_error = Some(format!("harness panic at {}: {}", p.location, p.message));
        }
    }
    if st.over_cap && st.violation.is_none() {
        if scn.livelock_is_violation() {
            st.violation = Some(Violation {
                property: property.to_string(),
                oracle: "livelock".into(),
                signature: "event-cap".into(),
                detail: format!("run exceeded {} events / draw cap without finishing", scn.event_cap()),
            });
        } else {
            st.stats.insert("probe.event_cap_hit", 1);
        }
    }
    IS_SIM_THREAD.with(|c| c.set(false));
    RunOutcome {
        violation: st.violation,
        known: st.known,
        harness_error: st.harness_error,
        events: st.seq,
        fingerprint: st.fp.0,
        vtime_ns,
        stats: st.stats,
        draws: st.draws,
        log: st.log,
        over_cap: st.over_cap,
    }
}

// ----------------------------------------------------------------- batches

pub fn run_seed(batch_seed: u64, scenario: &str, i: u64) -> u64 {
    let mut h = Fnv::default();
    h.write(scenario.as_bytes());
    mix(batch_seed ^ h.0 ^ mix(i.wrapping_mul(0x9E37_79B9_7F4A_7C15)))
}

#[derive(Default)]
pub struct BatchResult {
    pub runs: u64,
    pub events: u64,
    pub vtime_ns: u128,
    pub stats: BTreeMap<String, u64>,
    pub fingerprints: HashSet<u64>,
    pub nontrivial_fps: HashSet<u64>,
    pub known: BTreeMap<String, (Violation, u64)>,
    pub first_violation: Option<(u64, Violation)>,
    pub harness_errors: Vec<String>,
    pub samples: Vec<serde_json::Value>,
    pub wall_s: f64,
}

pub fn run_batch(scn: Arc<dyn Scenario>, tier: Tier, batch_seed: u64, runs: u64, workers: usize, deadline_real_ns: Option<u64>) -> BatchResult {
    let next = Arc::new(AtomicU64::new(0));
    let stop = Arc::new(AtomicBool::new(false));
    let result = Arc::new(Mutex::new(BatchResult::default()));
    let t0 = real_now_ns();
    let mut handles = Vec::new();
    for _ in 0..workers.max(1) {
        let scn = scn.clone();
        let next = next.clone();
        let stop = stop.clone();
        let result = result.clone();
        handles.push(std::thread::spawn(move || {
            let mut local = BatchResult::default();
            loop {
                if stop.load(Ordering::SeqCst) {
                    break;
                }
                if let Some(d) = deadline_real_ns {
                    if real_now_ns() > d {
                        break;
                    }
                }
                let i = next.fetch_add(1, Ordering::SeqCst);
                if i >= runs {
                    break;
                }
                let seed = run_seed(batch_seed, scn.name(), i);
                let out = run_one(scn.clone(), tier, seed, TapeInput::Gen(seed), false);
                local.runs += 1;
                local.events += out.events;
                local.vtime_ns += out.vtime_ns as u128;
                for (k, v) in &out.stats {
                    *local.stats.entry(k.to_string()).or_insert(0) += v;
                }
                local.fingerprints.insert(out.fingerprint);
                if scn.nontrivial(&out.stats) {
                    local.nontrivial_fps.insert(out.fingerprint);
                }
                for k in out.known {
                    let e = local.known.entry(k.class()).or_insert((k, 0));
                    e.1 += 1;
                }
                if let Some(e) = out.harness_error {
                    local.harness_errors.push(format!("run {} seed {}: {}", i, seed, e));
                    stop.store(true, Ordering::SeqCst);
                }
                if let Some(v) = out.violation {
                    let better = match &local.first_violation {
                        Some((j, _)) => i < *j,
                        None => true,
                    };
                    if better {
                        local.first_violation = Some((i, v));
                    }
                    stop.store(true, Ordering::SeqCst);
                }
                if i < 3 {
                    local.samples.push(sample_json(scn.name(), i, seed, &out.draws, out.events, out.vtime_ns, &out.stats));
                }
            }
            let mut g = result.lock().unwrap();
            g.runs += local.runs;
            g.events += local.events;
            g.vtime_ns += local.vtime_ns;
            for (k, v) in local.stats {
                *g.stats.entry(k).or_insert(0) += v;
            }
            g.fingerprints.extend(local.fingerprints);
            g.nontrivial_fps.extend(local.nontrivial_fps);
            for (k, (v, n)) in local.known {
                let e = g.known.entry(k).or_insert((v, 0));
                e.1 += n;
            }
            if let Some((i, v)) = local.first_violation {
                let better = match &g.first_violation {
                    Some((j, _)) => i < *j,
                    None => true,
                };
                if better {
                    g.first_violation = Some((i, v));
                }
            }
            g.harness_errors.extend(local.harness_errors);
            g.samples.extend(local.samples);
        }));
    }
    for h in handles {
        let _ = h.join();
    }
    let mut r = std::mem::take(&mut *result.lock().unwrap());
    r.wall_s = (real_now_ns() - t0) as f64 / 1e9;
    r.samples.sort_by_key(|s| s.get("run").and_then(|v| v.as_u64()).unwrap_or(0));
    r
}

fn sample_json(scenario: &str, i: u64, seed: u64, draws: &[(&'static str, u64, u64)], events: u64, vtime_ns: u64, stats: &BTreeMap<&'static str, u64>) -> serde_json::Value {
    let head: Vec<String> = draws.iter().take(40).map(|(l, n, v)| format!("{}={}/{}", l, v, n)).collect();
    serde_json::json!({
        "scenario": scenario,
        "run": i,
        "run_seed": seed,
        "events": events,
        "virtual_time_s": vtime_ns as f64 / 1e9,
        "draws_total": draws.len(),
        "first_draws": head,
        "stats": stats,
    })
}

// ------------------------------------------------------------ replay files

#[derive(Serialize, Deserialize, Clone, Debug)]
pub struct ReplayFile {
    pub property: String,
    pub scenario: String,
    pub tier: Tier,
    pub original_run_seed: u64,
    pub env_seed: u64,
    pub violation: Violation,
    pub fingerprint: u64,
    /// The minimised choice tape: every scheduling, workload and fault
    /// decision of the run, in order.
    pub tape: Vec<Draw>,
    /// Event trace of the minimised run (informational).
    pub trace: Vec<String>,
    pub shrink_runs: u64,
    pub original_tape_len: usize,
    /// The run never ended (a busy loop): there is no recorded tape, the
    /// replay generates the choices from `env_seed` again.
    #[serde(default)]
    pub from_seed: bool,
}

fn tape_vals(draws: &[(&'static str, u64, u64)]) -> Vec<u64> {
    draws.iter().map(|d| d.2).collect()
}

/// Hypothesis-style minimisation over the choice tape.
pub fn shrink(scn: Arc<dyn Scenario>, tier: Tier, env_seed: u64, start: Vec<u64>, class: &str, budget: u64) -> (Vec<u64>, u64) {
    let mut best = start;
    let mut used = 0u64;
    let try_tape = |cand: &Vec<u64>, used: &mut u64| -> Option<Vec<u64>> {
        *used += 1;
        let out = run_one(scn.clone(), tier, env_seed, TapeInput::Replay(cand.clone()), false);
        match out.violation {
            Some(v) if v.class() == class => {
                // Normalise to what was actually consumed.
                let mut t = tape_vals(&out.draws);
                while t.last() == Some(&0) {
                    t.pop();
                }
                Some(t)
            }
            _ => None,
        }
    };
    // Normalise first.
    if let Some(t) = try_tape(&best, &mut used) {
        best = t;
    } else {
        return (best, used);
    }
    let mut improved = true;
    while improved && used < budget {
        improved = false;
        // Pass 1: truncate the tail (exhausted tape reads as 0).
        let mut cut = best.len() / 2;
        while cut >= 1 && used < budget {
            if best.len() > cut {
                let cand: Vec<u64> = best[..best.len() - cut].to_vec();
                if let Some(t) = try_tape(&cand, &mut used) {
                    if t.len() < best.len() {
                        best = t;
                        improved = true;
                        continue;
                    }
                }
            }
            cut /= 2;
        }
        // Pass 2: delete chunks.
        let mut size = (best.len() / 2).max(1);
        while size >= 1 && used < budget {
            let mut i = 0;
            while i + size <= best.len() && used < budget {
                let mut cand = best.clone();
                cand.drain(i..i + size);
                if let Some(t) = try_tape(&cand, &mut used) {
                    if t.len() < best.len() || t.iter().sum::<u64>() < best.iter().sum::<u64>() {
                        best = t;
                        improved = true;
                        continue;
                    }
                }
                i += size;
            }
            if size == 1 {
                break;
            }
            size /= 2;
        }
        // Pass 3: zero chunks, then zero / halve single values.
        let mut size = (best.len() / 4).max(1);
        while size >= 1 && used < budget {
            let mut i = 0;
            while i < best.len() && used < budget {
                let end = (i + size).min(best.len());
                if best[i..end].iter().any(|v| *v != 0) {
                    let mut cand = best.clone();
                    for v in &mut cand[i..end] {
                        *v = 0;
                    }
                    if let Some(t) = try_tape(&cand, &mut used) {
                        if t.len() < best.len() || (t.len() == best.len() && t.iter().sum::<u64>() < best.iter().sum::<u64>()) {
                            best = t;
                            improved = true;
                        }
                    }
                }
                i += size;
            }
            if size == 1 {
                break;
            }
            size /= 2;
        }
        let mut i = 0;
        while i < best.len() && used < budget {
            let v = best[i];
            if v > 1 {
                for cand_v in [v / 2, v - 1] {
                    let mut cand = best.clone();
                    cand[i] = cand_v;
                    if let Some(t) = try_tape(&cand, &mut used) {
                        if t.len() <= best.len() && t.iter().sum::<u64>() < best.iter().sum::<u64>() {
                            best = t;
                            improved = true;
                            break;
                        }
                    }
                }
            }
            i += 1;
        }
    }
    (best, used)
}

/// Minimise, persist and verify a violation. Returns the replay path.
pub fn report_violation(scn: Arc<dyn Scenario>, tier: Tier, run_index: u64, run_seed_v: u64, v: &Violation, replay_dir: &str) -> Result<String, String> {
    std::fs::create_dir_all(replay_dir).map_err(|e| e.to_string())?;
    let mut h = Fnv::default();
    h.write(v.class().as_bytes());
    let path = format!("{}/{}-{}-{:08x}.json", replay_dir, scn.property(), scn.name(), (h.0 ^ run_seed_v) as u32);
    if v.oracle == "livelock" && v.signature == "busy-loop-without-yielding" {
        // The run never ends, so there is no tape to read back or to
        // minimise: confirm once from the seed and record the seed.
        let again = run_one(scn.clone(), tier, run_seed_v, TapeInput::Gen(run_seed_v), false);
        match again.violation {
            Some(v2) if v2.class() == v.class() => {}
            other => return Err(format!("busy loop of run {} (seed {}) did not reproduce from its seed: {:?}", run_index, run_seed_v, other.map(|v| v.class()))),
        }
        let rf = ReplayFile {
            property: scn.property().to_string(),
            scenario: scn.name().to_string(),
            tier,
            original_run_seed: run_seed_v,
            env_seed: run_seed_v,
            violation: v.clone(),
            fingerprint: 0,
            tape: Vec::new(),
            trace: vec!["(the run never ended: no trace; replay regenerates the choices from env_seed)".to_string()],
            shrink_runs: 0,
            original_tape_len: 0,
            from_seed: true,
        };
        std::fs::write(&path, serde_json::to_string_pretty(&rf).unwrap()).map_err(|e| e.to_string())?;
        return Ok(path);
    }
    // Re-run the original from its seed to get the tape.
    let orig = run_one(scn.clone(), tier, run_seed_v, TapeInput::Gen(run_seed_v), false);
    let ov = orig.violation.clone().ok_or_else(|| format!("violation of run {} (seed {}) did not reproduce from its seed: nondeterminism in the harness", run_index, run_seed_v))?;
    if ov.class() != v.class() {
        return Err(format!("violation class changed on re-run: {} vs {}", v.class(), ov.class()));
    }
    let tape0 = tape_vals(&orig.draws);
    let (min_tape, used) = shrink(scn.clone(), tier, run_seed_v, tape0.clone(), &v.class(), 300);
    let mut fin = run_one(scn.clone(), tier, run_seed_v, TapeInput::Replay(min_tape.clone()), true);
    if fin.violation.as_ref().map(|f| f.class()) != Some(v.class()) {
        // The minimised tape does not hold up (the failing code may itself
        // behave differently from run to run): fall back to the full one.
        fin = run_one(scn.clone(), tier, run_seed_v, TapeInput::Replay(tape0.clone()), true);
    }
    let fv = fin.violation.clone().ok_or("neither the minimised nor the full tape reproduced the violation")?;
    let rf = ReplayFile {
        property: scn.property().to_string(),
        scenario: scn.name().to_string(),
        tier,
        original_run_seed: run_seed_v,
        env_seed: run_seed_v,
        violation: fv.clone(),
        fingerprint: fin.fingerprint,
        tape: fin.draws.iter().map(|(l, n, v)| Draw { label: l.to_string(), n: *n, v: *v }).collect(),
        trace: fin.log.clone(),
        shrink_runs: used,
        original_tape_len: tape0.len(),
        from_seed: false,
    };
    std::fs::write(&path, serde_json::to_string_pretty(&rf).unwrap()).map_err(|e| e.to_string())?;
    // Verify: replay twice, same class and fingerprint.
    for _ in 0..2 {
        let (v2, fp2, _) = replay_file(scn.clone(), &path)?;
        match v2 {
            Some(v2) if v2.class() == fv.class() && fp2 == fin.fingerprint => {}
            other => return Err(format!("replay of {} diverged: {:?} fp {} vs {}", path, other.map(|v| v.class()), fp2, fin.fingerprint)),
        }
    }
    Ok(path)
}

pub fn load_replay(path: &str) -> Result<ReplayFile, String> {
    let s = std::fs::read_to_string(path).map_err(|e| format!("{}: {}", path, e))?;
    serde_json::from_str(&s).map_err(|e| format!("{}: {}", path, e))
}

pub fn replay_file(scn: Arc<dyn Scenario>, path: &str) -> Result<(Option<Violation>, u64, Vec<String>), String> {
    let rf = load_replay(path)?;
    let vals: Vec<u64> = rf.tape.iter().map(|d| d.v).collect();
    let out = run_one(scn, rf.tier, rf.env_seed, if rf.from_seed { TapeInput::Gen(rf.env_seed) } else { TapeInput::Replay(vals) }, true);
    if let Some(e) = out.harness_error {
        return Err(e);
    }
    Ok((out.violation, out.fingerprint, out.log))
}

// ---------------------------------------------------------------- evidence

pub struct CheckSpec {
    pub property: &'static str,
    pub level: &'static str,
    pub scenarios: Vec<(Arc<dyn Scenario>, u64, u64)>, // (scenario, quick runs, thorough runs)
}

static WORKERS: OnceLock<usize> = OnceLock::new();

pub fn workers() -> usize {
    *WORKERS.get_or_init(|| {
        std::env::var("VERIF_WORKERS")
            .ok()
            .and_then(|s| s.parse().ok())
            .unwrap_or_else(|| std::thread::available_parallelism().map(|n| n.get()).unwrap_or(4))
    })
}

/// Run a property check. Returns the process exit code.
pub fn run_check(spec: &CheckSpec, tier: Tier, seed: u64, verif_dir: &str) -> i32 {
    let t0 = real_now_ns();
    let mut total = BatchResult::default();
    let mut per_scn = Vec::new();
    let mut violation_line = None;
    let mut harness_errors = Vec::new();
    let mut comps_real: Vec<&str> = Vec::new();
    let mut comps_stub: Vec<&str> = Vec::new();
    let mut rules = Vec::new();
    let mut assumptions: Vec<&str> = Vec::new();
    let scale: f64 = std::env::var("VERIF_SCALE").ok().and_then(|s| s.parse().ok()).unwrap_or(1.0);
    for (scn, q, t) in &spec.scenarios {
        let runs = ((if tier == Tier::Quick { *q } else { *t }) as f64 * scale).max(1.0) as u64;
        let r = run_batch(scn.clone(), tier, seed, runs, workers(), None);
        let (cr, cs) = scn.components();
        for c in cr {
            if !comps_real.contains(&c) {
                comps_real.push(c)
            }
        }
        for c in cs {
            if !comps_stub.contains(&c) {
                comps_stub.push(c)
            }
        }
        rules.push(format!("[{}] {}", scn.name(), scn.rule()));
        for a in scn.assumptions() {
            if !assumptions.contains(&a) {
                assumptions.push(a)
            }
        }
        per_scn.push(serde_json::json!({
            "scenario": scn.name(),
            "runs": r.runs,
            "wall_s": r.wall_s,
            "runs_per_hour": if r.wall_s > 0.0 { (r.runs as f64 / r.wall_s * 3600.0) as u64 } else { 0 },
            "events": r.events,
            "simulated_time_s": r.vtime_ns as f64 / 1e9,
            "distinct_fingerprints": r.fingerprints.len(),
            "distinct_nontrivial": r.nontrivial_fps.len(),
        }));
        harness_errors.extend(r.harness_errors.iter().cloned());
        if let Some((i, v)) = &r.first_violation {
            let rs = run_seed(seed, scn.name(), *i);
            match report_violation(scn.clone(), tier, *i, rs, v, &format!("{}/replays", verif_dir)) {
                Ok(path) => {
                    if violation_line.is_none() {
                        violation_line = Some((v.clone(), path));
                    }
                }
                Err(e) => harness_errors.push(format!("could not persist violation {}: {}", v.class(), e)),
            }
        }
        total.runs += r.runs;
        total.events += r.events;
        total.vtime_ns += r.vtime_ns;
        for (k, v) in r.stats {
            *total.stats.entry(k).or_insert(0) += v;
        }
        // Fingerprints of different scenarios never collide meaningfully.
        total.fingerprints.extend(r.fingerprints);
        total.nontrivial_fps.extend(r.nontrivial_fps);
        for (k, (v, n)) in r.known {
            let e = total.known.entry(k).or_insert((v, 0));
            e.1 += n;
        }
        total.samples.extend(r.samples);
        if violation_line.is_some() {
            break;
        }
    }
    let wall_s = (real_now_ns() - t0) as f64 / 1e9;
    let faults: BTreeMap<&String, &u64> = total.stats.iter().filter(|(k, _)| k.starts_with("fault.")).collect();
    let probes: BTreeMap<&String, &u64> = total.stats.iter().filter(|(k, _)| k.starts_with("probe.")).collect();
    let other: BTreeMap<&String, &u64> = total.stats.iter().filter(|(k, _)| !k.starts_with("probe.") && !k.starts_with("fault.")).collect();
    let known_list: Vec<serde_json::Value> = total
        .known
        .iter()
        .map(|(k, (v, n))| serde_json::json!({"class": k, "occurrences": n, "example": v.detail}))
        .collect();
    let fp = foreign_panics();
    let evidence = serde_json::json!({
        "property_id": spec.property,
        "tier": tier,
        "seed": seed,
        "level": spec.level,
        "coverage": {
            "evaluations": total.runs,
            "distinct_nontrivial": total.nontrivial_fps.len(),
            "rule": format!("one evaluation = one simulated run (a pure function of run seed = splitmix(VERIF_SEED, scenario, index)); distinct = distinct event-log fingerprints (FNV-1a over every logged event: scheduling decisions, deliveries, faults, API results); non-trivial = additionally at least one injected fault fired or one rare-condition probe was hit in that run. {}", rules.join(" ")),
            "samples": total.samples,
            "distinct_fingerprints": total.fingerprints.len(),
            "runs_per_hour": if wall_s > 0.0 { (total.runs as f64 / wall_s * 3600.0) as u64 } else { 0 },
            "simulated_time_s": total.vtime_ns as f64 / 1e9,
            "events": total.events,
            "faults_fired": faults,
            "probes_hit": probes,
            "counters": other,
            "per_scenario": per_scn,
            "components_real": comps_real,
            "components_stub": comps_stub,
            "known_findings_seen": known_list,
            "panics_on_unowned_threads": fp.iter().map(|p| format!("{}: {}", p.location, p.message)).collect::<Vec<_>>(),
            "workers": workers(),
        },
        "assumptions": assumptions,
        "wall_s": wall_s,
        "violations": if violation_line.is_some() { 1 } else { 0 },
    });
    let ev_dir = format!("{}/evidence", verif_dir);
    let _ = std::fs::create_dir_all(&ev_dir);
    let ev_path = format!("{}/{}.json", ev_dir, spec.property);
    if let Err(e) = std::fs::write(&ev_path, serde_json::to_string_pretty(&evidence).unwrap()) {
        eprintln!("cannot write {}: {}", ev_path, e);
        return 2;
    }
    println!(
        "{} {:?}: {} runs, {} events, {:.1} simulated s, {} distinct interleavings ({} non-trivial), {:.1}s wall",
        spec.property,
        tier,
        total.runs,
        total.events,
        total.vtime_ns as f64 / 1e9,
        total.fingerprints.len(),
        total.nontrivial_fps.len(),
        wall_s
    );
    for (k, v) in &total.stats {
        if tier == Tier::Thorough && (k.starts_with("probe.") || k.starts_with("fault.")) && *v == 0 {
            println!("WARNING: {} stuck at zero", k);
        }
    }
    // One line per listed finding (a finding may cover several concrete
    // classes through its `*`).
    let mut by_finding: BTreeMap<String, (u64, Vec<String>, String)> = BTreeMap::new();
    for (k, (v, n)) in &total.known {
        let pat = super::findings::matching_pattern(k).unwrap_or_else(|| k.clone());
        let e = by_finding.entry(pat).or_insert((0, Vec::new(), v.detail.replace('\n', " ")));
        e.0 += n;
        e.1.push(k.clone());
    }
    for (pat, (n, classes, example)) in &by_finding {
        let ex: String = example.chars().take(400).collect();
        println!("KNOWN-FINDING: property={} {} (seen in {} runs as {} concrete class(es); e.g. {})", spec.property, pat, n, classes.len(), ex);
    }
    // A listed (open) finding of this property that no run of this batch
    // reached is reported all the same: one line per listed finding.
    for (pat, description) in super::findings::open_for(spec.property) {
        if !by_finding.contains_key(&pat) {
            let d: String = description.chars().take(300).collect();
            println!("KNOWN-FINDING: property={} {} (listed; not reached by the {} runs of this batch; {})", spec.property, pat, total.runs, d);
        }
    }
    if let Some((v, path)) = violation_line {
        println!("violation class: {}", v.class());
        println!("detail: {}", v.detail);
        println!("VIOLATION property={} replay={}", spec.property, path);
        return 1;
    }
    if !harness_errors.is_empty() {
        for e in harness_errors.iter().take(5) {
            eprintln!("HARNESS ERROR: {}", e);
        }
        return 2;
    }
    0
}
