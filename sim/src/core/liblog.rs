//! Debugging aid: with `DSIM_LIBLOG=1` the library's `tracing` events are
//! printed to stderr (a minimal subscriber; nothing is installed otherwise,
//! so normal runs are unaffected and the event log never depends on it).

use std::fmt::Write as _;
use tracing::field::{Field, Visit};
use tracing::span::{Attributes, Id, Record};
use tracing::{Event, Metadata, Subscriber};

struct Printer;

struct V(String);

impl Visit for V {
    fn record_debug(&mut self, field: &Field, value: &dyn std::fmt::Debug) {
        if field.name() == "message" {
            let _ = write!(self.0, "{:?} ", value);
        } else {
            let _ = write!(self.0, "{}={:?} ", field.name(), value);
        }
    }
}

impl Subscriber for Printer {
    fn enabled(&self, _: &Metadata<'_>) -> bool {
        true
    }
    fn new_span(&self, _: &Attributes<'_>) -> Id {
        Id::from_u64(1)
    }
    fn record(&self, _: &Id, _: &Record<'_>) {}
    fn record_follows_from(&self, _: &Id, _: &Id) {}
    fn event(&self, event: &Event<'_>) {
        let mut v = V(String::new());
        event.record(&mut v);
        eprintln!("  [lib {} {}] {}", event.metadata().level(), event.metadata().target(), v.0);
    }
    fn enter(&self, _: &Id) {}
    fn exit(&self, _: &Id) {}
}

pub fn install_if_asked() {
    if std::env::var("DSIM_LIBLOG").is_ok() {
        let _ = tracing::subscriber::set_global_default(Printer);
    }
}
