//! `SimExec`: a seeded scheduler for scenario-level tasks.
//!
//! It is one future (awaited from the `block_on` root). It owns a slab of
//! tasks; each turn it collects the woken ones, draws one from the tape,
//! polls it, and yields back to tokio so that library-spawned tasks run in
//! between. Library tasks are tokio's (FIFO, deterministic).

use super::sim;
use crate::ev;
use std::cell::RefCell;
use std::future::Future;
use std::pin::Pin;
use std::rc::Rc;
use std::sync::atomic::{AtomicBool, Ordering};
use std::sync::{Arc, Mutex};
use std::task::{Context, Poll, Wake, Waker};

type LocalFut = Pin<Box<dyn Future<Output = ()>>>;

struct TaskWaker {
    woken: AtomicBool,
    root: Arc<Mutex<Option<Waker>>>,
}

impl Wake for TaskWaker {
    fn wake(self: Arc<Self>) {
        self.wake_by_ref()
    }
    fn wake_by_ref(self: &Arc<Self>) {
        self.woken.store(true, Ordering::SeqCst);
        let w = self.root.lock().unwrap().clone();
        if let Some(w) = w {
            w.wake();
        }
    }
}

struct Task {
    name: String,
    fut: Option<LocalFut>,
    waker: Arc<TaskWaker>,
    done: bool,
}

struct Inner {
    tasks: Vec<Task>,
    root: Arc<Mutex<Option<Waker>>>,
    polls: u64,
}

#[derive(Clone)]
pub struct Exec {
    inner: Rc<RefCell<Inner>>,
}

pub struct JoinHandle<T> {
    pub id: usize,
    rx: tokio::sync::oneshot::Receiver<T>,
}

impl<T> JoinHandle<T> {
    pub fn id(&self) -> usize {
        self.id
    }
    /// `None` if the task was cancelled (dropped) before completing.
    pub async fn join(self) -> Option<T> {
        self.rx.await.ok()
    }
}

impl Default for Exec {
    fn default() -> Self {
        Self::new()
    }
}

thread_local! {
    /// Every executor created on this (run) thread: tasks that hold a clone
    /// of their executor (peers that accept connections and spawn handlers)
    /// and never finish would keep it - and everything they own - alive for
    /// ever. The runner drops all task futures when the run is over.
    static ALL: RefCell<Vec<std::rc::Weak<RefCell<Inner>>>> = const { RefCell::new(Vec::new()) };
}

/// Drop the futures of all tasks of all executors of this thread.
pub fn shutdown_all() {
    let execs: Vec<std::rc::Weak<RefCell<Inner>>> = ALL.with(|a| std::mem::take(&mut *a.borrow_mut()));
    for w in execs {
        if let Some(inner) = w.upgrade() {
            // Take the futures out first: dropping one may touch the executor.
            let futs: Vec<LocalFut> = {
                let mut g = inner.borrow_mut();
                g.tasks.iter_mut().filter_map(|t| {
                    t.done = true;
                    t.fut.take()
                }).collect()
            };
            drop(futs);
        }
    }
}

impl Exec {
    pub fn new() -> Self {
        let e = Exec {
            inner: Rc::new(RefCell::new(Inner {
                tasks: Vec::new(),
                root: Arc::new(Mutex::new(None)),
                polls: 0,
            })),
        };
        ALL.with(|a| a.borrow_mut().push(Rc::downgrade(&e.inner)));
        e
    }

    pub fn spawn<T: 'static>(&self, name: impl Into<String>, fut: impl Future<Output = T> + 'static) -> JoinHandle<T> {
        let (tx, rx) = tokio::sync::oneshot::channel();
        let wrapped: LocalFut = Box::pin(async move {
            let v = fut.await;
            let _ = tx.send(v);
        });
        let mut inner = self.inner.borrow_mut();
        let waker = Arc::new(TaskWaker {
            woken: AtomicBool::new(true),
            root: inner.root.clone(),
        });
        let id = inner.tasks.len();
        inner.tasks.push(Task {
            name: name.into(),
            fut: Some(wrapped),
            waker,
            done: false,
        });
        let w = inner.root.lock().unwrap().clone();
        if let Some(w) = w {
            w.wake();
        }
        JoinHandle { id, rx }
    }

    /// Cancel a task: its future is dropped at its current await point.
    pub fn cancel(&self, id: usize) {
        let fut = {
            let mut inner = self.inner.borrow_mut();
            let t = &mut inner.tasks[id];
            t.done = true;
            t.fut.take()
        };
        drop(fut);
    }

    pub fn polls(&self) -> u64 {
        self.inner.borrow().polls
    }

    /// Run until every task has finished (or the run was stopped).
    pub fn run(&self) -> Run {
        Run { exec: self.clone() }
    }
}

pub struct Run {
    exec: Exec,
}

impl Future for Run {
    type Output = ();
    fn poll(self: Pin<&mut Self>, cx: &mut Context<'_>) -> Poll<()> {
        sim::sync_clock();
        if sim::stopped() {
            return Poll::Ready(());
        }
        let (ready, all_done) = {
            let inner = self.exec.inner.borrow();
            *inner.root.lock().unwrap() = Some(cx.waker().clone());
            let ready: Vec<usize> = inner
                .tasks
                .iter()
                .enumerate()
                .filter(|(_, t)| !t.done && t.fut.is_some() && t.waker.woken.load(Ordering::SeqCst))
                .map(|(i, _)| i)
                .collect();
            let all_done = inner.tasks.iter().all(|t| t.done);
            (ready, all_done)
        };
        if ready.is_empty() {
            return if all_done { Poll::Ready(()) } else { Poll::Pending };
        }
        let k = if ready.len() > 1 {
            sim::draw("sched", ready.len() as u64) as usize
        } else {
            0
        };
        let idx = ready[k];
        let (mut fut, waker) = {
            let mut inner = self.exec.inner.borrow_mut();
            inner.polls += 1;
            let t = &mut inner.tasks[idx];
            t.waker.woken.store(false, Ordering::SeqCst);
            (t.fut.take().unwrap(), Waker::from(t.waker.clone()))
        };
        let mut tcx = Context::from_waker(&waker);
        let res = fut.as_mut().poll(&mut tcx);
        {
            let mut inner = self.exec.inner.borrow_mut();
            let t = &mut inner.tasks[idx];
            match res {
                Poll::Ready(()) => {
                    t.done = true;
                }
                Poll::Pending => {
                    if !t.done {
                        t.fut = Some(fut);
                    }
                }
            }
            if ready.len() > 1 {
                let name = t.name.clone();
                drop(inner);
                ev!("sched {}/{} -> {}", k, ready.len(), name);
            }
        }
        // Let tokio run library-spawned tasks, then come back.
        cx.waker().wake_by_ref();
        Poll::Pending
    }
}

/// Sim-level yield point: gives the scheduler a chance to run another task.
pub fn step() -> Step {
    Step { yielded: false }
}

pub struct Step {
    yielded: bool,
}

impl Future for Step {
    type Output = ();
    fn poll(mut self: Pin<&mut Self>, cx: &mut Context<'_>) -> Poll<()> {
        if self.yielded {
            Poll::Ready(())
        } else {
            self.yielded = true;
            cx.waker().wake_by_ref();
            Poll::Pending
        }
    }
}
