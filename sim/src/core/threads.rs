//! Real OS threads under a deterministic scheduler.
//!
//! The code under test takes its locks through `domain::zonetree::verif_hooks`
//! (a cfg-guarded hook in /repo): every acquisition attempt first calls the
//! hook. For a managed worker thread the hook parks the thread and hands
//! control to the scheduler, which runs on the simulation's own thread, draws
//! from the choice tape which worker proceeds, and releases exactly that one.
//! So exactly one managed thread runs at any time, control changes hands only
//! at lock acquisitions, and one tape is one exactly repeatable interleaving
//! of real threads.
//!
//! All shared mutable state of the zone tree sits behind these locks, so
//! interleaving at acquisitions covers every behaviour real schedules can
//! produce (critical sections are atomic anyway). parking_lot's task-fair
//! policy is modelled: while a writer (or an upgrade) waits for a lock, new
//! readers of that lock are refused, also recursive ones. A state in which
//! every live worker has failed its attempt since the last progress is a
//! deadlock.

use crate::core::sim;
use domain::zonetree::verif_hooks::{self, LockOp};
use std::cell::RefCell;
use std::collections::{BTreeMap, BTreeSet};
use std::sync::{Arc, Condvar, Mutex};

#[derive(Clone, Debug, PartialEq)]
enum Status {
    /// Parked in the hook (or at its start), waiting for a turn.
    Parked,
    Running,
    Done,
}

#[derive(Clone, Copy, Debug)]
struct Site {
    lock: usize,
    op: Option<LockOp>, // None: the start of the thread
    failed: u32,
}

struct St {
    turn: Option<usize>,
    status: Vec<Status>,
    site: Vec<Site>,
    /// The scheduler's answer to the parked worker: may it try?
    grant: Vec<bool>,
}

struct Shared {
    m: Mutex<St>,
    cv: Condvar,
}

thread_local! {
    static WORKER: RefCell<Option<(Arc<Shared>, usize)>> = const { RefCell::new(None) };
    /// Where the process-wide panic hook puts panics of a managed worker.
    pub static WORKER_PANICS: RefCell<Option<Arc<Mutex<Vec<(String, String)>>>>> = const { RefCell::new(None) };
}

/// The process-wide lock hook.
fn lock_hook(lock: usize, op: LockOp, failed: u32) -> bool {
    let me = WORKER.with(|w| w.borrow().clone());
    let (shared, idx) = match me {
        Some(x) => x,
        // Not a managed thread (zone construction on the simulation thread,
        // other scenarios' threads): never contended in those uses.
        None => {
            if failed > 0 {
                std::thread::yield_now();
            }
            return true;
        }
    };
    park(&shared, idx, Site { lock, op: Some(op), failed })
}

/// Hand control to the scheduler and wait for the next turn.
fn park(shared: &Arc<Shared>, idx: usize, site: Site) -> bool {
    let mut g = shared.m.lock().unwrap();
    g.status[idx] = Status::Parked;
    g.site[idx] = site;
    g.turn = None;
    shared.cv.notify_all();
    while g.turn != Some(idx) {
        g = shared.cv.wait(g).unwrap();
    }
    g.status[idx] = Status::Running;
    g.grant[idx]
}

/// For worker code that waits for something other than a zone tree lock
/// (the async writer mutex): give the turn back; `failed` > 0 tells the
/// scheduler that this worker made no progress.
pub fn yield_blocked(tag: usize, failed: u32) {
    let me = WORKER.with(|w| w.borrow().clone());
    if let Some((shared, idx)) = me {
        park(&shared, idx, Site { lock: tag, op: None, failed });
    } else {
        std::thread::yield_now();
    }
}

pub fn install_hook() {
    verif_hooks::set_hook(Some(lock_hook));
}

/// What happened in one threaded execution.
pub struct Outcome {
    pub deadlock: Option<String>,
    pub panics: Vec<(String, String)>,
    pub switches: u64,
    pub steps: u64,
}

/// Run the given bodies as managed threads until all are done, interleaved
/// by the choice tape. Must be called on the simulation thread.
pub fn run_threads(names: Vec<String>, bodies: Vec<Box<dyn FnOnce() + Send + 'static>>) -> Outcome {
    install_hook();
    let n = bodies.len();
    let shared = Arc::new(Shared {
        m: Mutex::new(St {
            turn: None,
            status: vec![Status::Running; n],
            site: vec![Site { lock: 0, op: None, failed: 0 }; n],
            grant: vec![true; n],
        }),
        cv: Condvar::new(),
    });
    let panics: Arc<Mutex<Vec<(String, String)>>> = Arc::new(Mutex::new(Vec::new()));
    let mut handles = Vec::new();
    // Randomness inside the workers (hash map keys of nodes they create) is
    // a function of the run's seed and the worker's index.
    let base_rng = crate::core::sim::ENV_RNG.with(|c| c.get());
    // Start the workers one after the other; each parks at its start.
    for (i, body) in bodies.into_iter().enumerate() {
        let sh = shared.clone();
        let pn = panics.clone();
        let rng = base_rng.map(|s| {
            let k = (i as u64 + 1).wrapping_mul(0x9E37_79B9_7F4A_7C15);
            [s[0] ^ k, s[1].rotate_left(i as u32 + 1) | 1, s[2] ^ k.rotate_left(17), s[3].wrapping_add(k), 0]
        });
        {
            let mut g = shared.m.lock().unwrap();
            g.turn = Some(usize::MAX); // nobody's turn while the thread starts
        }
        let h = std::thread::Builder::new()
            .name(format!("dsim-worker-{}", names[i]))
            .spawn(move || {
                WORKER.with(|w| *w.borrow_mut() = Some((sh.clone(), i)));
                WORKER_PANICS.with(|w| *w.borrow_mut() = Some(pn));
                crate::core::sim::ENV_RNG.with(|c| c.set(rng));
                park(&sh, i, Site { lock: 0, op: None, failed: 0 });
                let r = std::panic::catch_unwind(std::panic::AssertUnwindSafe(body));
                let _ = r;
                let mut g = sh.m.lock().unwrap();
                g.status[i] = Status::Done;
                g.turn = None;
                sh.cv.notify_all();
            })
            .expect("spawn worker");
        handles.push(h);
        let mut g = shared.m.lock().unwrap();
        while g.turn.is_some() {
            g = shared.cv.wait(g).unwrap();
        }
    }
    // The scheduling loop.
    let mut lock_ids: BTreeMap<usize, usize> = BTreeMap::new();
    let mut failed_since_progress: BTreeSet<usize> = BTreeSet::new();
    let mut last: Option<usize> = None;
    let mut switches = 0u64;
    let mut steps = 0u64;
    let mut deadlock = None;
    loop {
        let (live, sites): (Vec<usize>, Vec<Site>) = {
            let g = shared.m.lock().unwrap();
            ((0..n).filter(|i| g.status[*i] == Status::Parked).collect(), g.site.clone())
        };
        if live.is_empty() {
            break;
        }
        if failed_since_progress.len() >= live.len() && live.iter().all(|i| failed_since_progress.contains(i)) {
            let desc: Vec<String> = live.iter().map(|i| format!("{} waits for {:?} of lock#{}", names[*i], sites[*i].op, lock_ids.get(&sites[*i].lock).copied().unwrap_or(0))).collect();
            deadlock = Some(desc.join("; "));
            break;
        }
        // Prefer workers that have not failed since the last progress (a
        // retry cannot succeed before something changed).
        let fresh: Vec<usize> = live.iter().copied().filter(|i| !failed_since_progress.contains(i)).collect();
        let pool = if fresh.is_empty() { live.clone() } else { fresh };
        let pick = pool[sim::draw("thr.pick", pool.len() as u64) as usize];
        let site = sites[pick];
        let next_id = lock_ids.len() + 1;
        let lock_no = if site.op.is_some() { *lock_ids.entry(site.lock).or_insert(next_id) } else { 0 };
        // Fairness: a reader does not get past a waiting writer.
        let writer_waits = live.iter().any(|j| {
            *j != pick && sites[*j].lock == site.lock && sites[*j].failed > 0 && matches!(sites[*j].op, Some(LockOp::Write) | Some(LockOp::Upgrade))
        });
        let grant = !(writer_waits && matches!(site.op, Some(LockOp::Read) | Some(LockOp::UpgradableRead)));
        if last != Some(pick) {
            switches += 1;
        }
        last = Some(pick);
        steps += 1;
        ev!("thr {} -> {:?} lock#{}{}{}", names[pick], site.op, lock_no, if site.failed > 0 { format!(" (retry {})", site.failed) } else { String::new() }, if grant { "" } else { " refused: a writer waits" });
        {
            let mut g = shared.m.lock().unwrap();
            g.grant[pick] = grant;
            g.status[pick] = Status::Running;
            g.turn = Some(pick);
            shared.cv.notify_all();
            while g.turn.is_some() {
                g = shared.cv.wait(g).unwrap();
            }
            // Did it get anywhere? A first failure at a new wait means the
            // worker ran up to that wait (and may have released something);
            // only a repeated failure of the same wait is a standstill.
            let progressed = g.status[pick] == Status::Done || g.site[pick].failed <= 1;
            if progressed {
                failed_since_progress.clear();
            }
            if g.status[pick] != Status::Done && g.site[pick].failed > 0 {
                failed_since_progress.insert(pick);
            }
        }
        if steps > 2_000_000 {
            deadlock = Some("no end after 2,000,000 scheduling steps".to_string());
            break;
        }
    }
    if deadlock.is_some() {
        // The workers stay parked for ever; leak them (the process ends
        // with the batch, and the replay runs in a fresh process).
        std::mem::forget(handles);
    } else {
        for h in handles {
            let _ = h.join();
        }
    }
    let panics = panics.lock().unwrap().clone();
    Outcome { deadlock, panics, switches, steps }
}
