//! Small deterministic PRNGs (no dependency on OS randomness).

#[inline]
pub fn splitmix64(state: &mut u64) -> u64 {
    *state = state.wrapping_add(0x9E37_79B9_7F4A_7C15);
    let mut z = *state;
    z = (z ^ (z >> 30)).wrapping_mul(0xBF58_476D_1CE4_E5B9);
    z = (z ^ (z >> 27)).wrapping_mul(0x94D0_49BB_1331_11EB);
    z ^ (z >> 31)
}

/// One-shot mixing of a value (stateless splitmix64 step).
#[inline]
pub fn mix(v: u64) -> u64 {
    let mut s = v;
    splitmix64(&mut s)
}

/// xoshiro256** generator.
#[derive(Clone, Debug)]
pub struct Rng {
    s: [u64; 4],
}

impl Rng {
    pub fn new(seed: u64) -> Self {
        let mut sm = seed;
        let s = [
            splitmix64(&mut sm),
            splitmix64(&mut sm),
            splitmix64(&mut sm),
            splitmix64(&mut sm),
        ];
        Rng { s }
    }

    #[inline]
    pub fn next_u64(&mut self) -> u64 {
        let result = self.s[1].wrapping_mul(5).rotate_left(7).wrapping_mul(9);
        let t = self.s[1] << 17;
        self.s[2] ^= self.s[0];
        self.s[3] ^= self.s[1];
        self.s[1] ^= self.s[2];
        self.s[0] ^= self.s[3];
        self.s[2] ^= t;
        self.s[3] = self.s[3].rotate_left(45);
        result
    }

    /// Uniform in `[0, n)`; `n == 0` yields 0.
    #[inline]
    pub fn below(&mut self, n: u64) -> u64 {
        if n <= 1 {
            return 0;
        }
        // Multiply-shift; bias is irrelevant for our purposes.
        ((self.next_u64() as u128 * n as u128) >> 64) as u64
    }

    pub fn fill(&mut self, buf: &mut [u8]) {
        for chunk in buf.chunks_mut(8) {
            let v = self.next_u64().to_le_bytes();
            chunk.copy_from_slice(&v[..chunk.len()]);
        }
    }
}

/// FNV-1a 64 running fingerprint.
#[derive(Clone, Copy, Debug)]
pub struct Fnv(pub u64);

impl Default for Fnv {
    fn default() -> Self {
        Fnv(0xcbf2_9ce4_8422_2325)
    }
}

impl Fnv {
    #[inline]
    pub fn write(&mut self, bytes: &[u8]) {
        let mut h = self.0;
        for b in bytes {
            h ^= *b as u64;
            h = h.wrapping_mul(0x0000_0100_0000_01B3);
        }
        self.0 = h;
    }
    #[inline]
    pub fn write_u64(&mut self, v: u64) {
        self.write(&v.to_le_bytes());
    }
}
