//! libc-boundary seams: `clock_gettime` and `getrandom` are defined here and
//! therefore override libc's for everything statically linked into this
//! binary (std, tokio, rand via getrandom, moka, domain). Virtualisation is
//! per thread: only threads running a simulation see virtual values; all
//! other threads fall through to the raw system calls.

use super::sim::{CLOCK_ACTIVE, ENV_RNG, EPOCH_BASE, LAST_NS, VNOW_NS, WALL_OFF_NS};
use libc::{c_int, c_uint, c_void, clockid_t, size_t, ssize_t, timespec};

/// Real monotonic time in nanoseconds, bypassing the interposed symbol.
pub fn real_now_ns() -> u64 {
    let mut ts = timespec { tv_sec: 0, tv_nsec: 0 };
    unsafe {
        libc::syscall(libc::SYS_clock_gettime, libc::CLOCK_MONOTONIC, &mut ts as *mut timespec);
    }
    ts.tv_sec as u64 * 1_000_000_000 + ts.tv_nsec as u64
}

/// Reading the clock costs 1 µs of virtual time (see DESIGN §3.3).
const READ_COST_NS: u64 = 1_000;

#[no_mangle]
pub unsafe extern "C" fn clock_gettime(clk: clockid_t, ts: *mut timespec) -> c_int {
    let active = CLOCK_ACTIVE.try_with(|c| c.get()).unwrap_or(false);
    if !active {
        return libc::syscall(libc::SYS_clock_gettime, clk, ts) as c_int;
    }
    match clk {
        libc::CLOCK_REALTIME | libc::CLOCK_REALTIME_COARSE | libc::CLOCK_MONOTONIC | libc::CLOCK_MONOTONIC_RAW
        | libc::CLOCK_MONOTONIC_COARSE | libc::CLOCK_BOOTTIME => {}
        _ => return libc::syscall(libc::SYS_clock_gettime, clk, ts) as c_int,
    }
    let vnow = VNOW_NS.with(|c| c.get());
    let last = LAST_NS.with(|c| c.get());
    let mono = vnow.max(last) + READ_COST_NS;
    LAST_NS.with(|c| c.set(mono));
    let ns: i128 = match clk {
        libc::CLOCK_REALTIME | libc::CLOCK_REALTIME_COARSE => {
            EPOCH_BASE as i128 * 1_000_000_000 + mono as i128 + WALL_OFF_NS.with(|c| c.get()) as i128
        }
        // Monotonic clocks start at one hour so that `Instant - Duration`
        // arithmetic in libraries has headroom.
        _ => 3_600_000_000_000i128 + mono as i128,
    };
    let ns = ns.max(0);
    (*ts).tv_sec = (ns / 1_000_000_000) as libc::time_t;
    (*ts).tv_nsec = (ns % 1_000_000_000) as libc::c_long;
    0
}

#[no_mangle]
pub unsafe extern "C" fn getrandom(buf: *mut c_void, buflen: size_t, flags: c_uint) -> ssize_t {
    let st = ENV_RNG.try_with(|c| c.get()).ok().flatten();
    match st {
        None => libc::syscall(libc::SYS_getrandom, buf, buflen, flags) as ssize_t,
        Some(mut s) => {
            let out = std::slice::from_raw_parts_mut(buf as *mut u8, buflen);
            for chunk in out.chunks_mut(8) {
                // xoshiro256**
                let result = s[1].wrapping_mul(5).rotate_left(7).wrapping_mul(9);
                let t = s[1] << 17;
                s[2] ^= s[0];
                s[3] ^= s[1];
                s[1] ^= s[2];
                s[0] ^= s[3];
                s[2] ^= t;
                s[3] = s[3].rotate_left(45);
                let v = result.to_le_bytes();
                chunk.copy_from_slice(&v[..chunk.len()]);
            }
            s[4] = s[4].wrapping_add(buflen as u64);
            let _ = ENV_RNG.try_with(|c| c.set(Some(s)));
            buflen as ssize_t
        }
    }
}
