pub mod exec;
pub mod findings;
pub mod interpose;
pub mod net;
pub mod prng;
pub mod runner;
#[macro_use]
pub mod sim;
pub mod threads;
pub mod liblog;
