//! `SimNet`: in-memory stream pipes and datagram sockets implementing the
//! library's own transport traits. No real socket is ever opened.
//!
//! Faults decided *by the network* (segmentation, stalls, cuts, datagram
//! drop/dup/delay) are drawn from the run's tape at the I/O call where they
//! apply; faults decided *by a simulated peer* are the peer's business.

use super::sim;
use crate::ev;
use std::collections::{BTreeMap, VecDeque};
use std::future::Future;
use std::io;
use std::net::SocketAddr;
use std::pin::Pin;
use std::sync::{Arc, Mutex};
use std::task::{Context, Poll, Waker};
use std::time::Duration;
use tokio::io::{AsyncRead, AsyncWrite, ReadBuf};

pub fn addr(host: u8, port: u16) -> SocketAddr {
    SocketAddr::from(([10, 0, 0, host], port))
}

// ------------------------------------------------------------ stream pipes

#[derive(Clone, Copy, Debug, PartialEq, Eq)]
pub enum Cut {
    Fin,
    Rst,
}

#[derive(Clone, Copy, Debug)]
pub struct PipeCfg {
    /// One-way latency in virtual milliseconds.
    pub latency_ms: u64,
    /// Reads/writes complete with tape-chosen sizes (down to one octet).
    pub segment: bool,
    /// I/O calls may return `Pending` once after waking themselves.
    pub stall: bool,
    /// Maximum octets buffered in one direction before writes block.
    pub window: usize,
    /// Reads now and then fail with `ErrorKind::Interrupted` (EINTR) before
    /// any data was consumed: a transient error a reader is expected to
    /// retry.
    pub eintr: bool,
    /// A write that follows a short write now and then fails with
    /// `ErrorKind::Interrupted` (nothing taken): part of the data is out,
    /// the rest is not.
    pub eintr_w: bool,
}

impl Default for PipeCfg {
    fn default() -> Self {
        PipeCfg {
            latency_ms: 0,
            segment: false,
            stall: false,
            window: 1 << 20,
            eintr: false,
            eintr_w: false,
        }
    }
}

enum Item {
    Data(Vec<u8>),
    End(Cut),
}

struct Half {
    inflight: VecDeque<(u64, Item)>,
    last_arrival_ns: u64,
    buf: VecDeque<u8>,
    written: u64,
    read: u64,
    /// The network cuts this direction when `written` reaches the offset.
    cut_at: Option<(u64, Cut)>,
    /// The last write took fewer octets than it was given.
    last_write_short: bool,
    /// A write on this direction failed with EINTR (injected).
    write_interrupted: bool,
    /// Set once the writer side may not write any more.
    write_dead: Option<Cut>,
    /// What the reader sees once `buf` is drained.
    end: Option<Cut>,
    reader_gone: bool,
    read_waker: Option<Waker>,
    write_waker: Option<Waker>,
}

impl Half {
    fn new() -> Self {
        Half {
            inflight: VecDeque::new(),
            last_arrival_ns: 0,
            buf: VecDeque::new(),
            written: 0,
            read: 0,
            cut_at: None,
            last_write_short: false,
            write_interrupted: false,
            write_dead: None,
            end: None,
            reader_gone: false,
            read_waker: None,
            write_waker: None,
        }
    }

    fn pending_bytes(&self) -> usize {
        self.buf.len()
            + self
                .inflight
                .iter()
                .map(|(_, i)| match i {
                    Item::Data(d) => d.len(),
                    Item::End(_) => 0,
                })
                .sum::<usize>()
    }

    /// Move everything that has arrived by `now` into the read buffer.
    fn pump(&mut self, now_ns: u64) -> bool {
        let mut moved = false;
        while let Some((at, _)) = self.inflight.front() {
            if *at > now_ns {
                break;
            }
            let (_, item) = self.inflight.pop_front().unwrap();
            match item {
                Item::Data(d) => self.buf.extend(d),
                Item::End(c) => {
                    if self.end.is_none() {
                        self.end = Some(c)
                    }
                }
            }
            moved = true;
        }
        moved
    }
}

type SharedHalf = Arc<Mutex<Half>>;

fn schedule_pump(half: &SharedHalf, delay_ns: u64) {
    let h = half.clone();
    tokio::spawn(async move {
        tokio::time::sleep(Duration::from_nanos(delay_ns)).await;
        let w = {
            let mut g = h.lock().unwrap();
            let now = sim::now_ns();
            g.pump(now);
            g.read_waker.take()
        };
        if let Some(w) = w {
            w.wake()
        }
    });
}

fn push_item(half: &SharedHalf, item: Item, latency_ms: u64) {
    let now = sim::now_ns();
    let mut g = half.lock().unwrap();
    let mut at = now + latency_ms * 1_000_000;
    if at < g.last_arrival_ns {
        at = g.last_arrival_ns;
    }
    g.last_arrival_ns = at;
    g.inflight.push_back((at, item));
    if at <= now {
        g.pump(now);
        let w = g.read_waker.take();
        drop(g);
        if let Some(w) = w {
            w.wake()
        }
    } else {
        drop(g);
        schedule_pump(half, at - now);
    }
}

/// One endpoint of a simulated byte stream.
pub struct SimStream {
    name: String,
    rd: SharedHalf,
    wr: SharedHalf,
    cfg: PipeCfg,
}

/// Handle that lets a scenario inject network faults into a connection.
#[derive(Clone)]
pub struct LinkCtl {
    a_to_b: SharedHalf,
    b_to_a: SharedHalf,
}

impl LinkCtl {
    /// Cut direction a→b once `offset` octets have been written.
    pub fn cut_a_to_b(&self, offset: u64, kind: Cut) {
        self.a_to_b.lock().unwrap().cut_at = Some((offset, kind));
    }
    pub fn cut_b_to_a(&self, offset: u64, kind: Cut) {
        self.b_to_a.lock().unwrap().cut_at = Some((offset, kind));
    }
    pub fn written_a_to_b(&self) -> u64 {
        self.a_to_b.lock().unwrap().written
    }
    pub fn written_b_to_a(&self) -> u64 {
        self.b_to_a.lock().unwrap().written
    }
    /// Did a write of the b side fail with an injected EINTR?
    pub fn b_write_interrupted(&self) -> bool {
        self.b_to_a.lock().unwrap().write_interrupted
    }
    /// The b side vanishes without a word (crash, route lost): nothing more
    /// arrives from it, not even the end of the stream, and whatever a
    /// writes from now on is answered with a reset (the write fails).
    pub fn vanish_b(&self) {
        let w = {
            let mut g = self.a_to_b.lock().unwrap();
            g.write_dead = Some(Cut::Rst);
            g.write_waker.take()
        };
        if let Some(w) = w {
            w.wake()
        }
        let mut g = self.b_to_a.lock().unwrap();
        g.write_dead = Some(Cut::Fin);
        g.inflight.clear();
    }
    /// Kill both directions now (RST as seen by both readers).
    pub fn reset_now(&self) {
        for h in [&self.a_to_b, &self.b_to_a] {
            let w = {
                let mut g = h.lock().unwrap();
                g.write_dead = Some(Cut::Rst);
                g.inflight.clear();
                g.buf.clear();
                g.end = Some(Cut::Rst);
                (g.read_waker.take(), g.write_waker.take())
            };
            if let Some(w) = w.0 {
                w.wake()
            }
            if let Some(w) = w.1 {
                w.wake()
            }
        }
    }
}

pub fn stream_pair(name_a: &str, name_b: &str, cfg_a: PipeCfg, cfg_b: PipeCfg) -> (SimStream, SimStream, LinkCtl) {
    let ab = Arc::new(Mutex::new(Half::new()));
    let ba = Arc::new(Mutex::new(Half::new()));
    let a = SimStream {
        name: name_a.to_string(),
        rd: ba.clone(),
        wr: ab.clone(),
        cfg: cfg_a,
    };
    let b = SimStream {
        name: name_b.to_string(),
        rd: ab.clone(),
        wr: ba.clone(),
        cfg: cfg_b,
    };
    (a, b, LinkCtl { a_to_b: ab, b_to_a: ba })
}

impl SimStream {
    pub fn name(&self) -> &str {
        &self.name
    }
}

impl Drop for SimStream {
    fn drop(&mut self) {
        // Graceful close of our write side; our read side goes away.
        let dead = self.wr.lock().unwrap().write_dead.is_some();
        if !dead {
            self.wr.lock().unwrap().write_dead = Some(Cut::Fin);
            push_item_nospawn(&self.wr, Item::End(Cut::Fin), self.cfg.latency_ms);
        }
        let w = {
            let mut g = self.rd.lock().unwrap();
            g.reader_gone = true;
            g.write_waker.take()
        };
        if let Some(w) = w {
            w.wake()
        }
    }
}

/// Like `push_item` but usable outside a runtime context (in `Drop` during
/// runtime shutdown `tokio::spawn` would panic).
fn push_item_nospawn(half: &SharedHalf, item: Item, latency_ms: u64) {
    if tokio::runtime::Handle::try_current().is_ok() && sim::active() {
        push_item(half, item, latency_ms);
    } else {
        let mut g = half.lock().unwrap();
        g.inflight.push_back((0, item));
        g.pump(u64::MAX);
    }
}

impl AsyncRead for SimStream {
    fn poll_read(self: Pin<&mut Self>, cx: &mut Context<'_>, out: &mut ReadBuf<'_>) -> Poll<io::Result<()>> {
        let this = self.get_mut();
        if this.cfg.stall && sim::chance("net.stall.r", 1, 6) {
            sim::stat("fault.stream_stall");
            cx.waker().wake_by_ref();
            return Poll::Pending;
        }
        if this.cfg.eintr && sim::chance("net.eintr.r", 1, 12) {
            sim::stat("fault.stream_read_interrupted");
            return Poll::Ready(Err(io::Error::new(io::ErrorKind::Interrupted, "simulated EINTR")));
        }
        let now = sim::now_ns();
        let mut g = this.rd.lock().unwrap();
        g.pump(now);
        if !g.buf.is_empty() {
            let avail = g.buf.len().min(out.remaining());
            if avail == 0 {
                return Poll::Ready(Ok(()));
            }
            let n = if this.cfg.segment && avail > 1 {
                let cut = sim::draw("net.seg.r", avail as u64) as usize;
                if cut > 0 {
                    sim::stat("fault.stream_short_read");
                }
                avail - cut
            } else {
                avail
            };
            for _ in 0..n {
                let b = g.buf.pop_front().unwrap();
                out.put_slice(&[b]);
            }
            g.read += n as u64;
            let w = g.write_waker.take();
            drop(g);
            if let Some(w) = w {
                w.wake()
            }
            return Poll::Ready(Ok(()));
        }
        match g.end {
            Some(Cut::Fin) => {
                drop(g);
                ev!("net {} read EOF", this.name);
                Poll::Ready(Ok(()))
            }
            Some(Cut::Rst) => {
                drop(g);
                ev!("net {} read RST", this.name);
                Poll::Ready(Err(io::Error::new(io::ErrorKind::ConnectionReset, "simulated reset")))
            }
            None => {
                g.read_waker = Some(cx.waker().clone());
                Poll::Pending
            }
        }
    }
}

impl AsyncWrite for SimStream {
    fn poll_write(self: Pin<&mut Self>, cx: &mut Context<'_>, data: &[u8]) -> Poll<io::Result<usize>> {
        let this = self.get_mut();
        if data.is_empty() {
            return Poll::Ready(Ok(0));
        }
        if this.cfg.stall && sim::chance("net.stall.w", 1, 6) {
            sim::stat("fault.stream_stall");
            cx.waker().wake_by_ref();
            return Poll::Pending;
        }
        let mut g = this.wr.lock().unwrap();
        match g.write_dead {
            Some(Cut::Rst) => {
                return Poll::Ready(Err(io::Error::new(io::ErrorKind::BrokenPipe, "simulated reset")));
            }
            Some(Cut::Fin) => {
                // Network ate the rest of this direction; sender cannot tell.
                return Poll::Ready(Ok(data.len()));
            }
            None => {}
        }
        if g.reader_gone {
            return Poll::Ready(Err(io::Error::new(io::ErrorKind::BrokenPipe, "peer closed")));
        }
        if this.cfg.eintr_w && g.last_write_short && !g.write_interrupted && sim::chance("net.eintr.w", 1, 4) {
            g.write_interrupted = true;
            g.last_write_short = false;
            drop(g);
            sim::stat("fault.stream_write_interrupted_after_a_short_write");
            ev!("net {} write interrupted (EINTR) behind a short write", this.name);
            return Poll::Ready(Err(io::Error::new(io::ErrorKind::Interrupted, "simulated EINTR")));
        }
        let pending = g.pending_bytes();
        if pending >= this.cfg.window {
            g.write_waker = Some(cx.waker().clone());
            sim::stat("probe.stream_backpressure");
            return Poll::Pending;
        }
        let mut n = data.len().min(this.cfg.window - pending);
        if this.cfg.segment && n > 1 {
            let cut = sim::draw("net.seg.w", n as u64) as usize;
            if cut > 0 {
                sim::stat("fault.stream_short_write");
            }
            n -= cut;
        }
        let mut cut_now = None;
        if let Some((off, kind)) = g.cut_at {
            let room = off.saturating_sub(g.written) as usize;
            if n >= room {
                n = room;
                cut_now = Some(kind);
            }
        }
        g.written += n as u64;
        g.last_write_short = n < data.len();
        let lat = this.cfg.latency_ms;
        if let Some(kind) = cut_now {
            g.write_dead = Some(kind);
        }
        drop(g);
        if n > 0 {
            push_item(&this.wr, Item::Data(data[..n].to_vec()), lat);
        }
        if let Some(kind) = cut_now {
            sim::stat(match kind {
                Cut::Fin => "fault.stream_fin",
                Cut::Rst => "fault.stream_rst",
            });
            ev!("net {} direction cut ({:?}) after {} octets", this.name, kind, this.wr.lock().unwrap().written);
            push_item(&this.wr, Item::End(kind), lat);
            if kind == Cut::Rst {
                // A reset kills the other direction as well.
                let w = {
                    let mut r = this.rd.lock().unwrap();
                    r.write_dead = Some(Cut::Rst);
                    r.end = Some(Cut::Rst);
                    r.buf.clear();
                    r.inflight.clear();
                    (r.read_waker.take(), r.write_waker.take())
                };
                if let Some(w) = w.0 {
                    w.wake()
                }
                if let Some(w) = w.1 {
                    w.wake()
                }
            }
            if n == 0 {
                return match kind {
                    Cut::Rst => Poll::Ready(Err(io::Error::new(io::ErrorKind::BrokenPipe, "simulated reset"))),
                    Cut::Fin => Poll::Ready(Ok(data.len())),
                };
            }
        }
        Poll::Ready(Ok(n))
    }

    fn poll_flush(self: Pin<&mut Self>, _cx: &mut Context<'_>) -> Poll<io::Result<()>> {
        Poll::Ready(Ok(()))
    }

    fn poll_shutdown(self: Pin<&mut Self>, _cx: &mut Context<'_>) -> Poll<io::Result<()>> {
        let this = self.get_mut();
        let dead = this.wr.lock().unwrap().write_dead.is_some();
        if !dead {
            this.wr.lock().unwrap().write_dead = Some(Cut::Fin);
            push_item_nospawn(&this.wr, Item::End(Cut::Fin), this.cfg.latency_ms);
        }
        Poll::Ready(Ok(()))
    }
}

// -------------------------------------------------- connectors / listeners

/// What happens to one connection attempt.
#[derive(Clone, Copy, Debug)]
pub struct ConnectPlan {
    pub delay_ms: u64,
    pub refuse: bool,
    /// The connection is accepted, but its set-up on the server side (what
    /// a TLS handshake would be) fails: the accept future resolves to `Err`.
    pub fail_setup: bool,
    /// The peer is gone again before the server accepts: `poll_accept`
    /// itself reports an error (ECONNABORTED) for this attempt.
    pub accept_error: bool,
    /// The server-side set-up (the accept future) takes this long in virtual
    /// time before it succeeds or fails (a slow or hanging handshake).
    pub setup_delay_ms: u64,
    pub client_cfg: PipeCfg,
    pub server_cfg: PipeCfg,
}

impl Default for ConnectPlan {
    fn default() -> Self {
        ConnectPlan {
            delay_ms: 0,
            refuse: false,
            fail_setup: false,
            accept_error: false,
            setup_delay_ms: 0,
            client_cfg: PipeCfg::default(),
            server_cfg: PipeCfg::default(),
        }
    }
}

pub struct Accepted {
    pub stream: SimStream,
    pub ctl: LinkCtl,
    pub peer: SocketAddr,
    pub index: usize,
    pub fail_setup: bool,
    pub accept_error: bool,
    pub setup_delay_ms: u64,
}

struct ListenerInner {
    queue: VecDeque<Accepted>,
    waker: Option<Waker>,
    attempts: usize,
    closed: bool,
}

/// A simulated listening socket. Scenario stubs use `accept().await`; the
/// real `StreamServer` uses the `AsyncAccept` impl in the scenario module.
#[derive(Clone)]
pub struct SimListener {
    inner: Arc<Mutex<ListenerInner>>,
    pub name: String,
}

type Planner = Arc<dyn Fn(usize) -> ConnectPlan + Send + Sync>;

/// The connecting side of a [`SimListener`]; implements `AsyncConnect`.
#[derive(Clone)]
pub struct SimConnector {
    listener: SimListener,
    planner: Planner,
    client_addr: SocketAddr,
}

pub fn listener(name: &str) -> SimListener {
    SimListener {
        inner: Arc::new(Mutex::new(ListenerInner {
            queue: VecDeque::new(),
            waker: None,
            attempts: 0,
            closed: false,
        })),
        name: name.to_string(),
    }
}

impl SimListener {
    pub fn connector(&self, client_addr: SocketAddr, planner: Planner) -> SimConnector {
        SimConnector {
            listener: self.clone(),
            planner,
            client_addr,
        }
    }

    pub fn attempts(&self) -> usize {
        self.inner.lock().unwrap().attempts
    }

    pub fn close(&self) {
        let w = {
            let mut g = self.inner.lock().unwrap();
            g.closed = true;
            g.waker.take()
        };
        if let Some(w) = w {
            w.wake()
        }
    }

    pub fn poll_accept_sim(&self, cx: &mut Context<'_>) -> Poll<Option<Accepted>> {
        let mut g = self.inner.lock().unwrap();
        if let Some(a) = g.queue.pop_front() {
            return Poll::Ready(Some(a));
        }
        if g.closed {
            return Poll::Ready(None);
        }
        g.waker = Some(cx.waker().clone());
        Poll::Pending
    }

    pub async fn accept(&self) -> Option<Accepted> {
        std::future::poll_fn(|cx| self.poll_accept_sim(cx)).await
    }
}

impl SimConnector {
    pub async fn connect_sim(&self) -> io::Result<SimStream> {
        self.connect_sim_ctl().await.map(|(s, _)| s)
    }

    /// Connect and also return the link's fault-injection handle.
    pub async fn connect_sim_ctl(&self) -> io::Result<(SimStream, LinkCtl)> {
        let index = {
            let mut g = self.listener.inner.lock().unwrap();
            g.attempts += 1;
            g.attempts - 1
        };
        let plan = (self.planner)(index);
        ev!("net connect #{} to {} delay={}ms refuse={}", index, self.listener.name, plan.delay_ms, plan.refuse);
        if plan.delay_ms > 0 {
            tokio::time::sleep(Duration::from_millis(plan.delay_ms)).await;
            sim::sync_clock();
        }
        if plan.refuse {
            sim::stat("fault.connect_refused");
            return Err(io::Error::new(io::ErrorKind::ConnectionRefused, "simulated refusal"));
        }
        let (c, s, ctl) = stream_pair(
            &format!("{}.c{}", self.listener.name, index),
            &format!("{}.s{}", self.listener.name, index),
            plan.client_cfg,
            plan.server_cfg,
        );
        let ctl2 = ctl.clone();
        let w = {
            let mut g = self.listener.inner.lock().unwrap();
            g.queue.push_back(Accepted {
                stream: s,
                ctl,
                peer: self.client_addr,
                index,
                fail_setup: plan.fail_setup,
                accept_error: plan.accept_error,
                setup_delay_ms: plan.setup_delay_ms,
            });
            g.waker.take()
        };
        if let Some(w) = w {
            w.wake()
        }
        Ok((c, ctl2))
    }
}

impl domain::net::client::protocol::AsyncConnect for SimConnector {
    type Connection = SimStream;
    type Fut = Pin<Box<dyn Future<Output = io::Result<SimStream>> + Send + Sync>>;
    fn connect(&self) -> Self::Fut {
        let this = self.clone();
        Box::pin(SyncFut(Box::pin(async move { this.connect_sim().await })))
    }
}

/// Wrapper asserting `Sync` for a boxed future that is only ever polled
/// through `Pin<&mut _>` (exclusive access), which makes `Sync` vacuous.
struct SyncFut<T>(Pin<Box<dyn Future<Output = T> + Send>>);
unsafe impl<T> Sync for SyncFut<T> {}
impl<T> Future for SyncFut<T> {
    type Output = T;
    fn poll(mut self: Pin<&mut Self>, cx: &mut Context<'_>) -> Poll<T> {
        self.0.as_mut().poll(cx)
    }
}

// --------------------------------------------------------------- datagrams

#[derive(Clone, Copy, Debug, Default)]
pub struct DgramFaults {
    /// Per-mille probabilities applied to datagrams sent through `send_net`.
    pub drop_pm: u64,
    pub dup_pm: u64,
    pub delay_pm: u64,
    pub max_delay_ms: u64,
    pub latency_ms: u64,
}

struct Inbox {
    q: VecDeque<(Vec<u8>, SocketAddr)>,
    wakers: Vec<Waker>,
}

struct UdpInner {
    inboxes: BTreeMap<SocketAddr, Inbox>,
    next_port: u16,
}

/// A simulated datagram network: a map from address to inbox.
#[derive(Clone)]
pub struct UdpNet {
    inner: Arc<Mutex<UdpInner>>,
}

impl Default for UdpNet {
    fn default() -> Self {
        Self::new()
    }
}

impl UdpNet {
    pub fn new() -> Self {
        UdpNet {
            inner: Arc::new(Mutex::new(UdpInner { inboxes: BTreeMap::new(), next_port: 10_000 })),
        }
    }

    pub fn bind(&self, local: SocketAddr) -> DgSock {
        self.inner.lock().unwrap().inboxes.insert(
            local,
            Inbox {
                q: VecDeque::new(),
                wakers: Vec::new(),
            },
        );
        DgSock {
            net: self.clone(),
            local,
            peer: None,
            faults: DgramFaults::default(),
            send_error_next: Arc::new(Mutex::new(0)),
            spurious: Arc::new(Mutex::new((false, false))),
            send_stall: Arc::new(Mutex::new(SendStall::default())),
        }
    }

    fn deliver_now(&self, to: SocketAddr, from: SocketAddr, data: Vec<u8>) {
        let wakers = {
            let mut g = self.inner.lock().unwrap();
            match g.inboxes.get_mut(&to) {
                Some(ib) => {
                    ib.q.push_back((data, from));
                    std::mem::take(&mut ib.wakers)
                }
                None => Vec::new(), // nobody listens: datagram vanishes
            }
        };
        for w in wakers {
            w.wake()
        }
    }

    /// Deliver after `delay_ms` of virtual time (0 = immediately).
    pub fn deliver(&self, to: SocketAddr, from: SocketAddr, data: Vec<u8>, delay_ms: u64) {
        if delay_ms == 0 {
            self.deliver_now(to, from, data);
        } else {
            let net = self.clone();
            tokio::spawn(async move {
                tokio::time::sleep(Duration::from_millis(delay_ms)).await;
                sim::sync_clock();
                net.deliver_now(to, from, data);
            });
        }
    }

    /// A fresh ephemeral port, unique within this network.
    pub fn alloc_port(&self) -> u16 {
        let mut g = self.inner.lock().unwrap();
        let p = g.next_port;
        g.next_port = if p >= 60_000 { 10_000 } else { p + 1 };
        p
    }

    pub fn unbind(&self, local: SocketAddr) {
        self.inner.lock().unwrap().inboxes.remove(&local);
    }
}

/// A simulated datagram socket (connected if `peer` is set).
#[derive(Clone)]
pub struct DgSock {
    net: UdpNet,
    pub local: SocketAddr,
    pub peer: Option<SocketAddr>,
    pub faults: DgramFaults,
    send_error_next: Arc<Mutex<u32>>,
    /// (enabled, the next try_recv reports WouldBlock): false-positive
    /// readiness, which the `AsyncDgramSock` contract allows.
    spurious: Arc<Mutex<(bool, bool)>>,
    /// Server-side send back-pressure: with `send_stall.0` per mille a
    /// `poll_send_to` first stays pending for one of the given durations.
    send_stall: Arc<Mutex<SendStall>>,
}

/// Back-pressure on the server's datagram socket.
#[derive(Default)]
pub struct SendStall {
    pub per_mille: u64,
    pub durations_ms: Vec<u64>,
    /// Sends in progress: (destination, message id) -> ready at (virtual ns).
    in_progress: BTreeMap<(SocketAddr, u16), u64>,
    /// Every stalled send: (destination, message id, stalled for ms).
    pub log: Vec<(SocketAddr, u16, u64)>,
}

impl DgSock {
    /// Make some sends through the server-side socket trait stall.
    pub fn stall_sends(&self, per_mille: u64, durations_ms: Vec<u64>) {
        let mut g = self.send_stall.lock().unwrap();
        g.per_mille = per_mille;
        g.durations_ms = durations_ms;
    }
    pub fn stalled_sends(&self) -> Vec<(SocketAddr, u16, u64)> {
        self.send_stall.lock().unwrap().log.clone()
    }
    /// Let `readable()` report readiness falsely now and then.
    pub fn spurious_readiness(&self, on: bool) {
        self.spurious.lock().unwrap().0 = on;
    }

    pub fn connected(mut self, peer: SocketAddr) -> Self {
        self.peer = Some(peer);
        self
    }
    pub fn with_faults(mut self, f: DgramFaults) -> Self {
        self.faults = f;
        self
    }
    /// Make the next `n` sends fail with an I/O error.
    pub fn fail_next_sends(&self, n: u32) {
        *self.send_error_next.lock().unwrap() = n;
    }

    /// Send subject to the network's fault model.
    pub fn send_net(&self, dest: SocketAddr, data: &[u8]) -> io::Result<usize> {
        {
            let mut e = self.send_error_next.lock().unwrap();
            if *e > 0 {
                *e -= 1;
                sim::stat("fault.dgram_send_error");
                return Err(io::Error::new(io::ErrorKind::Other, "simulated send error"));
            }
        }
        let f = self.faults;
        if f.drop_pm > 0 && sim::chance("net.dg.drop", f.drop_pm, 1000) {
            sim::stat("fault.dgram_drop");
            ev!("net dgram {}->{} DROPPED len={}", self.local, dest, data.len());
            return Ok(data.len());
        }
        let mut delay = f.latency_ms;
        if f.delay_pm > 0 && sim::chance("net.dg.delay", f.delay_pm, 1000) {
            sim::stat("fault.dgram_delay");
            delay += sim::range("net.dg.delay_ms", 1, f.max_delay_ms.max(1));
        }
        self.net.deliver(dest, self.local, data.to_vec(), delay);
        if f.dup_pm > 0 && sim::chance("net.dg.dup", f.dup_pm, 1000) {
            sim::stat("fault.dgram_dup");
            let d2 = delay + sim::range("net.dg.dup_ms", 0, f.max_delay_ms.max(1));
            self.net.deliver(dest, self.local, data.to_vec(), d2);
        }
        Ok(data.len())
    }

    /// Stub-side send: exact, no network faults.
    pub fn send_exact(&self, dest: SocketAddr, data: Vec<u8>, delay_ms: u64) {
        self.net.deliver(dest, self.local, data, delay_ms);
    }

    pub fn poll_recv_from(&self, cx: &mut Context<'_>) -> Poll<(Vec<u8>, SocketAddr)> {
        let mut g = self.net.inner.lock().unwrap();
        let ib = match g.inboxes.get_mut(&self.local) {
            Some(ib) => ib,
            None => return Poll::Pending,
        };
        loop {
            match ib.q.pop_front() {
                Some((d, from)) => {
                    if let Some(p) = self.peer {
                        if p != from {
                            continue; // connected socket filters other senders
                        }
                    }
                    return Poll::Ready((d, from));
                }
                None => {
                    ib.wakers.push(cx.waker().clone());
                    return Poll::Pending;
                }
            }
        }
    }

    pub fn try_recv_from(&self) -> Option<(Vec<u8>, SocketAddr)> {
        let mut g = self.net.inner.lock().unwrap();
        let ib = g.inboxes.get_mut(&self.local)?;
        ib.q.pop_front()
    }

    pub fn poll_readable(&self, cx: &mut Context<'_>) -> Poll<()> {
        let mut g = self.net.inner.lock().unwrap();
        match g.inboxes.get_mut(&self.local) {
            Some(ib) => {
                if ib.q.is_empty() {
                    ib.wakers.push(cx.waker().clone());
                    Poll::Pending
                } else {
                    Poll::Ready(())
                }
            }
            None => Poll::Pending,
        }
    }

    pub async fn recv_from(&self) -> (Vec<u8>, SocketAddr) {
        std::future::poll_fn(|cx| self.poll_recv_from(cx)).await
    }

    pub fn close(&self) {
        self.net.unbind(self.local);
    }
}

impl domain::net::client::protocol::AsyncDgramRecv for DgSock {
    fn poll_recv(&self, cx: &mut Context<'_>, buf: &mut ReadBuf<'_>) -> Poll<io::Result<()>> {
        match self.poll_recv_from(cx) {
            Poll::Pending => Poll::Pending,
            Poll::Ready((d, _)) => {
                let n = d.len().min(buf.remaining());
                buf.put_slice(&d[..n]);
                Poll::Ready(Ok(()))
            }
        }
    }
}

impl domain::net::client::protocol::AsyncDgramSend for DgSock {
    fn poll_send(&self, _cx: &mut Context<'_>, buf: &[u8]) -> Poll<io::Result<usize>> {
        let dest = self.peer.expect("connected socket");
        Poll::Ready(self.send_net(dest, buf))
    }
}

impl domain::net::server::sock::AsyncDgramSock for DgSock {
    fn poll_send_to(&self, cx: &mut Context<'_>, data: &[u8], dest: &SocketAddr) -> Poll<io::Result<usize>> {
        let id = if data.len() >= 2 { u16::from_be_bytes([data[0], data[1]]) } else { 0 };
        let key = (*dest, id);
        let mut g = self.send_stall.lock().unwrap();
        sim::sync_clock();
        let now = sim::now_ns();
        if let Some(until) = g.in_progress.get(&key).copied() {
            if now < until {
                let w = cx.waker().clone();
                let ms = (until - now).div_ceil(1_000_000);
                tokio::spawn(async move {
                    tokio::time::sleep(Duration::from_millis(ms)).await;
                    w.wake();
                });
                return Poll::Pending;
            }
            g.in_progress.remove(&key);
        } else if g.per_mille > 0 && !g.durations_ms.is_empty() && sim::chance("net.dg.send_stall", g.per_mille, 1000) {
            let i = sim::draw("net.dg.send_stall_ms", g.durations_ms.len() as u64) as usize;
            let ms = g.durations_ms[i];
            sim::stat("fault.dgram_send_backpressure");
            ev!("net dgram send to {} id={} stalls for {} ms", dest, id, ms);
            g.in_progress.insert(key, now + ms * 1_000_000);
            g.log.push((*dest, id, ms));
            let w = cx.waker().clone();
            tokio::spawn(async move {
                tokio::time::sleep(Duration::from_millis(ms)).await;
                w.wake();
            });
            return Poll::Pending;
        }
        drop(g);
        Poll::Ready(self.send_net(*dest, data))
    }

    fn readable(&self) -> Pin<Box<dyn Future<Output = io::Result<()>> + '_ + Send>> {
        Box::pin(async move {
            std::future::poll_fn(|cx| self.poll_readable(cx)).await;
            let on = self.spurious.lock().unwrap().0;
            if on && sim::chance("net.spurious_ready", 1, 6) {
                sim::stat("fault.dgram_spurious_readiness");
                self.spurious.lock().unwrap().1 = true;
            }
            Ok(())
        })
    }

    fn try_recv_buf_from(&self, buf: &mut ReadBuf<'_>) -> io::Result<(usize, SocketAddr)> {
        if std::mem::take(&mut self.spurious.lock().unwrap().1) {
            return Err(io::Error::new(io::ErrorKind::WouldBlock, "false-positive readiness"));
        }
        match self.try_recv_from() {
            Some((d, from)) => {
                let n = d.len().min(buf.remaining());
                buf.put_slice(&d[..n]);
                Ok((n, from))
            }
            None => Err(io::Error::new(io::ErrorKind::WouldBlock, "no datagram")),
        }
    }
}

// ------------------------------------------------ client datagram connector

/// A connected client datagram socket that unbinds itself when dropped.
pub struct ClientDgSock(pub DgSock, pub ClientDgFaults);

/// Faults of one client socket: the next receive fails (as after an ICMP
/// "port unreachable"), the next send takes fewer octets than it was given.
#[derive(Default)]
pub struct ClientDgFaults {
    pub recv_error: std::sync::atomic::AtomicBool,
    pub short_send: std::sync::atomic::AtomicBool,
}

impl Drop for ClientDgSock {
    fn drop(&mut self) {
        self.0.close();
    }
}

impl domain::net::client::protocol::AsyncDgramRecv for ClientDgSock {
    fn poll_recv(&self, cx: &mut Context<'_>, buf: &mut ReadBuf<'_>) -> Poll<io::Result<()>> {
        if self.1.recv_error.swap(false, std::sync::atomic::Ordering::SeqCst) {
            sim::stat("fault.dgram_recv_error");
            ev!("net dgram {} recv() fails (connection refused)", self.0.local);
            return Poll::Ready(Err(io::Error::new(io::ErrorKind::ConnectionRefused, "simulated ECONNREFUSED")));
        }
        domain::net::client::protocol::AsyncDgramRecv::poll_recv(&self.0, cx, buf)
    }
}

impl domain::net::client::protocol::AsyncDgramSend for ClientDgSock {
    fn poll_send(&self, cx: &mut Context<'_>, buf: &[u8]) -> Poll<io::Result<usize>> {
        if buf.len() > 1 && self.1.short_send.swap(false, std::sync::atomic::Ordering::SeqCst) {
            sim::stat("fault.dgram_short_send");
            ev!("net dgram {} send() takes {} of {} octets", self.0.local, buf.len() - 1, buf.len());
            return Poll::Ready(Ok(buf.len() - 1));
        }
        domain::net::client::protocol::AsyncDgramSend::poll_send(&self.0, cx, buf)
    }
}

/// What happens to one datagram "connect" (socket creation).
#[derive(Clone, Copy, Debug, Default)]
pub struct DgConnectPlan {
    pub fail_connect: bool,
    pub fail_sends: u32,
    pub recv_error: bool,
    pub short_send: bool,
}

type DgPlanner = Arc<dyn Fn(usize) -> DgConnectPlan + Send + Sync>;

/// `AsyncConnect` for datagrams: every connect binds a fresh local port.
#[derive(Clone)]
pub struct SimDgConnector {
    net: UdpNet,
    host: u8,
    server: SocketAddr,
    next: Arc<Mutex<usize>>,
    planner: DgPlanner,
    faults: DgramFaults,
}

impl std::fmt::Debug for SimDgConnector {
    fn fmt(&self, f: &mut std::fmt::Formatter<'_>) -> std::fmt::Result {
        write!(f, "SimDgConnector({})", self.server)
    }
}

impl SimDgConnector {
    pub fn new(net: &UdpNet, host: u8, server: SocketAddr, faults: DgramFaults, planner: DgPlanner) -> Self {
        SimDgConnector {
            net: net.clone(),
            host,
            server,
            next: Arc::new(Mutex::new(0)),
            planner,
            faults,
        }
    }
    pub fn attempts(&self) -> usize {
        *self.next.lock().unwrap()
    }
}

impl domain::net::client::protocol::AsyncConnect for SimDgConnector {
    type Connection = ClientDgSock;
    type Fut = Pin<Box<dyn Future<Output = io::Result<ClientDgSock>> + Send + Sync>>;
    fn connect(&self) -> Self::Fut {
        let idx = {
            let mut g = self.next.lock().unwrap();
            *g += 1;
            *g - 1
        };
        let plan = (self.planner)(idx);
        let res = if plan.fail_connect {
            sim::stat("fault.dgram_connect_error");
            Err(io::Error::new(io::ErrorKind::Other, "simulated bind failure"))
        } else {
            let port = self.net.alloc_port();
            let s = self.net.bind(addr(self.host, port)).connected(self.server).with_faults(self.faults);
            if plan.fail_sends > 0 {
                s.fail_next_sends(plan.fail_sends);
            }
            let f = ClientDgFaults::default();
            f.recv_error.store(plan.recv_error, std::sync::atomic::Ordering::SeqCst);
            f.short_send.store(plan.short_send, std::sync::atomic::Ordering::SeqCst);
            Ok(ClientDgSock(s, f))
        };
        Box::pin(std::future::ready(res))
    }
}

impl domain::net::server::sock::AsyncAccept for SimListener {
    type Error = io::Error;
    type StreamType = SimStream;
    type Future = Pin<Box<dyn Future<Output = Result<SimStream, io::Error>> + Send>>;

    fn poll_accept(&self, cx: &mut Context<'_>) -> Poll<io::Result<(Self::Future, SocketAddr)>> {
        match self.poll_accept_sim(cx) {
            Poll::Pending => Poll::Pending,
            Poll::Ready(Some(a)) if a.accept_error => {
                ev!("net {} accept() fails for connection #{} from {} (aborted by the peer)", self.name, a.index, a.peer);
                sim::stat("fault.accept_error");
                Poll::Ready(Err(io::Error::new(io::ErrorKind::ConnectionAborted, "simulated ECONNABORTED")))
            }
            Poll::Ready(Some(a)) => {
                ev!("net {} accepted connection #{} from {}{}{}", self.name, a.index, a.peer, if a.fail_setup { " (set-up fails)" } else { "" }, if a.setup_delay_ms > 0 { format!(" (set-up takes {} ms)", a.setup_delay_ms) } else { String::new() });
                let (fail, delay, stream) = (a.fail_setup, a.setup_delay_ms, a.stream);
                if fail {
                    sim::stat("fault.connection_setup_failed");
                }
                if delay > 0 {
                    sim::stat("fault.connection_setup_slow");
                }
                let fut = async move {
                    if delay > 0 {
                        tokio::time::sleep(std::time::Duration::from_millis(delay)).await;
                    }
                    if fail {
                        Err(io::Error::new(io::ErrorKind::InvalidData, "simulated handshake failure"))
                    } else {
                        Ok(stream)
                    }
                };
                Poll::Ready(Ok((Box::pin(fut) as Self::Future, a.peer)))
            }
            // A closed listener never yields again.
            Poll::Ready(None) => Poll::Pending,
        }
    }
}
