//! Known findings: genuine defects recorded rather than repaired. Loaded
//! once from `/verif/known_findings.json`; never written at run time.

use super::sim::Violation;
use serde::Deserialize;
use std::sync::OnceLock;

#[derive(Deserialize, Clone, Debug)]
pub struct Finding {
    pub property: String,
    /// Violation class (property/oracle/signature); a listed finding covers
    /// exactly the violations whose class equals this string. One `*` may
    /// stand for a variable part (e.g. the before/after answer kinds of one
    /// root cause); everything around it must match literally.
    pub class: String,
    /// "open" findings are reported as KNOWN-FINDING; "fixed" ones suppress
    /// nothing.
    pub status: String,
    #[serde(default)]
    pub description: String,
}

#[derive(Deserialize, Default)]
struct File {
    #[serde(default)]
    findings: Vec<Finding>,
}

static FINDINGS: OnceLock<Vec<Finding>> = OnceLock::new();

pub fn load(path: &str) {
    let list = match std::fs::read_to_string(path) {
        Ok(s) => serde_json::from_str::<File>(&s)
            .unwrap_or_else(|e| {
                eprintln!("HARNESS ERROR: cannot parse {}: {}", path, e);
                std::process::exit(2)
            })
            .findings,
        Err(_) => Vec::new(),
    };
    let _ = FINDINGS.set(list);
}

pub fn is_known(v: &Violation) -> bool {
    let class = v.class();
    FINDINGS
        .get()
        .map(|l| l.iter().any(|f| f.status == "open" && class_matches(&f.class, &class)))
        .unwrap_or(false)
}

/// The listed finding (its class pattern) that covers `class`, if any.
pub fn matching_pattern(class: &str) -> Option<String> {
    FINDINGS.get().and_then(|l| l.iter().find(|f| f.status == "open" && class_matches(&f.class, class)).map(|f| f.class.clone()))
}

fn class_matches(pattern: &str, class: &str) -> bool {
    match pattern.split_once('*') {
        None => pattern == class,
        Some((pre, post)) => class.len() >= pre.len() + post.len() && class.starts_with(pre) && class.ends_with(post),
    }
}

/// The open findings listed for `property`: (class pattern, description).
pub fn open_for(property: &str) -> Vec<(String, String)> {
    FINDINGS.get().map(|l| l.iter().filter(|f| f.status == "open" && f.property == property).map(|f| (f.class.clone(), f.description.clone())).collect()).unwrap_or_default()
}
