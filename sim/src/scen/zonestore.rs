//! The `zonestore` simulation: real `zonetree::Zone` (in-memory store) under
//! seeded interleavings of readers and writers (C09), and under update
//! histories compared with a directly built zone and an RFC 1034 reference
//! lookup (C08, in `zone_ref.rs`).

use crate::core::exec::{step, Exec};
use crate::core::runner::{Scenario, Tier};
use crate::core::sim;
use crate::dns;
use bytes::Bytes;
use domain::base::iana::Class;
use domain::base::name::Label;
use domain::base::{Message, MessageBuilder, Name, Rtype, Ttl};
use domain::rdata::ZoneRecordData;
use domain::zonefile::inplace::{Entry, Zonefile};
use domain::zonetree::types::ZoneUpdate;
use domain::zonetree::update::ZoneUpdater;
use domain::zonetree::{parsed, ReadableZone, Rrset, SharedRrset, StoredName, StoredRecord, WritableZone, WritableZoneNode, Zone};
use std::cell::RefCell;
use std::collections::{BTreeMap, BTreeSet};
use std::future::Future;
use std::pin::Pin;
use std::rc::Rc;
use std::sync::{Arc, Mutex};
use std::time::Duration;

pub const APEX: &str = "example.";

/// Zone content model: (owner lower-case with trailing dot, rtype) ->
/// (ttl, set of rdata in presentation format).
pub type Content = BTreeMap<(String, Rtype), (u32, BTreeSet<String>)>;

pub fn stored_name(s: &str) -> StoredName {
    Name::<Bytes>::from_chars(s.chars()).unwrap_or_else(|e| panic!("bad name {:?}: {}", s, e))
}

pub fn owner_str(n: &impl std::fmt::Display) -> String {
    let s = format!("{}", n).to_ascii_lowercase();
    if s.ends_with('.') {
        s
    } else {
        format!("{}.", s)
    }
}

/// Parse one record in presentation format.
pub fn parse_record(line: &str) -> StoredRecord {
    let mut zf = Zonefile::new();
    zf.extend_from_slice(line.as_bytes());
    zf.extend_from_slice(b"\n");
    zf.set_origin(stored_name(APEX));
    match zf.next_entry() {
        Ok(Some(Entry::Record(r))) => {
            use domain::base::name::FlattenInto;
            r.flatten_into()
        }
        other => panic!("cannot parse record {:?}: {:?}", line, other.map(|_| ())),
    }
}

pub fn rdata_str(d: &ZoneRecordData<Bytes, StoredName>) -> String {
    format!("{}", d)
}

/// A record as the generator describes it.
#[derive(Clone, Debug, PartialEq, Eq, PartialOrd, Ord)]
pub struct RecSpec {
    pub owner: String,
    pub rtype: Rtype,
    pub ttl: u32,
    pub rdata: String,
}

impl RecSpec {
    pub fn line(&self) -> String {
        format!("{} {} {} {} {}", self.owner, self.ttl, zone_class(), self.rtype, self.rdata)
    }
    pub fn record(&self) -> StoredRecord {
        parse_record(&self.line())
    }
}

thread_local! {
    /// The class of the zones of this run (IN unless a scenario says otherwise).
    static ZONE_CLASS: std::cell::Cell<Class> = const { std::cell::Cell::new(Class::IN) };
}

pub fn zone_class() -> Class {
    ZONE_CLASS.with(|c| c.get())
}

pub fn set_zone_class(class: Class) {
    ZONE_CLASS.with(|c| c.set(class));
}

pub fn rrset_of(rtype: Rtype, ttl: u32, rdatas: &BTreeSet<String>, owner: &str) -> SharedRrset {
    let mut rs = Rrset::new(rtype, Ttl::from_secs(ttl));
    for rd in rdatas {
        let rec = RecSpec {
            owner: owner.to_string(),
            rtype,
            ttl,
            rdata: rd.clone(),
        }
        .record();
        rs.push_data(rec.data().clone());
    }
    SharedRrset::new(rs)
}

pub fn soa_rdata(serial: u32) -> String {
    format!("ns.example. admin.example. {} 7200 3600 86400 300", serial)
}

/// Canonical (normalised through the library's own parser/printer) rdata.
pub fn canon_rdata(owner: &str, rtype: Rtype, rdata: &str) -> String {
    let rec = RecSpec {
        owner: owner.to_string(),
        rtype,
        ttl: 1,
        rdata: rdata.to_string(),
    }
    .record();
    rdata_str(rec.data())
}

// ------------------------------------------------------------ observation

/// Sorted walk output: (owner, rtype, ttl, sorted rdata, at_cut).
pub type WalkOut = Vec<(String, Rtype, u32, Vec<String>, bool)>;

thread_local! {
    /// Observations go through the asynchronous variants of the read
    /// interface (`query_async`, `walk_async`): the same reader, the same
    /// version.
    static ASYNC_API: std::cell::Cell<bool> = const { std::cell::Cell::new(false) };
}

pub fn walk_zone(r: &dyn ReadableZone) -> WalkOut {
    let acc: Arc<Mutex<WalkOut>> = Arc::new(Mutex::new(Vec::new()));
    let acc2 = acc.clone();
    let op: domain::zonetree::WalkOp = Box::new(move |owner, rrset, at_cut| {
        let mut rd: Vec<String> = rrset.data().iter().map(rdata_str).collect();
        rd.sort();
        acc2.lock().unwrap().push((owner_str(&owner), rrset.rtype(), rrset.ttl().as_secs(), rd, at_cut));
    });
    if ASYNC_API.with(|c| c.get()) {
        // (An in-memory zone has nothing to wait for: ready at once.)
        use futures_util::FutureExt;
        r.walk_async(op).now_or_never().expect("in-memory walk is ready at once");
    } else {
        r.walk(op);
    }
    let mut v = std::mem::take(&mut *acc.lock().unwrap());
    v.sort();
    v
}

pub fn content_as_walk(c: &Content) -> WalkOut {
    let mut v: WalkOut = c.iter().map(|((o, t), (ttl, rds))| (o.clone(), *t, *ttl, rds.iter().cloned().collect(), false)).collect();
    v.sort();
    v
}

/// Structured summary of an answer, via the library's own `to_message`.
#[derive(Clone, Debug, PartialEq, Eq)]
pub struct Ans {
    pub rcode: String,
    pub aa: bool,
    pub answer: Vec<(String, Rtype, u32, String)>,
    pub authority: Vec<(String, Rtype, u32, String)>,
    pub additional: Vec<(String, Rtype, u32, String)>,
}

impl Ans {
    pub fn kind(&self) -> String {
        let has = |v: &Vec<(String, Rtype, u32, String)>, t: Rtype| v.iter().any(|r| r.1 == t);
        if self.rcode != "NOERROR" {
            return self.rcode.clone();
        }
        if !self.answer.is_empty() {
            if has(&self.answer, Rtype::CNAME) {
                return "CNAME".into();
            }
            return "DATA".into();
        }
        if has(&self.authority, Rtype::NS) && !self.aa {
            return "REFERRAL".into();
        }
        "NODATA".into()
    }
}

pub fn query_zone(r: &dyn ReadableZone, qname: &str, qtype: Rtype) -> Result<Ans, String> {
    let qn = stored_name(qname);
    let res = if ASYNC_API.with(|c| c.get()) {
        use futures_util::FutureExt;
        r.query_async(qn.clone(), qtype).now_or_never().expect("in-memory query is ready at once")
    } else {
        r.query(qn.clone(), qtype)
    };
    let answer = match res {
        Ok(a) => a,
        Err(_) => return Err("OutOfZone".into()),
    };
    let mut mb = MessageBuilder::new_vec().question();
    mb.push((&qn, qtype, zone_class())).unwrap();
    let req: Message<Vec<u8>> = mb.into_message();
    let out = answer.to_message(&req, MessageBuilder::new_vec());
    let bytes = out.into_message().into_octets();
    let v = dns::view(&bytes).ok_or("answer message does not parse")?;
    let mut a = Ans {
        rcode: format!("{}", v.rcode),
        aa: v.aa,
        answer: Vec::new(),
        authority: Vec::new(),
        additional: Vec::new(),
    };
    if v.questions.len() != 1 || v.questions[0].2 != zone_class() {
        return Err(format!("answer message carries question {:?}, asked in class {}", v.questions, zone_class()));
    }
    for rec in v.recs {
        if rec.class != zone_class() {
            return Err(format!("record {} {} of class {} in the answer of a class {} zone", rec.owner, rec.rtype, rec.class, zone_class()));
        }
        let t = (owner_str(&rec.owner), rec.rtype, rec.ttl, rec.rdata);
        match rec.section {
            1 => a.answer.push(t),
            2 => a.authority.push(t),
            _ => a.additional.push(t),
        }
    }
    a.answer.sort();
    a.authority.sort();
    a.additional.sort();
    Ok(a)
}

// ----------------------------------------------------------------- universe

pub fn universe_names() -> Vec<String> {
    let l1 = ["a", "b", "c", "*"];
    let l2 = ["a", "b", "*"];
    let mut v = vec![APEX.to_string()];
    for x in l1 {
        v.push(format!("{}.{}", x, APEX));
        for y in l2 {
            v.push(format!("{}.{}.{}", y, x, APEX));
            for z in ["a", "*"] {
                if x != "c" {
                    v.push(format!("{}.{}.{}.{}", z, y, x, APEX));
                }
            }
        }
    }
    v
}

/// Build a zone directly from `content` through parsed::Zonefile/ZoneBuilder.
pub fn build_direct(content: &Content) -> Result<Zone, String> {
    build_direct_opt(content, false)
}

/// The same, with a few records offered on top that the loader refuses.
pub fn build_direct_offering_refused(content: &Content) -> Result<Zone, String> {
    build_direct_opt(content, true)
}

fn build_direct_opt(content: &Content, offer_refused: bool) -> Result<Zone, String> {
    let mut zf = parsed::Zonefile::new(stored_name(APEX), zone_class());
    // SOA first, then NS/DS (cuts), then the rest, so that the library's
    // own ordering rules for cuts and glue are satisfied.
    let mut specs: Vec<RecSpec> = Vec::new();
    for ((o, t), (ttl, rds)) in content {
        for rd in rds {
            specs.push(RecSpec {
                owner: o.clone(),
                rtype: *t,
                ttl: *ttl,
                rdata: rd.clone(),
            });
        }
    }
    specs.sort_by_key(|s| match s.rtype {
        Rtype::SOA => 0,
        Rtype::NS | Rtype::DS => 1,
        Rtype::CNAME => 2,
        _ => 3,
    });
    for s in specs {
        zf.insert(s.record()).map_err(|e| format!("insert {}: {}", s.line(), e))?;
    }
    if offer_refused {
        offer_records_the_loader_refuses(&mut zf, content);
    }
    Zone::try_from(zf).map_err(|e| format!("build: {:?}", e))
}

/// A loader that goes on after an error (a zone file with a bad line in it):
/// a few records that `parsed::Zonefile::insert` refuses given what is there
/// already - a CNAME next to other data or at a zone cut, a second CNAME,
/// other data next to a CNAME, a zone cut at a name with data or with a
/// CNAME, other data at a zone cut, a record of another class. A refused
/// record leaves no trace: the zone is the one its accepted records describe.
fn offer_records_the_loader_refuses(zf: &mut parsed::Zonefile, content: &Content) {
    let is_cut = |o: &String| o != APEX && content.contains_key(&(o.clone(), Rtype::NS));
    let has_cname = |o: &String| content.contains_key(&(o.clone(), Rtype::CNAME));
    let owners: Vec<String> = content.keys().map(|(o, _)| o.clone()).collect::<BTreeSet<_>>().into_iter().collect();
    let plain: Vec<&String> = owners.iter().filter(|o| !is_cut(o) && !has_cname(o) && content.keys().any(|(oo, t)| oo == *o && !matches!(*t, Rtype::A | Rtype::AAAA))).collect();
    let cuts: Vec<&String> = owners.iter().filter(|o| is_cut(o)).collect();
    let cnames: Vec<&String> = owners.iter().filter(|o| has_cname(o)).collect();
    for _ in 0..sim::draw("build.refused_offers", 4) {
        let mut other_class = false;
        let spec = match sim::draw("build.refused_kind", 8) {
            0 if !plain.is_empty() => RecSpec { owner: (*sim::pick("build.refused_at", &plain)).clone(), rtype: Rtype::CNAME, ttl: 300, rdata: gen_rdata(Rtype::CNAME) },
            1 if !cuts.is_empty() => RecSpec { owner: (*sim::pick("build.refused_at", &cuts)).clone(), rtype: Rtype::CNAME, ttl: 300, rdata: gen_rdata(Rtype::CNAME) },
            2 if !cnames.is_empty() => RecSpec { owner: (*sim::pick("build.refused_at", &cnames)).clone(), rtype: Rtype::CNAME, ttl: 300, rdata: "another.target.example.".into() },
            3 if !cnames.is_empty() => RecSpec { owner: (*sim::pick("build.refused_at", &cnames)).clone(), rtype: Rtype::TXT, ttl: 300, rdata: gen_rdata(Rtype::TXT) },
            4 if !plain.is_empty() && plain.iter().any(|o| *o != APEX) => {
                let below: Vec<&String> = plain.iter().copied().filter(|o| *o != APEX).collect();
                RecSpec { owner: (*sim::pick("build.refused_at", &below)).clone(), rtype: Rtype::NS, ttl: 300, rdata: gen_rdata(Rtype::NS) }
            }
            5 if !cnames.is_empty() => RecSpec { owner: (*sim::pick("build.refused_at", &cnames)).clone(), rtype: Rtype::NS, ttl: 300, rdata: gen_rdata(Rtype::NS) },
            6 if !cuts.is_empty() => RecSpec { owner: (*sim::pick("build.refused_at", &cuts)).clone(), rtype: Rtype::TXT, ttl: 300, rdata: gen_rdata(Rtype::TXT) },
            7 => {
                other_class = true;
                RecSpec { owner: sim::pick("build.refused_at_any", &owners).clone(), rtype: Rtype::TXT, ttl: 300, rdata: gen_rdata(Rtype::TXT) }
            }
            _ => continue,
        };
        let rec = if other_class {
            let other = if zone_class() == Class::IN { Class::CH } else { Class::IN };
            parse_record(&format!("{} {} {} {} {}", spec.owner, spec.ttl, other, spec.rtype, spec.rdata))
        } else {
            spec.record()
        };
        match zf.insert(rec) {
            Err(_) => {
                sim::stat("fault.record_refused_by_the_loader");
            }
            // (Which records a loader refuses is its business; one it takes
            // after all belongs to the zone, and this run's comparison with
            // the accepted records is off.)
            Ok(()) => {
                sim::stat("probe.loader_accepted_a_record_expected_to_be_refused");
                LOADER_TOOK_AN_OFFER.with(|c| c.set(true));
            }
        }
    }
}

thread_local! {
    pub static LOADER_TOOK_AN_OFFER: std::cell::Cell<bool> = const { std::cell::Cell::new(false) };
}

// ------------------------------------------------------------------- model

#[derive(Default)]
pub struct Model {
    /// Names that have a tree node (the child maps of the store are not
    /// versioned): every owner ever written plus all its ancestors.
    pub nodes: BTreeSet<String>,
    pub committed: Vec<Content>,
    pub writer_holding: Option<String>,
    pub commits: u64,
    pub aborts: u64,
}

pub type Mdl = Rc<RefCell<Model>>;

pub fn apply_add(c: &mut Content, r: &RecSpec) {
    let e = c.entry((r.owner.clone(), r.rtype)).or_insert((r.ttl, BTreeSet::new()));
    e.0 = r.ttl;
    e.1.insert(canon_rdata(&r.owner, r.rtype, &r.rdata));
}

pub fn apply_del(c: &mut Content, r: &RecSpec) {
    let key = (r.owner.clone(), r.rtype);
    if let Some(e) = c.get_mut(&key) {
        e.1.remove(&canon_rdata(&r.owner, r.rtype, &r.rdata));
        if e.1.is_empty() {
            c.remove(&key);
        } else {
            e.0 = r.ttl;
        }
    }
}

fn soa_serial_of(c: &Content) -> Option<(u32, u32)> {
    let (ttl, rds) = c.get(&(APEX.to_string(), Rtype::SOA))?;
    let rd = rds.iter().next()?;
    let serial = rd.split_whitespace().nth(2)?.parse::<u32>().ok()?;
    Some((*ttl, serial))
}

/// Model of `commit(bump_soa_serial = true)`.
fn apply_bump(old: &Content, new: &mut Content) {
    let key = (APEX.to_string(), Rtype::SOA);
    if let Some((ttl, serial)) = soa_serial_of(old) {
        let unchanged = match new.get(&key) {
            None => true,
            Some(v) => Some(v) == old.get(&key),
        };
        if unchanged {
            let mut s = BTreeSet::new();
            s.insert(canon_rdata(APEX, Rtype::SOA, &soa_rdata(serial.wrapping_add(1))));
            new.insert(key, (ttl, s));
        }
    }
}

/// Record that `owner` and its ancestors (below the apex) now have nodes.
pub fn note_nodes(nodes: &mut BTreeSet<String>, owner: &str) {
    let mut cur = owner.to_string();
    while cur != APEX && cur.ends_with(APEX) {
        nodes.insert(cur.clone());
        match cur.split_once('.') {
            Some((_, rest)) => cur = rest.to_string(),
            None => break,
        }
    }
}

async fn node_for(root: &dyn WritableZoneNode, owner: &str, mdl: &Mdl) -> Option<Box<dyn WritableZoneNode>> {
    note_nodes(&mut mdl.borrow_mut().nodes, owner);
    // Labels from the apex downwards.
    let rel = owner.strip_suffix(APEX)?;
    let labels: Vec<&str> = rel.trim_end_matches('.').split('.').filter(|s| !s.is_empty()).rev().collect();
    if labels.is_empty() {
        return None;
    }
    let mut node: Box<dyn WritableZoneNode> = root.update_child(Label::from_slice(labels[0].as_bytes()).unwrap()).await.expect("update_child");
    for l in &labels[1..] {
        node = node.update_child(Label::from_slice(l.as_bytes()).unwrap()).await.expect("update_child");
    }
    Some(node)
}

// ------------------------------------------------------------ C09 scenario

thread_local! {
    /// Owner names that hold a CNAME at the start of the run (zone_isolation
    /// only); writers change their role, readers probe them.
    static ALIASES: RefCell<Vec<String>> = const { RefCell::new(Vec::new()) };
}

const P9: &str = "C09";

const PLAIN_TYPES: [Rtype; 4] = [Rtype::A, Rtype::TXT, Rtype::AAAA, Rtype::MX];

fn gen_rdata(rtype: Rtype) -> String {
    let i = sim::draw("rec.rdata", 4);
    match rtype {
        Rtype::A => format!("192.0.2.{}", i + 1),
        Rtype::AAAA => format!("2001:db8::{}", i + 1),
        Rtype::TXT => format!("\"t{}\"", i),
        Rtype::MX => format!("{} mx{}.example.", 10 * (i + 1), i % 2),
        Rtype::NS => format!("ns{}.{}", i % 2, if i < 2 { "example." } else { "b.example." }),
        Rtype::CNAME => format!("target{}.example.", i),
        Rtype::DS => format!("{} 15 2 {:064X}", 1000 + i, i + 1),
        _ => unreachable!(),
    }
}

fn gen_plain_rec(names: &[String]) -> RecSpec {
    let owner = sim::pick("rec.owner", names).clone();
    let rtype = *sim::pick("rec.type", &PLAIN_TYPES);
    RecSpec {
        owner,
        rtype,
        ttl: *sim::pick("rec.ttl", &[300u32, 60, 3600]),
        rdata: gen_rdata(rtype),
    }
}

#[derive(Clone)]
struct Probe {
    qname: String,
    qtype: Rtype,
}

struct Observation {
    walk: WalkOut,
    answers: Vec<Result<Ans, String>>,
}

fn observe(r: &dyn ReadableZone, probes: &[Probe]) -> Observation {
    let via_async = sim::chance("reader.async_api", 1, 3);
    if via_async {
        sim::stat("probe.observed_through_the_async_read_interface");
    }
    ASYNC_API.with(|c| c.set(via_async));
    let o = Observation {
        walk: walk_zone(r),
        answers: probes.iter().map(|p| query_zone(r, &p.qname, p.qtype)).collect(),
    };
    ASYNC_API.with(|c| c.set(false));
    o
}

/// The names whose tree nodes a lookup of `qname` may visit: the name, its
/// ancestors below the apex, and the wildcard child of every ancestor.
fn lookup_path(qname: &str) -> Vec<String> {
    let mut out = Vec::new();
    let mut cur = qname.to_string();
    while cur != APEX && cur.ends_with(APEX) {
        out.push(cur.clone());
        match cur.split_once('.') {
            Some((_, rest)) => {
                out.push(format!("*.{}", rest));
                cur = rest.to_string();
            }
            None => break,
        }
    }
    out
}

/// All differences between two observations: (signature, detail, probe).
fn diagnose(probes: &[Probe], a: &Observation, b: &Observation) -> Vec<(String, String, Option<usize>)> {
    let mut out = Vec::new();
    if a.walk != b.walk {
        let first = a.walk.iter().find(|x| !b.walk.contains(x)).map(|x| format!("lost {:?}", x)).or_else(|| b.walk.iter().find(|x| !a.walk.contains(x)).map(|x| format!("gained {:?}", x)));
        out.push(("walk-changed".to_string(), format!("walk output changed: {}", first.unwrap_or_default()), None));
    }
    for (i, (x, y)) in a.answers.iter().zip(b.answers.iter()).enumerate() {
        if x != y {
            let kx = x.as_ref().map(|a| a.kind()).unwrap_or_else(|e| e.clone());
            let ky = y.as_ref().map(|a| a.kind()).unwrap_or_else(|e| e.clone());
            out.push((format!("answer-{}-to-{}", kx, ky), format!("answer for {} {} changed from {:?} to {:?}", probes[i].qname, probes[i].qtype, x, y), Some(i)));
        }
    }
    out
}

async fn reader_task(zone: Zone, mdl: Mdl, id: usize, names: Vec<String>) {
    let rounds = 1 + sim::draw("reader.rounds", 3);
    for _ in 0..rounds {
        for _ in 0..sim::draw("reader.wait", 6) {
            step().await;
        }
        if sim::stopped() {
            return;
        }
        // Probes: a sample of the universe plus names just outside it.
        let n_probes = 4 + sim::draw("reader.n_probes", 8) as usize;
        let probes: Vec<Probe> = (0..n_probes)
            .map(|_| Probe {
                qname: if sim::chance("probe.outside", 1, 8) {
                    format!("zz.{}", sim::pick("probe.name", &names))
                } else {
                    sim::pick("probe.name", &names).clone()
                },
                qtype: *sim::pick("probe.type", &[Rtype::A, Rtype::TXT, Rtype::AAAA, Rtype::MX, Rtype::SOA, Rtype::NS]),
            })
            .collect();
        let r = zone.read();
        let (idx, writer_open, nodes_at_pin) = {
            let m = mdl.borrow();
            (m.committed.len() - 1, m.writer_holding.is_some(), m.nodes.clone())
        };
        let first = observe(r.as_ref(), &probes);
        ev!("reader{} acquired at version index {} ({} rrsets, writer open: {})", id, idx, first.walk.len(), writer_open);
        // (ii) the walk enumerates exactly the committed content.
        let expect = content_as_walk(&mdl.borrow().committed[idx]);
        if first.walk != expect {
            let d = first.walk.iter().find(|x| !expect.contains(x)).map(|x| format!("unexpected {:?}", x)).or_else(|| expect.iter().find(|x| !first.walk.contains(x)).map(|x| format!("missing {:?}", x)));
            sim::violation(
                P9,
                "commit-content",
                if writer_open { "new-reader-differs-from-last-commit/writer-open" } else { "new-reader-differs-from-last-commit" },
                format!("reader{} acquired after commit #{} walks something else than the committed content: {}", id, idx, d.unwrap_or_default()),
            );
            return;
        }
        // A new reader's answers consist of its version's records. Only
        // claims that hold whatever the (C08) negative-answer logic does:
        // (a) an RRset present at the exact name, with no empty non-terminal
        // above it and no wildcard label in it, is returned exactly; (b) any
        // answer record is a record of the version at the name or at a
        // wildcard on its path.
        {
            let m = mdl.borrow();
            let c = &m.committed[idx];
            for (p, a) in probes.iter().zip(first.answers.iter()) {
                let a = match a {
                    Ok(a) => a,
                    Err(_) => continue,
                };
                let mut path = lookup_path(&p.qname);
                if !path.contains(&p.qname) {
                    path.push(p.qname.clone());
                }
                for rec in &a.answer {
                    let ok = path.iter().any(|o| {
                        (o == &p.qname || o.starts_with("*.")) && c.get(&(o.clone(), rec.1)).is_some_and(|(ttl, rds)| *ttl == rec.2 && rds.contains(&rec.3))
                    });
                    if !ok {
                        if sim::violation(P9, "commit-content", "answer-record-not-in-version", format!("reader{} at version index {}: {} {} returned {:?} which is not a record of that version", id, idx, p.qname, p.qtype, rec)) {
                            return;
                        }
                    }
                }
                if let Some((ttl, rds)) = c.get(&(p.qname.clone(), p.qtype)) {
                    let ancestors_have_data = path.iter().filter(|o| !o.starts_with("*.") && **o != p.qname).all(|o| c.keys().any(|(oo, _)| oo == o));
                    if p.qname.contains('*') || !ancestors_have_data {
                        continue;
                    }
                    let mut want: Vec<(String, Rtype, u32, String)> = rds.iter().map(|rd| (p.qname.clone(), p.qtype, *ttl, rd.clone())).collect();
                    want.sort();
                    if a.answer != want {
                        if sim::violation(
                            P9,
                            "commit-content",
                            format!("existing-rrset-answered-{}", a.kind()),
                            format!("reader{} at version index {} ({} aborts so far): {} {} answered {:?}, but the version has {:?}", id, idx, m.aborts, p.qname, p.qtype, a, want),
                        ) {
                            return;
                        }
                    }
                }
            }
        }
        let holds = 1 + sim::draw("reader.holds", 6);
        let mut versions_seen = 0u64;
        for _ in 0..holds {
            for _ in 0..1 + sim::draw("reader.hold_steps", 4) {
                step().await;
            }
            if sim::stopped() {
                return;
            }
            let now_idx = mdl.borrow().committed.len() - 1;
            if now_idx > idx {
                versions_seen = versions_seen.max((now_idx - idx) as u64);
            }
            let again = observe(r.as_ref(), &probes);
            for (sig, detail, probe) in diagnose(&probes, &first, &again) {
                let m = mdl.borrow();
                // Root-cause marker: did the queried name get a tree node
                // only after this reader pinned its version? (The store's
                // child maps are not versioned.)
                let sig = match probe {
                    Some(i) if lookup_path(&probes[i].qname).iter().any(|n| !nodes_at_pin.contains(n) && m.nodes.contains(n)) => format!("{}/node-created-since-pin", sig),
                    _ => sig,
                };
                let real = sim::violation(
                    P9,
                    "isolation",
                    sig,
                    format!(
                        "reader{} pinned at version index {} (now {} committed, {} aborted, writer open: {}): {}",
                        id,
                        idx,
                        m.committed.len() - 1,
                        m.aborts,
                        m.writer_holding.is_some(),
                        detail
                    ),
                );
                if real {
                    return;
                }
            }
        }
        if versions_seen >= 3 {
            sim::stat("probe.reader_held_across_3_commits");
        }
        if versions_seen >= 1 {
            sim::stat("probe.reader_held_across_commit");
        }
        ev!("reader{} released (index {})", id, idx);
        drop(r);
    }
}

async fn writer_task(zone: Zone, mdl: Mdl, id: usize, names: Vec<String>) {
    let batches = 1 + sim::draw("writer.batches", 5);
    for b in 0..batches {
        for _ in 0..sim::draw("writer.wait", 4) {
            step().await;
        }
        if sim::stopped() {
            return;
        }
        let who = format!("writer{}.{}", id, b);
        if sim::chance("writer.via_updater", 1, 3) {
            updater_batch(&zone, &mdl, &who, &names).await;
        } else {
            lowlevel_batch(&zone, &mdl, &who, &names).await;
        }
    }
}

fn acquire(mdl: &Mdl, who: &str) -> bool {
    let mut m = mdl.borrow_mut();
    if let Some(other) = &m.writer_holding {
        let other = other.clone();
        drop(m);
        sim::violation(P9, "writers-serialised", "two-writers-hold-the-zone", format!("{} obtained the write handle while {} still holds it", who, other));
        return false;
    }
    m.writer_holding = Some(who.to_string());
    true
}

fn release(mdl: &Mdl) {
    mdl.borrow_mut().writer_holding = None;
}

async fn lowlevel_batch(zone: &Zone, mdl: &Mdl, who: &str, names: &[String]) {
    ev!("{} requests the write handle", who);
    if mdl.borrow().writer_holding.is_some() {
        sim::stat("probe.writer_waited_for_lock");
    }
    let mut w: Box<dyn WritableZone> = zone.write().await;
    if !acquire(mdl, who) {
        return;
    }
    // One handle may publish several versions in a row (what a multi-part
    // IXFR does), and may commit without having opened the zone at all.
    for round in 0..3 {
        let mut working: Content = mdl.borrow().committed.last().unwrap().clone();
        if sim::chance("writer.touch", 1, 8) {
            sim::stat("probe.commit_without_open");
            let bump = sim::chance("writer.bump", 1, 2);
            if bump {
                let old = working.clone();
                apply_bump(&old, &mut working);
            }
            {
                let mut m = mdl.borrow_mut();
                m.committed.push(working.clone());
                m.commits += 1;
            }
            let res = w.commit(bump).await;
            ev!("{} COMMIT without open, bump={} -> index {}", who, bump, mdl.borrow().committed.len() - 1);
            if res.is_err() {
                sim::violation(P9, "commit", "commit-failed", format!("{} commit returned {:?}", who, res.err()));
            }
            step().await;
            if sim::stopped() {
                return;
            }
            continue;
        }
        if !lowlevel_round(w.as_mut(), mdl, who, names, working, round).await {
            break;
        }
        if sim::stopped() {
            return;
        }
    }
    release(mdl);
    drop(w);
    step().await;
}

/// Open, edit, then commit or abandon. Returns whether the handle goes on
/// to another round (committed and chosen to).
async fn lowlevel_round(w: &mut dyn WritableZone, mdl: &Mdl, who: &str, names: &[String], mut working: Content, round: usize) -> bool {
    let create_diff = sim::chance("writer.diff", 1, 2);
    let root = w.open(create_diff).await.expect("open");
    ev!("{} opened (diff={})", who, create_diff);
    let n_ops = sim::draw("writer.n_ops", 7);
    let abort_at = if sim::chance("writer.abort", 1, 4) { Some(sim::draw("writer.abort_at", n_ops + 1)) } else { None };
    for i in 0..n_ops {
        if abort_at == Some(i) {
            break;
        }
        let aliases = ALIASES.with(|a| a.borrow().clone());
        let op = sim::draw("writer.op", if aliases.is_empty() { 8 } else { 10 });
        if op >= 8 {
            // An alias owner changes its role: a CNAME node becomes a
            // regular node with a TXT RRset (make_regular + update_rrset), a
            // regular one is emptied and becomes a CNAME (make_cname).
            let owner = sim::pick("writer.alias", &aliases).clone();
            let node = node_for(root.as_ref(), &owner, mdl).await.expect("alias below the apex");
            let here: Vec<Rtype> = working.keys().filter(|(o, _)| *o == owner).map(|(_, t)| *t).collect();
            if here.contains(&Rtype::CNAME) {
                sim::stat("probe.cname_node_made_regular");
                ev!("{} make_regular + update_rrset {} TXT", who, owner);
                node.make_regular().await.expect("make_regular");
                let mut rds = BTreeSet::new();
                rds.insert(canon_rdata(&owner, Rtype::TXT, &gen_rdata(Rtype::TXT)));
                node.update_rrset(rrset_of(Rtype::TXT, 300, &rds, &owner)).await.expect("update_rrset");
                working.remove(&(owner.clone(), Rtype::CNAME));
                working.insert((owner.clone(), Rtype::TXT), (300, rds));
            } else {
                sim::stat("probe.regular_node_made_cname");
                ev!("{} remove {:?} + make_cname {}", who, here, owner);
                for t in &here {
                    node.remove_rrset(*t).await.expect("remove_rrset");
                    working.remove(&(owner.clone(), *t));
                }
                let target = format!("target{}.example.", sim::draw("writer.alias_target", 3));
                let rec = RecSpec { owner: owner.clone(), rtype: Rtype::CNAME, ttl: 300, rdata: target.clone() }.record();
                node.make_cname(domain::zonetree::SharedRr::from(rec)).await.expect("make_cname");
                let mut rds = BTreeSet::new();
                rds.insert(canon_rdata(&owner, Rtype::CNAME, &target));
                working.insert((owner.clone(), Rtype::CNAME), (300, rds));
            }
            step().await;
            if sim::stopped() {
                return false;
            }
            continue;
        }
        match op {
            0..=3 => {
                // Replace (or create) an RRset.
                let r = gen_plain_rec(names);
                let n = 1 + sim::draw("writer.rrset_size", 2);
                let mut rds = BTreeSet::new();
                rds.insert(canon_rdata(&r.owner, r.rtype, &r.rdata));
                for _ in 1..n {
                    rds.insert(canon_rdata(&r.owner, r.rtype, &gen_rdata(r.rtype)));
                }
                let rrset = rrset_of(r.rtype, r.ttl, &rds, &r.owner);
                ev!("{} update_rrset {} {} ttl={} {:?}", who, r.owner, r.rtype, r.ttl, rds);
                match node_for(root.as_ref(), &r.owner, mdl).await {
                    Some(n) => n.update_rrset(rrset).await.expect("update_rrset"),
                    None => root.update_rrset(rrset).await.expect("update_rrset"),
                }
                working.insert((r.owner.clone(), r.rtype), (r.ttl, rds));
            }
            4 | 5 => {
                // Remove an RRset (prefer one that exists).
                let existing: Vec<(String, Rtype)> = working.keys().filter(|(_, t)| *t != Rtype::SOA && *t != Rtype::CNAME).cloned().collect();
                let (owner, rtype) = if !existing.is_empty() && sim::chance("writer.rm_existing", 3, 4) {
                    sim::pick("writer.rm_which", &existing).clone()
                } else {
                    let r = gen_plain_rec(names);
                    (r.owner, r.rtype)
                };
                // (Now and then by storing an RRset without records in its
                // place, which comes to the same.)
                if sim::chance("writer.rm_by_empty_rrset", 1, 3) {
                    ev!("{} update_rrset {} {} (no records)", who, owner, rtype);
                    sim::stat("probe.rrset_removed_by_storing_an_empty_one");
                    let empty = rrset_of(rtype, 300, &BTreeSet::new(), &owner);
                    match node_for(root.as_ref(), &owner, mdl).await {
                        Some(n) => n.update_rrset(empty).await.expect("update_rrset"),
                        None => root.update_rrset(empty).await.expect("update_rrset"),
                    }
                } else {
                    ev!("{} remove_rrset {} {}", who, owner, rtype);
                    match node_for(root.as_ref(), &owner, mdl).await {
                        Some(n) => n.remove_rrset(rtype).await.expect("remove_rrset"),
                        None => root.remove_rrset(rtype).await.expect("remove_rrset"),
                    }
                }
                working.remove(&(owner, rtype));
            }
            6 if sim::chance("writer.ttl_only", 1, 2) => {
                // The same records under another TTL.
                let existing: Vec<(String, Rtype)> = working.keys().filter(|(_, t)| *t != Rtype::SOA && *t != Rtype::CNAME).cloned().collect();
                if !existing.is_empty() {
                    let (owner, rtype) = sim::pick("writer.ttl_which", &existing).clone();
                    let (ttl, rds) = working.get(&(owner.clone(), rtype)).cloned().unwrap();
                    let new_ttl = if ttl == 300 { 60 } else { 300 };
                    ev!("{} update_rrset {} {} ttl {} -> {} (same records)", who, owner, rtype, ttl, new_ttl);
                    sim::stat("probe.ttl_only_update");
                    let rrset = rrset_of(rtype, new_ttl, &rds, &owner);
                    match node_for(root.as_ref(), &owner, mdl).await {
                        Some(n) => n.update_rrset(rrset).await.expect("update_rrset"),
                        None => root.update_rrset(rrset).await.expect("update_rrset"),
                    }
                    working.insert((owner, rtype), (new_ttl, rds));
                }
            }
            6 => {
                // Update after remove of the same RRset in one version.
                let r = gen_plain_rec(names);
                let mut rds = BTreeSet::new();
                rds.insert(canon_rdata(&r.owner, r.rtype, &r.rdata));
                ev!("{} remove+update {} {}", who, r.owner, r.rtype);
                let node = node_for(root.as_ref(), &r.owner, mdl).await;
                let n: &dyn WritableZoneNode = match &node {
                    Some(n) => n.as_ref(),
                    None => root.as_ref(),
                };
                n.remove_rrset(r.rtype).await.expect("remove_rrset");
                n.update_rrset(rrset_of(r.rtype, r.ttl, &rds, &r.owner)).await.expect("update_rrset");
                working.insert((r.owner.clone(), r.rtype), (r.ttl, rds));
            }
            _ => {
                // Full replacement: remove_all, then re-add SOA.
                ev!("{} remove_all", who);
                sim::stat("probe.remove_all");
                root.remove_all().await.expect("remove_all");
                let old_soa = working.get(&(APEX.to_string(), Rtype::SOA)).cloned();
                working.clear();
                if let Some((ttl, rds)) = old_soa {
                    if sim::chance("writer.readd_soa", 3, 4) {
                        root.update_rrset(rrset_of(Rtype::SOA, ttl, &rds, APEX)).await.expect("update_rrset");
                        working.insert((APEX.to_string(), Rtype::SOA), (ttl, rds));
                    }
                }
            }
        }
        step().await;
        if sim::stopped() {
            return false;
        }
    }
    drop(root);
    if abort_at.is_some() {
        ev!("{} ABORT (drop without commit)", who);
        sim::stat("fault.writer_abort");
        mdl.borrow_mut().aborts += 1;
        false
    } else {
        let bump = sim::chance("writer.bump", 1, 2);
        if bump {
            let old = mdl.borrow().committed.last().unwrap().clone();
            apply_bump(&old, &mut working);
        }
        // The model commits first: `commit()` is one synchronous step.
        {
            let mut m = mdl.borrow_mut();
            m.committed.push(working.clone());
            m.commits += 1;
        }
        let res = w.commit(bump).await;
        ev!("{} COMMIT bump={} -> index {} diff={}", who, bump, mdl.borrow().committed.len() - 1, matches!(res, Ok(Some(_))));
        if res.is_err() {
            sim::violation(P9, "commit", "commit-failed", format!("{} commit returned {:?}", who, res.err()));
        }
        if round == 2 || !sim::chance("writer.same_handle", 1, 4) {
            return false;
        }
        sim::stat("probe.handle_reused_after_commit");
        step().await;
        true
    }
}

async fn updater_batch(zone: &Zone, mdl: &Mdl, who: &str, names: &[String]) {
    ev!("{} requests a ZoneUpdater", who);
    if mdl.borrow().writer_holding.is_some() {
        sim::stat("probe.writer_waited_for_lock");
    }
    let mut up: ZoneUpdater<StoredName> = match ZoneUpdater::new(zone.clone()).await {
        Ok(u) => u,
        Err(e) => {
            sim::violation(P9, "commit", "updater-open-failed", format!("{:?}", e));
            return;
        }
    };
    if !acquire(mdl, who) {
        return;
    }
    let mut working: Content = mdl.borrow().committed.last().unwrap().clone();
    let serial0 = soa_serial_of(&working).map(|s| s.1).unwrap_or(0);
    let mut serial = serial0;
    let n_ops = sim::draw("up.n_ops", 8);
    let abort_at = if sim::chance("up.abort", 1, 4) { Some(sim::draw("up.abort_at", n_ops + 1)) } else { None };
    let soa_rec = |serial: u32| RecSpec {
        owner: APEX.to_string(),
        rtype: Rtype::SOA,
        ttl: 3600,
        rdata: soa_rdata(serial),
    };
    for i in 0..n_ops {
        if abort_at == Some(i) {
            break;
        }
        // A sloppy (or hostile) primary: a record that does not belong to
        // the zone - owned by an ancestor of the apex, a sibling, a name the
        // apex is only the front part of - sits between the good ones. It is
        // refused, changes nothing, and the update goes on.
        if sim::chance("up.out_of_zone_record", 1, 12) {
            let owner = sim::pick("up.out_of_zone_owner", &[".".to_string(), format!("x{}", APEX), format!("{}other.", APEX), "other.".to_string()]).clone();
            let (rtype, rdata) = sim::pick("up.out_of_zone_what", &[(Rtype::NS, "ns.elsewhere.".to_string()), (Rtype::A, "192.0.2.250".to_string()), (Rtype::SOA, soa_rdata(serial + 1000))]).clone();
            let r = RecSpec { owner, rtype, ttl: 3600, rdata };
            let del = sim::chance("up.out_of_zone_delete", 1, 3);
            ev!("{} {} {} (not of this zone)", who, if del { "DeleteRecord" } else { "AddRecord" }, r.line());
            sim::stat("fault.update_offers_a_record_outside_the_zone");
            let res = if del { up.apply(ZoneUpdate::DeleteRecord(r.record())).await } else { up.apply(ZoneUpdate::AddRecord(r.record())).await };
            if res.is_ok() {
                sim::violation(P9, "scope", "record-outside-the-zone-taken".to_string(), format!("{} of {} was accepted by the updater of zone {}", if del { "DeleteRecord" } else { "AddRecord" }, r.line(), APEX));
                return;
            }
        }
        match sim::draw("up.op", 10) {
            0..=3 => {
                let r = gen_plain_rec(names);
                let exists = working.get(&(r.owner.clone(), r.rtype)).is_some_and(|(_, rds)| rds.contains(&canon_rdata(&r.owner, r.rtype, &r.rdata)));
                if exists {
                    // Adding a record that is already present is not a legal
                    // IXFR/AXFR step (the updater keeps both copies); delete
                    // it instead.
                    ev!("{} DeleteRecord {}", who, r.line());
                    note_nodes(&mut mdl.borrow_mut().nodes, &r.owner);
                    up.apply(ZoneUpdate::DeleteRecord(r.record())).await.expect("apply");
                    apply_del(&mut working, &r);
                } else {
                    ev!("{} AddRecord {}", who, r.line());
                    note_nodes(&mut mdl.borrow_mut().nodes, &r.owner);
                    up.apply(ZoneUpdate::AddRecord(r.record())).await.expect("apply");
                    apply_add(&mut working, &r);
                }
            }
            4..=6 => {
                // Delete an existing record if possible.
                let existing: Vec<RecSpec> = working
                    .iter()
                    .filter(|((_, t), _)| *t != Rtype::SOA && *t != Rtype::CNAME)
                    .flat_map(|((o, t), (ttl, rds))| {
                        rds.iter().map(move |rd| RecSpec {
                            owner: o.clone(),
                            rtype: *t,
                            ttl: *ttl,
                            rdata: rd.clone(),
                        })
                    })
                    .collect();
                let r = if !existing.is_empty() && sim::chance("up.del_existing", 3, 4) { sim::pick("up.del_which", &existing).clone() } else { gen_plain_rec(names) };
                ev!("{} DeleteRecord {}", who, r.line());
                note_nodes(&mut mdl.borrow_mut().nodes, &r.owner);
                    up.apply(ZoneUpdate::DeleteRecord(r.record())).await.expect("apply");
                apply_del(&mut working, &r);
            }
            7 => {
                ev!("{} DeleteAllRecords", who);
                sim::stat("probe.remove_all");
                up.apply(ZoneUpdate::DeleteAllRecords).await.expect("apply");
                working.clear();
            }
            _ => {
                // IXFR-style batch boundary: commit, reopen, new SOA.
                ev!("{} BeginBatchDelete (commit + reopen)", who);
                sim::stat("probe.updater_batch_boundary");
                {
                    let mut m = mdl.borrow_mut();
                    m.committed.push(working.clone());
                    m.commits += 1;
                }
                up.apply(ZoneUpdate::BeginBatchDelete(soa_rec(serial).record())).await.expect("apply");
                step().await;
                // The deletions of this difference sequence (as an IXFR has
                // them between the two SOAs): not visible to anybody before
                // the next commit point.
                for _ in 0..sim::draw("up.batch_deletes", 4) {
                    let existing: Vec<RecSpec> = working
                        .iter()
                        .filter(|((_, t), _)| *t != Rtype::SOA && *t != Rtype::CNAME)
                        .flat_map(|((o, t), (ttl, rds))| rds.iter().map(move |rd| RecSpec { owner: o.clone(), rtype: *t, ttl: *ttl, rdata: rd.clone() }))
                        .collect();
                    if existing.is_empty() {
                        break;
                    }
                    let r = sim::pick("up.batch_del_which", &existing).clone();
                    ev!("{} DeleteRecord {} (inside the difference sequence)", who, r.line());
                    note_nodes(&mut mdl.borrow_mut().nodes, &r.owner);
                    up.apply(ZoneUpdate::DeleteRecord(r.record())).await.expect("apply");
                    apply_del(&mut working, &r);
                    sim::stat("probe.deletion_inside_a_difference_sequence");
                    step().await;
                }
                serial = serial.wrapping_add(1);
                let s = soa_rec(serial);
                up.apply(ZoneUpdate::BeginBatchAdd(s.record())).await.expect("apply");
                working.remove(&(APEX.to_string(), Rtype::SOA));
                apply_add(&mut working, &s);
                step().await;
            }
        }
        step().await;
        if sim::stopped() {
            return;
        }
    }
    if abort_at.is_none() && sim::chance("up.finish_with_a_record_that_is_no_soa", 1, 8) {
        // The end of the update goes wrong: `Finished` is handed a record
        // that is no SOA. It fails - and nothing of this part is published.
        let bad = gen_plain_rec(names);
        ev!("{} Finished({}) - not an SOA", who, bad.line());
        sim::stat("fault.finished_with_a_record_that_is_no_soa");
        if up.apply(ZoneUpdate::Finished(bad.record())).await.is_ok() {
            sim::violation(P9, "commit", "finished-accepted-a-record-that-is-no-soa", "ZoneUpdate::Finished with an address / text record was accepted".to_string());
        }
        mdl.borrow_mut().aborts += 1;
        release(mdl);
        drop(up);
    } else if abort_at.is_some() {
        ev!("{} ABORT (updater dropped)", who);
        sim::stat("fault.writer_abort");
        mdl.borrow_mut().aborts += 1;
        release(mdl);
        if sim::chance("up.abort_by_crash", 1, 3) {
            sim::crash_drop(up);
        } else {
            drop(up);
        }
    } else {
        serial = serial.wrapping_add(1);
        let s = soa_rec(serial);
        working.remove(&(APEX.to_string(), Rtype::SOA));
        apply_add(&mut working, &s);
        {
            let mut m = mdl.borrow_mut();
            m.committed.push(working.clone());
            m.commits += 1;
        }
        let res = up.apply(ZoneUpdate::Finished(s.record())).await;
        ev!("{} Finished -> index {}", who, mdl.borrow().committed.len() - 1);
        if let Err(e) = res {
            sim::violation(P9, "commit", "updater-finish-failed", format!("{:?}", e));
        }
        release(mdl);
        drop(up);
    }
    step().await;
}

/// Initial content: SOA plus a few records.
pub fn initial_content(names: &[String], n: u64) -> Content {
    let mut c = Content::new();
    let mut s = BTreeSet::new();
    s.insert(canon_rdata(APEX, Rtype::SOA, &soa_rdata(1)));
    c.insert((APEX.to_string(), Rtype::SOA), (3600, s));
    for _ in 0..n {
        let r = gen_plain_rec(names);
        apply_add(&mut c, &r);
    }
    c
}

pub struct IsolationScn;

impl Scenario for IsolationScn {
    fn name(&self) -> &'static str {
        "zone_isolation"
    }
    fn property(&self) -> &'static str {
        P9
    }
    fn max_vtime(&self) -> Duration {
        Duration::from_secs(3600)
    }
    fn event_cap(&self) -> u64 {
        50_000
    }
    fn components(&self) -> (Vec<&'static str>, Vec<&'static str>) {
        (
            vec![
                "zonetree::Zone / ZoneBuilder / parsed::Zonefile",
                "zonetree::in_memory::{ZoneApex, ZoneNode, Versioned, ReadZone (query, walk), WriteZone/WriteNode (open, update_child, update_rrset, remove_rrset, remove_all, commit, Drop rollback)}",
                "zonetree::update::ZoneUpdater",
                "zonetree::Answer::to_message",
                "tokio::sync::Mutex (writer lock)",
            ],
            vec!["reader and writer tasks (seeded scheduler)", "multi-version content model", "observation/diagnosis"],
        )
    }
    fn rule(&self) -> &'static str {
        "1-2 writer tasks (low-level write interface or ZoneUpdater; update/remove/remove+update/remove_all/IXFR-style batch boundaries; role changes of alias owners through make_regular / make_cname; commit with or without serial bump, several commits through one handle, commit without open; abort by drop at any op boundary in 25% of batches) interleaved by the seeded scheduler at every API call with 1-4 reader tasks that pin a version, record walk() plus 4-11 query answers, and re-observe up to 6 times while writers proceed; initial content from parsed::Zonefile/ZoneBuilder."
    }
    fn assumptions(&self) -> Vec<&'static str> {
        vec![
            "this scenario interleaves at operation granularity on one thread; lock-level schedules inside one zone operation (parking_lot RwLocks, real threads) are the zone_threads scenario's",
            "the content model covers plain RRset operations plus role changes of up to two alias owners (make_regular + update_rrset on a CNAME node, make_cname on an emptied node); make_zone_cut through the write interface is not modelled",
        ]
    }
    fn nontrivial(&self, stats: &BTreeMap<&'static str, u64>) -> bool {
        stats.get("probe.reader_held_across_commit").copied().unwrap_or(0) > 0 || stats.get("fault.writer_abort").copied().unwrap_or(0) > 0
    }
    fn run(&self, tier: Tier) -> Pin<Box<dyn Future<Output = ()>>> {
        Box::pin(run_isolation(tier))
    }
}

/// Long history: one zone, 70-260 small commits one after the other
/// (update an RRset, remove one, add a name, bump the SOA), readers taken at
/// drawn points and held to the end. Every held reader still walks - and
/// answers the SOA query with - exactly the content of its version, however
/// many versions have come since; a new reader sees the last commit.
async fn long_history() {
    sim::stat("probe.long_history_of_commits_with_readers_held");
    let names: Vec<String> = (0..6).map(|i| format!("lh{}.{}", i, APEX)).collect();
    let mut content = initial_content(&names, 6);
    let zone = match build_direct(&content) {
        Ok(z) => z,
        Err(e) => {
            sim::harness_error(format!("initial zone: {}", e));
            return;
        }
    };
    let n_commits = 70 + sim::draw("long_history.commits", 190) as usize;
    ev!("long history: {} commits", n_commits);
    let mut held: Vec<(usize, Box<dyn ReadableZone>, Vec<(String, Rtype, u32, Vec<String>)>)> = Vec::new();
    let snapshot = |c: &Content| -> Vec<(String, Rtype, u32, Vec<String>)> { content_as_walk(c).iter().map(|(o, t, ttl, rds, _)| (o.clone(), *t, *ttl, rds.clone())).collect() };
    let seen = |r: &dyn ReadableZone| -> Vec<(String, Rtype, u32, Vec<String>)> { walk_zone(r).iter().map(|(o, t, ttl, rds, _)| (o.clone(), *t, *ttl, rds.clone())).collect() };
    held.push((0, zone.read(), snapshot(&content)));
    for n in 1..=n_commits {
        let mut w = zone.write().await;
        let root = w.open(false).await.expect("open");
        let owner = names[sim::draw("long_history.name", names.len() as u64) as usize].clone();
        let rtype = *sim::pick("long_history.type", &[Rtype::A, Rtype::TXT]);
        let node = match root.update_child(&domain::base::name::Label::from_slice(owner.split('.').next().unwrap().as_bytes()).unwrap()).await {
            Ok(nd) => nd,
            Err(_) => return,
        };
        if content.contains_key(&(owner.clone(), rtype)) && sim::chance("long_history.remove", 1, 3) {
            node.remove_rrset(rtype).await.expect("remove_rrset");
            content.remove(&(owner.clone(), rtype));
        } else {
            let rec = RecSpec { owner: owner.clone(), rtype, ttl: 300, rdata: if rtype == Rtype::A { format!("192.0.2.{}", 1 + n % 250) } else { format!("\"v{}\"", n) } };
            content.remove(&(owner.clone(), rtype));
            apply_add(&mut content, &rec);
            let (ttl, rds) = content.get(&(owner.clone(), rtype)).cloned().unwrap();
            node.update_rrset(rrset_of(rtype, ttl, &rds, &owner)).await.expect("update_rrset");
        }
        // The SOA moves on with every version.
        content.remove(&(APEX.to_string(), Rtype::SOA));
        apply_add(&mut content, &RecSpec { owner: APEX.to_string(), rtype: Rtype::SOA, ttl: 3600, rdata: soa_rdata(n as u32 + 1) });
        let (ttl, rds) = content.get(&(APEX.to_string(), Rtype::SOA)).cloned().unwrap();
        root.update_rrset(rrset_of(Rtype::SOA, ttl, &rds, APEX)).await.expect("update_rrset");
        drop(node);
        drop(root);
        w.commit(false).await.expect("commit");
        drop(w);
        if sim::chance("long_history.take_reader", 1, 25) && held.len() < 6 {
            held.push((n, zone.read(), snapshot(&content)));
        }
        if n % 16 == 0 || n == n_commits {
            for (at, r, want) in &held {
                let got = seen(r.as_ref());
                if got != *want {
                    let missing: Vec<_> = want.iter().filter(|x| !got.contains(x)).take(3).collect();
                    let extra: Vec<_> = got.iter().filter(|x| !want.contains(x)).take(3).collect();
                    sim::violation(P9, "isolation", "held-reader-lost-its-version-after-many-commits".to_string(), format!("a reader taken after commit {} and held: after commit {} its walk no longer shows its version (missing {:?}, unexpected {:?})", at, n, missing, extra));
                    return;
                }
                match query_zone(r.as_ref(), APEX, Rtype::SOA) {
                    Ok(a) if a.answer.len() == 1 && a.answer[0].3.split_whitespace().nth(2) == Some(&format!("{}", at + 1)) => {}
                    other => {
                        sim::violation(P9, "isolation", "held-reader-lost-its-version-after-many-commits".to_string(), format!("a reader taken after commit {} and held: after commit {} its SOA query answers {:?}", at, n, other));
                        return;
                    }
                }
            }
        }
        if n % 8 == 0 {
            step().await;
        }
    }
    let fresh = seen(zone.read().as_ref());
    if fresh != snapshot(&content) {
        sim::violation(P9, "commit-content", "new-reader-differs-from-last-commit/long-history".to_string(), format!("after {} commits a new reader does not walk the last committed content", n_commits));
    }
}

async fn run_isolation(_tier: Tier) {
    if sim::chance("long_history", 1, 150) {
        return long_history().await;
    }
    let all = universe_names();
    // Per-run focus: a small set of owner names so that operations collide.
    let n_names = 3 + sim::draw("focus.n_names", 6) as usize;
    // (No rejection sampling: an exhausted replay tape reads as zeros.)
    let mut pool = all.clone();
    let mut names: Vec<String> = Vec::new();
    while names.len() < n_names && !pool.is_empty() {
        let i = sim::draw("focus.name", pool.len() as u64) as usize;
        names.push(pool.remove(i));
    }
    let mut init = if sim::chance("init.empty", 1, 6) { Content::new() } else { initial_content(&names, sim::draw("init.n", 8)) };
    // Up to two alias owners (CNAME nodes built by the zone-file path).
    let aliases: Vec<String> = if init.is_empty() { Vec::new() } else { (0..sim::draw("init.n_aliases", 3)).map(|i| format!("cn{}.{}", i, APEX)).collect() };
    for a in &aliases {
        apply_add(&mut init, &RecSpec { owner: a.clone(), rtype: Rtype::CNAME, ttl: 300, rdata: "target0.example.".into() });
        // Now and then with a name below the alias owner that has data of
        // its own (legal, if unusual): a walk goes on below the alias.
        if sim::chance("init.name_below_alias", 1, 2) {
            sim::stat("probe.name_with_data_below_an_alias_owner");
            apply_add(&mut init, &RecSpec { owner: format!("below.{}", a), rtype: Rtype::A, ttl: 300, rdata: "192.0.2.77".into() });
        }
    }
    ALIASES.with(|x| *x.borrow_mut() = aliases.clone());
    let zone = match build_direct(&init) {
        Ok(z) => z,
        Err(e) => {
            sim::harness_error(format!("initial zone: {}", e));
            return;
        }
    };
    let mdl: Mdl = Rc::new(RefCell::new(Model::default()));
    {
        let mut m = mdl.borrow_mut();
        for (o, _) in init.keys() {
            note_nodes(&mut m.nodes, o);
        }
        m.committed.push(init);
    }
    let exec = Exec::new();
    let n_writers = 1 + sim::draw("n_writers", 2) as usize;
    let n_readers = 1 + sim::draw("n_readers", 4) as usize;
    for i in 0..n_writers {
        exec.spawn(format!("writer{}", i), writer_task(zone.clone(), mdl.clone(), i, names.clone()));
    }
    for i in 0..n_readers {
        let mut probe_names = names.clone();
        probe_names.extend(aliases.iter().cloned());
        exec.spawn(format!("reader{}", i), reader_task(zone.clone(), mdl.clone(), i, probe_names));
    }
    exec.run().await;
    if sim::stopped() {
        return;
    }
    // Final: a fresh reader equals the last committed content; a fresh
    // writer starts from it (abort invisible).
    let r = zone.read();
    let w = walk_zone(r.as_ref());
    let m = mdl.borrow();
    let expect = content_as_walk(m.committed.last().unwrap());
    if w != expect {
        let d = w.iter().find(|x| !expect.contains(x)).map(|x| format!("unexpected {:?}", x)).or_else(|| expect.iter().find(|x| !w.contains(x)).map(|x| format!("missing {:?}", x)));
        sim::violation(
            P9,
            "commit-content",
            "final-state-differs-from-last-commit",
            format!("after {} commits and {} aborts the zone walks something else than the last committed content: {}", m.commits, m.aborts, d.unwrap_or_default()),
        );
    }
    sim::stat_add("counter.commits", m.commits);
    sim::stat_add("counter.aborts", m.aborts);
}
