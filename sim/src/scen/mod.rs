pub mod builder;
pub mod cache;
pub mod client;
pub mod dnssec_world;
pub mod e2e;
pub mod validator;
pub mod server;
pub mod tsig;
pub mod xfr;
pub mod xfr_server;
pub mod zone_answers;
pub mod zone_threads;
pub mod zonestore;

use crate::core::runner::{CheckSpec, Scenario};
use std::sync::Arc;

pub fn scenario_by_name(name: &str) -> Option<Arc<dyn Scenario>> {
    let s: Arc<dyn Scenario> = match name {
        "client" => Arc::new(client::ClientScn),
        "cache" => Arc::new(cache::CacheScn),
        "builder" => Arc::new(builder::BuilderScn),
        "server" => Arc::new(server::ServerScn),
        "tsig" => Arc::new(tsig::TsigScn),
        "validator" => Arc::new(validator::ValidatorScn),
        "xfr" => Arc::new(xfr::XfrScn),
        "xfr_server" => Arc::new(xfr_server::XfrServerScn),
        "tsig_e2e" => Arc::new(e2e::E2eScn { prop: "C11", name: "tsig_e2e" }),
        "xfr_e2e" => Arc::new(e2e::E2eScn { prop: "C10", name: "xfr_e2e" }),
        "zone_threads" => Arc::new(zone_threads::ThreadsScn),
        "zone_isolation" => Arc::new(zonestore::IsolationScn),
        "zone_answers" => Arc::new(zone_answers::AnswersScn),
        _ => return None,
    };
    Some(s)
}

pub fn check_spec(property: &str) -> Option<CheckSpec> {
    let spec = match property {
        "C10" => CheckSpec {
            property: "C10",
            level: "exploration",
            scenarios: vec![(Arc::new(xfr::XfrScn), 20_000, 600_000), (Arc::new(xfr_server::XfrServerScn), 4_000, 150_000), (Arc::new(e2e::E2eScn { prop: "C10", name: "xfr_e2e" }), 4_000, 200_000)],
        },
        "C11" => CheckSpec {
            property: "C11",
            level: "exploration",
            scenarios: vec![(Arc::new(tsig::TsigScn), 150_000, 8_000_000), (Arc::new(e2e::E2eScn { prop: "C11", name: "tsig_e2e" }), 8_000, 400_000)],
        },
        "C14" => CheckSpec {
            property: "C14",
            level: "exploration",
            scenarios: vec![(Arc::new(validator::ValidatorScn), 15_000, 500_000)],
        },
        "C15" => CheckSpec {
            property: "C15",
            level: "exploration",
            scenarios: vec![(Arc::new(client::ClientScn), 60_000, 3_000_000)],
        },
        "C02" => CheckSpec {
            property: "C02",
            level: "fault_enumeration",
            scenarios: vec![(Arc::new(builder::BuilderScn), 2_500, 80_000)],
        },
        "C08" => CheckSpec {
            property: "C08",
            level: "exploration",
            scenarios: vec![(Arc::new(zone_answers::AnswersScn), 6_000, 300_000)],
        },
        "C09" => CheckSpec {
            property: "C09",
            level: "exploration",
            scenarios: vec![(Arc::new(zonestore::IsolationScn), 20_000, 1_000_000), (Arc::new(zone_threads::ThreadsScn), 8_000, 400_000)],
        },
        "C16" => CheckSpec {
            property: "C16",
            level: "exploration",
            scenarios: vec![(Arc::new(server::ServerScn), 20_000, 1_000_000)],
        },
        "C20" => CheckSpec {
            property: "C20",
            level: "exploration",
            scenarios: vec![(Arc::new(cache::CacheScn), 40_000, 1_500_000)],
        },
        _ => return None,
    };
    Some(spec)
}
