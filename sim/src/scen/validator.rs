//! C14 — the validator says 'secure' only for data with a valid chain to a
//! trust anchor. Real: dnssec::validator (ValidationContext::validate_msg,
//! group/nsec/nsec3 proofs, node and signature caches), world built with the
//! real signer. Stub: the (adversarial) upstream answering from the signed
//! hierarchy of `dnssec_world`, the clock plan, the oracle.

use super::dnssec_world::{build_world, lname, to_message, Resp, World};
use crate::core::exec::step;
use crate::core::runner::{Scenario, Tier};
use crate::core::sim;
use bytes::Bytes;
use domain::base::{Message, MessageBuilder, Name, Rtype};
use domain::dnssec::validator::anchor::TrustAnchors;
use domain::dnssec::validator::context::{Config, ValidationContext, ValidationState};
use domain::net::client::request::{ComposeRequest, Error, GetResponse, RequestMessage, SendRequest};
use std::future::Future;
use std::pin::Pin;
use std::sync::{Arc, Mutex, OnceLock};
use std::time::Duration;

const P: &str = "C14";

static WORLDS: OnceLock<Vec<World>> = OnceLock::new();

fn worlds() -> &'static Vec<World> {
    WORLDS.get_or_init(|| {
        // (Worlds 4-7 are worlds 0-3 at a later stage: the same keys.)
        let keys: Vec<_> = (0..4).map(|_| super::dnssec_world::make_keys()).collect();
        (0..8).map(|v| build_world(v, sim::EPOCH_BASE as u32, &keys[v as usize % 4])).collect()
    })
}

/// A harmful change to a response: after it, the response is no longer what
/// the signed world says, or no longer provably so.
#[derive(Clone, Copy, Debug, PartialEq)]
enum Harm {
    None,
    DropRrsig,
    DropProofRecord,
    ReplaceRdata,
    FlipSignature,
    WrongSigner,
    WrongKeyTag,
    ExtendSigValidity,
    StripDs,
    DropAnswerRrset,
    TransportError,
    Nxdomain,
    ForgedNxdomainBelowCut,
    /// The RRset of a wildcard above a blocking name, re-owned to the query name.
    WildcardReplay,
    /// The unsigned CNAME next to a DNAME redirected to another signed name.
    ForgeDnameCname,
    /// Data and a root DNSKEY RRset signed by an attacker's key that shares
    /// key tag and algorithm with the configured trust anchor.
    RootKeySwap,
    /// NODATA for existing data, "proven" by the re-owned NSEC of a wildcard.
    WildcardNsecReplay,
    /// The RRSIGs of one answer RRset replaced by a correct signature of a
    /// securely delegated zone that is no ancestor of the owner.
    ForeignSigner,
    /// NODATA / NXDOMAIN for data that exists, built from the name's own
    /// NSEC/NSEC3, or from the parent side of the delegation (u8: mode).
    DenyExisting(u8),
    /// A closed cycle of (unsigned) DNAME records in the insecure zone.
    DnameLoop,
    /// A signed NSEC3 record whose owner label is not a Base32hex string (as
    /// the proof of a final NXDOMAIN; as all there is in a DS response).
    HostileNsec3,
}

#[derive(Default)]
struct UpState {
    /// Harm to apply to the next infrastructure (DS / DNSKEY) response.
    infra_harm: Option<Harm>,
    infra_harm_applied: u32,
    /// The harm skips this many infrastructure queries first (so that it
    /// meets the second or third request of a walk, not always the first).
    infra_harm_skip: u32,
    infra_queries: u32,
    world: usize,
    /// Answer `. DNSKEY` with the attacker's key set.
    root_key_swap: bool,
}

#[derive(Clone)]
struct Upstream {
    st: Arc<Mutex<UpState>>,
}

struct UpReq {
    fut: Option<Pin<Box<dyn Future<Output = Result<Message<Bytes>, Error>> + Send + Sync>>>,
}

impl std::fmt::Debug for UpReq {
    fn fmt(&self, f: &mut std::fmt::Formatter<'_>) -> std::fmt::Result {
        write!(f, "UpReq")
    }
}

impl GetResponse for UpReq {
    fn get_response(&mut self) -> Pin<Box<dyn Future<Output = Result<Message<Bytes>, Error>> + Send + Sync + '_>> {
        Box::pin(self.fut.take().expect("polled twice"))
    }
}

/// The resolver behind `net::client::validator::Connection`: hands out the
/// response staged for the query under test.
#[derive(Clone)]
struct FinalUp {
    staged: Arc<Mutex<Option<Resp>>>,
    seen_flags: Arc<Mutex<Option<(bool, bool)>>>, // (DO, CD) of the forwarded request
    /// That many calls fail with a transport error before the answer comes
    /// (the caller asks again on the same request object).
    fail_calls: Arc<Mutex<u32>>,
}

/// A request to `FinalUp` that can be asked again after a failed call.
struct FinalReq {
    up: FinalUp,
    req: RequestMessage<Vec<u8>>,
}

impl std::fmt::Debug for FinalReq {
    fn fmt(&self, f: &mut std::fmt::Formatter<'_>) -> std::fmt::Result {
        write!(f, "FinalReq")
    }
}

impl GetResponse for FinalReq {
    fn get_response(&mut self) -> Pin<Box<dyn Future<Output = Result<Message<Bytes>, Error>> + Send + Sync + '_>> {
        let staged = self.up.staged.clone();
        let seen = self.up.seen_flags.clone();
        let fails = self.up.fail_calls.clone();
        let req = self.req.clone();
        let fut = async move {
            {
                let mut f = fails.lock().unwrap();
                if *f > 0 {
                    *f -= 1;
                    sim::stat("fault.wrapper_upstream_call_failed");
                    return Err(Error::StreamReadTimeout);
                }
            }
            let msg = req.to_message().expect("request");
            *seen.lock().unwrap() = Some((msg.opt().is_some_and(|o| o.dnssec_ok()), msg.header().cd()));
            // (The wrapper may ask more than once - after a cancellation,
            // say -: the same answer every time.)
            let r = staged.lock().unwrap().clone().expect("a staged response");
            let mut bytes = to_message(&msg, &r);
            // An upstream's own AD bit means nothing to a validator.
            if sim::chance("final_up.lying_ad", 1, 2) {
                bytes[3] |= 0x20;
            }
            // Resolvers echo the CD bit of the query.
            if msg.header().cd() && sim::chance("final_up.echo_cd", 3, 4) {
                bytes[3] |= 0x10;
            }
            Ok(Message::from_octets(Bytes::from(bytes)).expect("message"))
        };
        Box::pin(SyncFut(Box::pin(fut)))
    }
}

impl SendRequest<RequestMessage<Vec<u8>>> for FinalUp {
    fn send_request(&self, req: RequestMessage<Vec<u8>>) -> Box<dyn GetResponse + Send + Sync> {
        Box::new(FinalReq { up: self.clone(), req })
    }
}

struct SyncFut<T>(Pin<Box<dyn Future<Output = T> + Send>>);
unsafe impl<T> Sync for SyncFut<T> {}
impl<T> Future for SyncFut<T> {
    type Output = T;
    fn poll(mut self: Pin<&mut Self>, cx: &mut std::task::Context<'_>) -> std::task::Poll<T> {
        self.0.as_mut().poll(cx)
    }
}

/// Apply a harmful mutation to a resolved response. Returns false if the
/// mutation had nothing to act on.
fn harm(r: &mut Resp, h: Harm, world: &World) -> bool {
    harm_in(r, h, world, false)
}

/// `infra`: the response answers one of the validator's own DS / DNSKEY
/// queries. Of a negative one (no DS here: an insecure delegation or a name
/// that is no zone cut) the validator reads the NSEC / NSEC3 records only, so
/// only harm done to those counts.
fn harm_in(r: &mut Resp, h: Harm, world: &World, infra: bool) -> bool {
    use domain::rdata::ZoneRecordData as D;
    let is_sig = |rec: &super::dnssec_world::SRec| rec.rtype() == Rtype::RRSIG;
    match h {
        Harm::None | Harm::TransportError | Harm::Nxdomain | Harm::ForgedNxdomainBelowCut | Harm::WildcardReplay | Harm::ForgeDnameCname | Harm::RootKeySwap | Harm::WildcardNsecReplay | Harm::DenyExisting(_) | Harm::DnameLoop | Harm::HostileNsec3 => false,
        Harm::ForeignSigner => {
            // One signed RRset of the answer section.
            let covered: Vec<(String, Rtype)> = r
                .answer
                .iter()
                .filter_map(|rec| match rec.data() {
                    D::Rrsig(s) => Some((lname(rec.owner()), s.type_covered())),
                    _ => None,
                })
                .filter(|k| world.foreign_sigs.contains_key(k))
                .collect();
            if covered.is_empty() {
                return false;
            }
            let (o, t) = covered[sim::draw("harm.which_sig", covered.len() as u64) as usize].clone();
            r.answer.retain(|rec| !matches!(rec.data(), D::Rrsig(s) if s.type_covered() == t && lname(rec.owner()) == o));
            r.answer.push(world.foreign_sigs[&(o, t)].clone());
            sim::stat("fault.rrsig_by_a_secure_zone_that_is_no_ancestor");
            true
        }
        Harm::DropRrsig => {
            // Drop every RRSIG of one signed RRset.
            let sec_is_answer = !r.answer.is_empty() && r.answer.iter().any(is_sig);
            let sec = if sec_is_answer { &mut r.answer } else { &mut r.authority };
            let covered: Vec<(String, Rtype)> = sec
                .iter()
                .filter_map(|rec| match rec.data() {
                    D::Rrsig(s) => Some((lname(rec.owner()), s.type_covered())),
                    _ => None,
                })
                .filter(|(_, t)| sec_is_answer || !infra || matches!(*t, Rtype::NSEC | Rtype::NSEC3))
                .collect();
            if covered.is_empty() {
                return false;
            }
            let (o, t) = covered[sim::draw("harm.which_sig", covered.len() as u64) as usize].clone();
            sec.retain(|rec| !matches!(rec.data(), D::Rrsig(s) if s.type_covered() == t && lname(rec.owner()) == o));
            true
        }
        Harm::DropProofRecord => {
            if r.proof.is_empty() {
                return false;
            }
            let (o, t) = r.proof[sim::draw("harm.which_proof", r.proof.len() as u64) as usize].clone();
            ev!("    dropping proof record {} {} (proof set: {:?})", o, t, r.proof);
            let before = r.authority.len();
            r.authority.retain(|rec| !(lname(rec.owner()) == o && (rec.rtype() == t || matches!(rec.data(), D::Rrsig(s) if s.type_covered() == t))));
            before != r.authority.len()
        }
        Harm::DropAnswerRrset => {
            // Only meaningful when more than one RRset is in the answer
            // (CNAME chains): drop the first link.
            let first = match r.answer.iter().find(|rec| !is_sig(rec)) {
                Some(f) => (lname(f.owner()), f.rtype()),
                None => return false,
            };
            let distinct: std::collections::BTreeSet<(String, Rtype)> = r.answer.iter().filter(|rec| !is_sig(rec)).map(|rec| (lname(rec.owner()), rec.rtype())).collect();
            if distinct.len() < 2 {
                return false;
            }
            r.answer.retain(|rec| !(lname(rec.owner()) == first.0 && (rec.rtype() == first.1 || matches!(rec.data(), D::Rrsig(s) if s.type_covered() == first.1))));
            true
        }
        Harm::ReplaceRdata => {
            if infra && !r.answer.iter().any(|rec| !is_sig(rec)) {
                return false; // (the SOA of a negative DS response is not looked at)
            }
            let sec = if r.answer.iter().any(|rec| !is_sig(rec)) { &mut r.answer } else { &mut r.authority };
            for rec in sec.iter_mut() {
                let new = match rec.data() {
                    D::A(_) => Some(D::A(domain::rdata::A::new(std::net::Ipv4Addr::new(6, 6, 6, 6)))),
                    D::Txt(_) => Some(D::Txt(domain::rdata::Txt::<Bytes>::build_from_slice(b"forged").unwrap())),
                    D::Ds(ds) => {
                        let mut d = ds.digest().to_vec();
                        d[0] ^= 0xff;
                        Some(D::Ds(domain::rdata::Ds::new(ds.key_tag(), ds.algorithm(), ds.digest_type(), Bytes::from(d)).unwrap()))
                    }
                    D::Dnskey(k) => {
                        let mut pk = k.public_key().to_vec();
                        pk[0] ^= 0xff;
                        Some(D::Dnskey(domain::rdata::Dnskey::new(k.flags(), k.protocol(), k.algorithm(), Bytes::from(pk)).unwrap()))
                    }
                    D::Soa(s) => Some(D::Soa(domain::rdata::Soa::new(s.mname().clone(), s.rname().clone(), domain::base::Serial(s.serial().into_int().wrapping_add(7)), s.refresh(), s.retry(), s.expire(), s.minimum()))),
                    _ => None,
                };
                if let Some(d) = new {
                    *rec = domain::base::Record::new(rec.owner().clone(), rec.class(), rec.ttl(), d);
                    return true;
                }
            }
            false
        }
        Harm::FlipSignature | Harm::WrongSigner | Harm::WrongKeyTag | Harm::ExtendSigValidity => {
            let in_answer = r.answer.iter().any(is_sig);
            let sec = if in_answer { &mut r.answer } else { &mut r.authority };
            let idxs: Vec<usize> = sec.iter().enumerate().filter(|(_, rec)| is_sig(rec) && (in_answer || !infra || matches!(rec.data(), D::Rrsig(s) if matches!(s.type_covered(), Rtype::NSEC | Rtype::NSEC3)))).map(|(i, _)| i).collect();
            if idxs.is_empty() {
                return false;
            }
            let i = idxs[sim::draw("harm.which_sig", idxs.len() as u64) as usize];
            let rec = sec[i].clone();
            if let D::Rrsig(s) = rec.data() {
                let mut sig = s.signature().to_vec();
                let mut signer = s.signer_name().clone();
                let mut tag = s.key_tag();
                let mut exp = s.expiration();
                match h {
                    Harm::FlipSignature => {
                        let p = sim::draw("harm.sig_byte", sig.len() as u64) as usize;
                        sig[p] ^= 1 << sim::draw("harm.sig_bit", 8);
                    }
                    Harm::WrongSigner => {
                        signer = super::dnssec_world::sname(if lname(&signer) == "tld." { "zone.tld." } else { "tld." });
                    }
                    Harm::WrongKeyTag => tag = tag.wrapping_add(1),
                    _ => exp = domain::rdata::dnssec::Timestamp::from(world.expiration.wrapping_add(400 * 86_400)),
                }
                let ns = domain::rdata::Rrsig::new(s.type_covered(), s.algorithm(), s.labels(), s.original_ttl(), exp, s.inception(), tag, signer, Bytes::from(sig)).unwrap();
                sec[i] = domain::base::Record::new(rec.owner().clone(), rec.class(), rec.ttl(), D::Rrsig(ns));
                return true;
            }
            false
        }
        Harm::StripDs => {
            let before = r.answer.len();
            r.answer.retain(|rec| !(rec.rtype() == Rtype::DS || matches!(rec.data(), D::Rrsig(s) if s.type_covered() == Rtype::DS)));
            before != r.answer.len()
        }
    }
}

/// Transformations a resolver legitimately applies; must never hurt.
fn legit_transform(r: &mut Resp) {
    if sim::chance("legit.reorder", 1, 3) {
        r.answer.reverse();
        sim::stat("probe.legit_reorder");
    }
    if sim::chance("legit.reorder_auth", 1, 3) {
        r.authority.reverse();
    }
    if sim::chance("legit.ttl_decrement", 1, 3) {
        let dec = 1 + sim::draw("legit.ttl_dec", 200) as u32;
        for rec in r.answer.iter_mut().chain(r.authority.iter_mut()) {
            let t = rec.ttl().as_secs().saturating_sub(dec);
            rec.set_ttl(domain::base::Ttl::from_secs(t));
        }
        sim::stat("probe.legit_ttl_decrement");
    }
}

impl SendRequest<RequestMessage<Vec<u8>>> for Upstream {
    fn send_request(&self, req: RequestMessage<Vec<u8>>) -> Box<dyn GetResponse + Send + Sync> {
        let st = self.st.clone();
        let fut = async move {
            let msg = req.to_message().expect("request");
            let q = msg.first_question().expect("question");
            let qname = lname(&q.qname());
            let qtype = q.qtype();
            let (world, h) = {
                let mut g = st.lock().unwrap();
                g.infra_queries += 1;
                if g.infra_harm.is_some() && g.infra_harm_skip > 0 {
                    g.infra_harm_skip -= 1;
                    (g.world, None)
                } else {
                    (g.world, g.infra_harm.take())
                }
            };
            let w = &worlds()[world];
            ev!("upstream asked {} {}", qname, qtype);
            let lat = sim::draw("up.latency_ms", 5);
            if lat > 0 {
                tokio::time::sleep(Duration::from_millis(lat)).await;
                sim::sync_clock();
            }
            let mut r = w.resolve(&qname, qtype);
            let mut applied = false;
            if qname == "." && qtype == Rtype::DNSKEY && st.lock().unwrap().root_key_swap {
                if let Some(evil) = w.evil_root_dnskey() {
                    r = evil;
                    applied = true;
                    st.lock().unwrap().infra_harm_applied += 1;
                    sim::stat("fault.infra_response_tampered");
                }
            }
            if let Some(h) = h {
                match h {
                    Harm::TransportError => {
                        st.lock().unwrap().infra_harm_applied += 1;
                        ev!("upstream {} {} -> transport error", qname, qtype);
                        sim::stat("fault.infra_transport_error");
                        return Err(Error::StreamReadTimeout);
                    }
                    Harm::Nxdomain => {
                        r = Resp { rcode_nx: true, ..Default::default() };
                        applied = true;
                    }
                    Harm::HostileNsec3 if qtype == Rtype::DS => {
                        // "No DS here", says an NSEC3 record with an owner
                        // label that is no hash.
                        r = Resp { authority: w.hostile_nsec3.clone(), ..Default::default() };
                        applied = true;
                        sim::stat("fault.nsec3_owner_label_that_is_no_hash");
                    }
                    _ => applied = harm_in(&mut r, h, w, true),
                }
                if applied {
                    st.lock().unwrap().infra_harm_applied += 1;
                    sim::stat("fault.infra_response_tampered");
                } else {
                    // Keep it for the next infrastructure response.
                    st.lock().unwrap().infra_harm = Some(h);
                }
            }
            legit_transform(&mut r);
            ev!("upstream {} {} -> {} answer / {} authority records{}", qname, qtype, r.answer.len(), r.authority.len(), if applied { format!(" TAMPERED {:?}", h.unwrap_or(Harm::RootKeySwap)) } else { String::new() });
            let bytes = to_message(&msg, &r);
            Ok(Message::from_octets(Bytes::from(bytes)).expect("message"))
        };
        Box::new(UpReq {
            fut: Some(Box::pin(SyncFut(Box::pin(fut)))),
        })
    }
}

// ---------------------------------------------------------------- scenario

/// A file that is read in pieces of any size, with reads that are
/// interrupted (EINTR) in between, and that may fail for good at some offset.
struct PiecemealReader {
    data: Vec<u8>,
    pos: usize,
    fail_at: Option<usize>,
    /// (piece size, interrupted first) per read, used round robin.
    plan: Vec<(usize, bool)>,
    reads: usize,
}

impl std::io::Read for PiecemealReader {
    fn read(&mut self, buf: &mut [u8]) -> std::io::Result<usize> {
        if self.fail_at.is_some_and(|at| self.pos >= at) {
            return Err(std::io::Error::new(std::io::ErrorKind::Other, "input/output error"));
        }
        let (piece, eintr) = self.plan[(self.reads / 2) % self.plan.len()];
        self.reads += 1;
        if eintr && self.reads % 2 == 1 {
            return Err(std::io::ErrorKind::Interrupted.into());
        }
        let left = self.fail_at.unwrap_or(self.data.len()).min(self.data.len()) - self.pos;
        let n = left.min(buf.len()).min(piece);
        buf[..n].copy_from_slice(&self.data[self.pos..self.pos + n]);
        self.pos += n;
        Ok(n)
    }
}

pub struct ValidatorScn;

impl Scenario for ValidatorScn {
    fn name(&self) -> &'static str {
        "validator"
    }
    fn property(&self) -> &'static str {
        P
    }
    fn max_vtime(&self) -> Duration {
        Duration::from_secs(400 * 86_400)
    }
    fn livelock_is_violation(&self) -> bool {
        true
    }
    fn components(&self) -> (Vec<&'static str>, Vec<&'static str>) {
        (
            vec![
                "dnssec::validator::context::ValidationContext (validate_msg, node cache, signature caches)",
                "dnssec::validator::{group, nsec, base, anchor, utilities}",
                "world built with dnssec::sign::{sign_zone, generate_nsecs, generate_nsec3s, sign_rrset}, crypto::sign::KeyPair (ring Ed25519 from fixed seeds)",
                "moka caches on the interposed clock",
            ],
            vec![
                "authoritative/full-resolver responder over a 3-level signed hierarchy with an insecure delegation (NSEC, NSEC3 with/without salt and iterations, opt-out variants)",
                "adversarial upstream: response mutations and transport errors",
                "virtual wall clock plan (valid, expired, not yet valid, jumps between queries)",
                "soundness/completeness oracle",
            ],
        )
    }
    fn rule(&self) -> &'static str {
        "per run one of 4 worlds (leaf zone NSEC / NSEC3 plain / NSEC3 salted+iterated / NSEC3 opt-out) and one validation context (cold caches); 1-6 queries drawn from positive, wildcard, NODATA, empty non-terminal, NXDOMAIN, CNAME chains (in-zone, dangling, into the insecure zone), names below the insecure delegation, DS at cuts; each query's final response and the DS/DNSKEY responses fetched on its behalf may be harmed (RRSIG or proof record dropped, rdata replaced, signature bit flipped, signer/key tag/expiration rewritten, DS stripped, answer link dropped, forged NXDOMAIN, transport error) or legitimately transformed (reorder, TTL decrement); the wall clock sits inside the signature validity window, before it, after it, or jumps between queries."
    }
    fn assumptions(&self) -> Vec<&'static str> {
        vec![
            "Ed25519 keys from fixed seeds (ring's ECDSA nonces use a raw system call the simulator does not intercept)",
            "the responder stub is validated by the completeness oracle: fault-free runs must be Secure/Insecure as the world says",
            "a harmful mutation must never end in Secure; which non-secure state is reported (Bogus/Indeterminate/Insecure/error) is not compared",
        ]
    }
    fn nontrivial(&self, stats: &std::collections::BTreeMap<&'static str, u64>) -> bool {
        stats.iter().any(|(k, v)| *v > 0 && k.starts_with("fault."))
    }
    fn run(&self, tier: Tier) -> Pin<Box<dyn Future<Output = ()>>> {
        Box::pin(run(tier))
    }
}

const QUERIES: [(&str, Rtype, &str); 40] = [
    ("www.zone.tld.", Rtype::A, "positive"),
    ("www.zone.tld.", Rtype::TXT, "positive"),
    ("zone.tld.", Rtype::SOA, "positive"),
    ("zone.tld.", Rtype::DNSKEY, "positive"),
    ("mx.zone.tld.", Rtype::MX, "positive"),
    ("www.zone.tld.", Rtype::AAAA, "nodata"),
    ("txt.zone.tld.", Rtype::A, "nodata"),
    ("ent.zone.tld.", Rtype::A, "nodata-ent"),
    ("a.b.zone.tld.", Rtype::TXT, "nodata-ent"),
    ("nope.zone.tld.", Rtype::A, "nxdomain"),
    ("a.nope.zone.tld.", Rtype::A, "nxdomain"),
    ("zzz.www.zone.tld.", Rtype::A, "nxdomain"),
    ("x.sub.wild.zone.tld.", Rtype::A, "nxdomain"),
    ("y.x.sub.wild.zone.tld.", Rtype::TXT, "nxdomain"),
    ("foo.wild.zone.tld.", Rtype::A, "wildcard"),
    ("bar.baz.wild.zone.tld.", Rtype::TXT, "wildcard"),
    ("foo.wild.zone.tld.", Rtype::MX, "wildcard-nodata"),
    ("sub.wild.zone.tld.", Rtype::AAAA, "positive"),
    ("foo.wc.zone.tld.", Rtype::A, "wildcard-cname"),
    ("foo.wc.zone.tld.", Rtype::AAAA, "wildcard-cname-nodata"),
    ("x.dn.zone.tld.", Rtype::A, "dname"),
    ("nope.dn.zone.tld.", Rtype::A, "dname-nxdomain"),
    ("alias.zone.tld.", Rtype::A, "cname"),
    ("alias2.zone.tld.", Rtype::A, "cname"),
    ("dangling.zone.tld.", Rtype::A, "cname-nxdomain"),
    ("ext.zone.tld.", Rtype::A, "cname-insecure"),
    ("host.unsigned.tld.", Rtype::A, "insecure"),
    ("nope.unsigned.tld.", Rtype::A, "insecure-nxdomain"),
    ("x.la.unsigned.tld.", Rtype::A, "insecure-nxdomain"),
    ("www.z1.ent.tld.", Rtype::A, "positive-deep"),
    ("www.z2.ent.tld.", Rtype::A, "positive-deep"),
    ("nope.z2.ent.tld.", Rtype::A, "nxdomain"),
    ("host.ed.tld.", Rtype::A, "insecure"),
    // An unsigned DNAME in the insecure zone that leads into the secure one:
    // the signed data at the end does not make the answer secure.
    ("www.dn.unsigned.tld.", Rtype::A, "insecure-dname"),
    ("nope.evil.tld.", Rtype::A, "nxdomain"),
    ("www.island.tld.", Rtype::A, "island"),
    ("txt.island.tld.", Rtype::TXT, "island"),
    ("nope.island.tld.", Rtype::A, "island-nxdomain"),
    ("plain.tld.", Rtype::TXT, "positive-tld"),
    ("other.", Rtype::TXT, "positive-root"),
];

/// Query classes whose proof contains an NSEC3 that *covers* the next closer
/// name (in the opt-out world such a proof cannot be Secure).
fn next_closer_covered(class: &str) -> bool {
    matches!(class, "nxdomain" | "wildcard" | "wildcard-nodata" | "cname-nxdomain" | "dname-nxdomain" | "wildcard-cname" | "wildcard-cname-nodata")
}

async fn run(_tier: Tier) {
    let world_idx = sim::draw("world", 4) as usize;
    let mut w = &worlds()[world_idx];
    let up = Upstream {
        st: Arc::new(Mutex::new(UpState {
            world: world_idx,
            ..Default::default()
        })),
    };
    // The trust anchor: the root's DNSKEY, its DS, or both.
    let mut ta = TrustAnchors::empty();
    let ta_kind = sim::draw("cfg.trust_anchor", 4);
    let ta_texts: Vec<&String> = [(ta_kind != 1).then_some(&w.trust_anchor_text), (ta_kind == 1 || ta_kind == 2).then_some(&w.trust_anchor_ds_text)].into_iter().flatten().collect();
    // A quarter of the runs the anchors come out of a file (`from_reader`)
    // that is read in pieces of any size, with interrupted reads in between
    // - and now and then fails for good somewhere: then there are no
    // anchors from it at all (never the ones read so far), and the run
    // carries on with anchors given as text.
    let mut from_file = false;
    if sim::chance("cfg.trust_anchor_from_reader", 1, 4) {
        sim::stat("probe.trust_anchors_from_a_reader");
        let text: String = ta_texts.iter().map(|t| format!("{}\n", t)).collect();
        // (The text's length depends on the keys - a key tag has three to
        // five digits - and the keys differ from process to process: the
        // number of draws must not depend on it.)
        let fail_at = if sim::chance("anchor_file.read_error", 1, 5) { Some((sim::draw("anchor_file.read_error_at_permille", 1001) as usize * text.len()) / 1000) } else { None };
        let plan: Vec<(usize, bool)> = (0..8).map(|_| (1 + sim::draw("anchor_file.piece", 64) as usize, sim::chance("anchor_file.eintr", 1, 5))).collect();
        let reader = PiecemealReader { data: text.into_bytes(), pos: 0, fail_at, plan, reads: 0 };
        match (TrustAnchors::from_reader(reader), fail_at) {
            (Ok(t), None) => {
                ta = t;
                from_file = true;
            }
            (Err(_), Some(_)) => sim::stat("fault.trust_anchor_file_read_error"),
            (Ok(_), Some(at)) => {
                sim::violation(P, "anchors", "anchors-from-a-file-that-could-not-be-read".to_string(), format!("reading the trust anchor file failed after {} octets and a set of trust anchors came back all the same", at));
                return;
            }
            (Err(e), None) => {
                sim::violation(P, "anchors", "anchor-file-refused".to_string(), format!("a well-formed trust anchor file read in pieces was refused: {:?}", e));
                return;
            }
        }
    }
    for text in ta_texts.iter().filter(|_| !from_file) {
        if let Err(e) = ta.add_u8(text.as_bytes()) {
            sim::harness_error(format!("trust anchor: {:?}", e));
            return;
        }
    }
    if ta_kind == 1 || ta_kind == 2 {
        sim::stat("probe.trust_anchor_given_as_ds");
    }
    // Half of the runs a second, nested anchor: the key of `island.tld.`, a
    // signed zone whose delegation has no DS. With it the island's data is
    // secure (the innermost anchor counts); without it, insecure.
    let island_anchor = sim::chance("cfg.island_anchor", 1, 2);
    if island_anchor {
        sim::stat("probe.nested_trust_anchor");
        if let Err(e) = ta.add_u8(w.island_anchor_text.as_bytes()) {
            sim::harness_error(format!("island trust anchor: {:?}", e));
            return;
        }
    }
    // Tuning knobs per run: tiny caches make the miss / eviction paths run,
    // short validities make cached nodes expire between queries.
    let mut cfg = Config::new();
    let mut iter_insecure_limit = 100u16;
    let mut bogus_validity_s = 30u64;
    if sim::chance("cfg.tuned", 1, 2) {
        cfg.set_max_node_cache(*sim::pick("cfg.node_cache", &[100u64, 1, 2]));
        cfg.set_max_nsec3_cache(*sim::pick("cfg.nsec3_cache", &[100u64, 1]));
        cfg.set_max_isig_cache(*sim::pick("cfg.isig_cache", &[1000u64, 1, 3]));
        cfg.set_max_usig_cache(*sim::pick("cfg.usig_cache", &[1000u64, 1, 3]));
        cfg.set_max_validity(Duration::from_secs(*sim::pick("cfg.max_validity", &[604_800u64, 60, 3600])));
        bogus_validity_s = *sim::pick("cfg.max_bogus_validity", &[30u64, 1, 300]);
        cfg.set_max_bogus_validity(Duration::from_secs(bogus_validity_s));
        cfg.set_bad_signatures(*sim::pick("cfg.bad_signatures", &[1u8, 2, 8]));
        cfg.set_max_cname_dname(*sim::pick("cfg.max_cname_dname", &[11u8, 3, 100]));
        iter_insecure_limit = *sim::pick("cfg.nsec3_iter_insecure", &[100u16, 100, 3]);
        cfg.set_nsec3_iter_insecure(iter_insecure_limit);
        sim::stat("probe.validator_config_tuned");
    }
    // World 2 hashes NSEC3 with 5 iterations: above the insecure limit its
    // denials are not checked and count as Insecure.
    let nsec3_unchecked = world_idx == 2 && iter_insecure_limit < 5;
    let vc = Arc::new(ValidationContext::with_config(ta, up.clone(), cfg));
    // A third of the runs go through the client-side wrapper and observe
    // the AD bit / SERVFAIL it produces instead of the validation state.
    let via_wrapper = sim::chance("via_wrapper", 1, 3);
    let final_up = FinalUp {
        staged: Arc::new(Mutex::new(None)),
        seen_flags: Arc::new(Mutex::new(None)),
        fail_calls: Arc::new(Mutex::new(0)),
    };
    let wrapper = domain::net::client::validator::Connection::<FinalUp, Vec<u8>, Upstream>::new(final_up.clone(), vc.clone());
    let adversarial = sim::draw("adversarial", 4) != 0;
    // Clock plan: offset of the wall clock relative to the signing epoch.
    let day = 86_400i64 * 1_000_000_000;
    // Plans 9-12 put every validation of the run exactly at a boundary second
    // of the signatures' validity (RFC 4035 5.3.1: inception <= now <=
    // expiration): the last invalid second, the first valid one, the last
    // valid one, the first invalid one.
    // Plans 13 and 14 do the same at the expiration of the one signature that
    // ends early (zone.tld's DS RRset); plan 15 lets that moment pass between
    // the first and the second validation (warm caches, real passing of time).
    // Plan 16: the first validation comes a second before the signatures'
    // inception (a validator whose clock is a little behind the signer's);
    // by the second validation, after what may be remembered as bogus has
    // run out, the inception has passed.
    let clock_plan = if adversarial { sim::draw("clock.plan", 17) } else { 0 };
    // The last second at which the chain to `name` is valid.
    let (w_ds_expiration, w_expiration) = (w.ds_expiration, w.expiration);
    let eff_expiration = move |name: &str| -> u64 {
        // (names below dn.unsigned.tld. are redirected into zone.tld.)
        if name.to_ascii_lowercase().ends_with("zone.tld.") || name.to_ascii_lowercase().ends_with("dn.unsigned.tld.") {
            w_ds_expiration.min(w_expiration) as u64
        } else {
            w_expiration as u64
        }
    };
    // The world moves on in some runs: between two validations the island's
    // delegation becomes a secure one (its DS appears in the tld zone). The
    // proof that it was insecure - an NSEC of the tld zone, 300 s - has run
    // out by the time of the next validation, so what was rightly Insecure
    // before is Secure from then on.
    let ds_published_at = if !island_anchor && sim::chance("world.island_ds_gets_published", 1, 6) { Some(1 + sim::draw("world.island_ds_at", 2)) } else { None };
    let mut ds_published = false;
    let base_off = match clock_plan {
        5 => 40 * day,  // all signatures expired
        6 => -3 * day,  // not yet valid
        _ => 0,
    };
    sim::set_wall_offset_ns(base_off);
    let n_queries = 1 + sim::draw("n_queries", 6);
    // Once an infrastructure response was tampered with, the validator may
    // legitimately remember the resulting bogus delegation for a while
    // (RFC 4035 section 4.7), so later clean answers need not be Secure.
    // (A tampered DS / DNSKEY response may leave a bogus node of whatever
    // lifetime behind; a *failed request* - a transport error - is remembered
    // for the configured bogus validity and no longer: after that the chain
    // has to validate again.)
    let mut poisoned_for_good = false;
    let mut poisoned_until_ns = 0u64;
    let mut cache_poisoned;
    for qi in 0..n_queries {
        if sim::stopped() {
            return;
        }
        // A jump past the expiration between queries (warm caches).
        if clock_plan == 7 && qi == 1 + sim::draw("clock.jump_at", 2) {
            sim::set_wall_offset_ns(40 * day);
            sim::stat("fault.clock_jump_past_expiration");
            ev!("wall clock jumps 40 days ahead");
        }
        // Forty days really pass (monotonic and wall clock together).
        if clock_plan == 8 && qi == 1 + sim::draw("clock.sleep_at", 2) {
            sim::stat("fault.forty_days_pass");
            ev!("40 days pass");
            sim::sleep_ms(40 * 86_400 * 1000).await;
        }
        // Let cached entries age a little (virtual time).
        if sim::chance("gap", 1, 3) {
            sim::sleep_ms(1000 * (1 + sim::draw("gap.s", 4000))).await;
        } else {
            step().await;
        }
        if ds_published_at == Some(qi) {
            sim::stat("fault.insecure_delegation_becomes_secure_between_validations");
            let s = 400 + sim::draw("world.island_ds_after_s", 2600);
            ev!("{} s pass; meanwhile the DS of island.tld. is published", s);
            sim::sleep_ms(1000 * s).await;
            w = &worlds()[world_idx + 4];
            up.st.lock().unwrap().world = world_idx + 4;
            ds_published = true;
        }
        let (qname, qtype, class) = if ds_published_at.is_some() && sim::chance("query.island", 2, 3) {
            QUERIES[35 + sim::draw("query.island_which", 3) as usize]
        } else {
            QUERIES[sim::draw("query", QUERIES.len() as u64) as usize]
        };
        // The response handed to validate_msg.
        let mut r = w.resolve(qname, qtype);
        if r.island && !island_anchor && !ds_published {
            r.insecure = true;
        }
        let final_harm = if adversarial {
            *sim::pick(
                "harm.final",
                &[
                    Harm::None,
                    Harm::None,
                    Harm::None,
                    Harm::DropRrsig,
                    Harm::DropProofRecord,
                    Harm::ReplaceRdata,
                    Harm::FlipSignature,
                    Harm::WrongSigner,
                    Harm::WrongKeyTag,
                    Harm::ExtendSigValidity,
                    Harm::DropAnswerRrset,
                    Harm::ForgedNxdomainBelowCut,
                    Harm::WildcardReplay,
                    Harm::ForgeDnameCname,
                    Harm::RootKeySwap,
                    Harm::WildcardNsecReplay,
                    Harm::ForeignSigner,
                    Harm::DenyExisting(0),
                    Harm::DenyExisting(1),
                    Harm::DenyExisting(2),
                    Harm::DenyExisting(3),
                    Harm::DenyExisting(4),
                    Harm::DenyExisting(5),
                    Harm::DnameLoop,
                    Harm::HostileNsec3,
                ],
            )
        } else {
            Harm::None
        };
        let final_harmed = if final_harm == Harm::ForgedNxdomainBelowCut {
            match w.forged_nxdomain_below_cut(qname) {
                Some(f) => {
                    let insecure = r.insecure;
                    r = f;
                    r.insecure = insecure;
                    true
                }
                None => false,
            }
        } else if final_harm == Harm::RootKeySwap {
            match w.forged_root_answer(qname, qtype) {
                Some(f) => {
                    r = f;
                    up.st.lock().unwrap().root_key_swap = true;
                    sim::stat("fault.root_key_with_colliding_tag");
                    true
                }
                None => false,
            }
        } else if final_harm == Harm::ForgeDnameCname {
            match w.forged_dname_cname(qname, qtype) {
                Some(f) => {
                    r = f;
                    sim::stat("fault.dname_cname_redirected");
                    true
                }
                None => false,
            }
        } else if final_harm == Harm::HostileNsec3 {
            match w.forged_hostile_nsec3(qname, qtype) {
                Some(f) => {
                    r = f;
                    sim::stat("fault.nsec3_owner_label_that_is_no_hash");
                    true
                }
                None => false,
            }
        } else if final_harm == Harm::DnameLoop {
            match w.forged_dname_loop(qname) {
                Some(f) => {
                    r = f;
                    sim::stat("fault.dname_cycle");
                    true
                }
                None => false,
            }
        } else if final_harm == Harm::WildcardNsecReplay {
            match w.forged_wildcard_nsec_nodata(qname, qtype) {
                Some(f) => {
                    r = f;
                    sim::stat("fault.wildcard_nsec_reowned_as_nodata_proof");
                    true
                }
                None => false,
            }
        } else if let Harm::DenyExisting(mode) = final_harm {
            match w.forged_denial_of_existing(qname, qtype, mode) {
                Some(f) => {
                    r = f;
                    sim::stat(["fault.nodata_with_the_names_own_nsec", "fault.nxdomain_with_the_names_own_nsec", "fault.nodata_at_child_apex_with_parent_side_nsec", "fault.nxdomain_with_the_nsec3_that_ends_at_the_name", "fault.nxdomain_with_a_child_zones_last_nsec", "fault.nodata_at_an_alias_owner_with_the_aliass_own_nsec"][mode as usize]);
                    true
                }
                None => false,
            }
        } else if final_harm == Harm::WildcardReplay {
            match w.forged_wildcard_replay(qname, qtype) {
                Some(f) => {
                    r = f;
                    sim::stat("fault.wildcard_replayed_below_blocking_name");
                    true
                }
                None => false,
            }
        } else {
            harm(&mut r, final_harm, w)
        };
        if final_harmed {
            sim::stat("fault.final_response_tampered");
        }
        let infra_harm = if adversarial && sim::chance("harm.infra", 1, 3) {
            Some(*sim::pick("harm.infra_kind", &[Harm::DropRrsig, Harm::ReplaceRdata, Harm::FlipSignature, Harm::StripDs, Harm::TransportError, Harm::WrongKeyTag, Harm::Nxdomain, Harm::ExtendSigValidity, Harm::HostileNsec3]))
        } else {
            None
        };
        {
            let mut g = up.st.lock().unwrap();
            g.infra_harm = infra_harm;
            g.infra_harm_skip = if infra_harm.is_some() { sim::draw("harm.infra_skip", 3) as u32 } else { 0 };
            g.infra_harm_applied = 0;
            g.infra_queries = 0;
        }
        legit_transform(&mut r);
        // A left-over expired RRSIG next to the valid one (re-signing
        // overlap) is legitimate and within the default bad-signature
        // budget of the validator.
        // (One extra signature that does not verify is within every
        // bad-signature budget; two are not.)
        if sim::chance("legit.sig_of_malformed_key", 1, 2) && w.add_sig_naming_malformed_key(&mut r) {
            sim::stat("probe.rrsig_naming_a_malformed_key_present");
        } else if sim::chance("legit.stale_sig", 1, 4) && w.add_stale_sig(&mut r, sim::draw("legit.stale_which", 8)) {
            sim::stat("probe.legit_stale_rrsig_present");
        }
        let mut mb = MessageBuilder::new_vec();
        mb.header_mut().set_rd(true);
        let mut qb = mb.question();
        // The question as the caller spelled it: now and then with letters
        // in upper case (names compare, hash and verify in lower case).
        let spelled: String = if sim::chance("query.mixed_case", 1, 4) {
            sim::stat("probe.question_name_in_mixed_case");
            qname.chars().enumerate().map(|(i, c)| if (i + qi as usize) % 3 == 0 { c.to_ascii_uppercase() } else { c }).collect()
        } else {
            qname.to_string()
        };
        qb.push((Name::<Vec<u8>>::from_chars(spelled.chars()).unwrap(), qtype)).unwrap();
        let req_msg = qb.into_message();
        let bytes = to_message(&req_msg, &r);
        let mut msg = Message::from_octets(bytes).expect("message");
        if clock_plan == 15 && qi == 1 {
            sim::stat("fault.ds_signature_expires_between_validations");
            ev!("five seconds pass: the RRSIG over zone.tld's DS RRset expires");
            sim::sleep_ms(5000).await;
        }
        if clock_plan == 16 && qi == 1 {
            sim::stat("fault.signature_inception_passes_between_validations");
            ev!("{} s pass: the signatures' inception is in the past now", bogus_validity_s + 5);
            sim::sleep_ms(1000 * (bogus_validity_s + 5)).await;
        }
        if (9..=14).contains(&clock_plan) || (clock_plan == 15 && qi == 0) || clock_plan == 16 {
            let target: i128 = match clock_plan {
                16 if qi == 0 => w.inception as i128 - 1,
                16 => w.inception as i128 + 10,
                9 => w.inception as i128 - 1,
                10 => w.inception as i128,
                11 => w.expiration as i128,
                12 => w.expiration as i128 + 1,
                13 => w.ds_expiration as i128,
                14 => w.ds_expiration as i128 + 1,
                _ => w.ds_expiration as i128 - 2,
            };
            // 0.2 s into that second, so that the whole validation (a few
            // upstream latencies) stays inside it.
            let off = target * 1_000_000_000 + 200_000_000 - (sim::EPOCH_BASE as i128 * 1_000_000_000 + sim::now_ns() as i128);
            sim::set_wall_offset_ns(off as i64);
            sim::stat("fault.clock_at_validity_boundary");
        }
        let wall = sim::wall_secs();
        let in_window = wall >= w.inception as u64 && wall <= eff_expiration(qname);
        ev!("validate #{} {} {} ({}) final_harm={:?} applied={} infra_harm={:?} wall-epoch={}d", qi, qname, qtype, class, final_harm, final_harmed, infra_harm, (wall as i64 - sim::EPOCH_BASE as i64) / 86_400);
        // (DO, AD, CD) of the caller's request when going through the wrapper.
        let caller_flags = if via_wrapper {
            match sim::draw("wrapper.flags", 6) {
                0 | 1 => (true, false, false),
                2 => (false, true, false),
                3 => (true, true, false),
                4 => (false, false, false),
                _ => (sim::chance("wrapper.cd_do", 1, 2), false, true),
            }
        } else {
            (false, false, false)
        };
        // Companions: untampered validations of other queries running
        // concurrently on the same context (shared node and signature
        // caches, concurrent DS/DNSKEY fetches). Only when no infrastructure
        // response is to be harmed, so that every result stays attributable.
        let n_comp = if infra_harm.is_none() && final_harm != Harm::RootKeySwap && sim::chance("companions", 1, 3) { 1 + sim::draw("companions.n", 3) as usize } else { 0 };
        let mut comp_jobs: Vec<(&str, Rtype, &str, bool, Message<Vec<u8>>)> = Vec::new();
        for _ in 0..n_comp {
            let (cq, ct, cc) = QUERIES[sim::draw("companions.query", QUERIES.len() as u64) as usize];
            let mut cr = w.resolve(cq, ct);
            if cr.island && !island_anchor && !ds_published {
                cr.insecure = true;
            }
            legit_transform(&mut cr);
            let mut mb = MessageBuilder::new_vec();
            mb.header_mut().set_rd(true);
            let mut qb = mb.question();
            qb.push((Name::<Vec<u8>>::from_chars(cq.chars()).unwrap(), ct)).unwrap();
            let bytes = to_message(&qb.into_message(), &cr);
            comp_jobs.push((cq, ct, cc, cr.insecure, Message::from_octets(bytes).expect("message")));
        }
        if n_comp > 0 {
            sim::stat("probe.concurrent_validations");
            ev!("  with {} concurrent untampered validations: {:?}", n_comp, comp_jobs.iter().map(|j| (j.0, j.1)).collect::<Vec<_>>());
        }
        let mut comp_msgs: Vec<Message<Vec<u8>>> = comp_jobs.iter().map(|j| j.4.clone()).collect();
        let comp_fut = futures_util::future::join_all(comp_msgs.iter_mut().map(|m| vc.validate_msg::<Vec<u8>, Vec<u8>>(m)));
        let mut wrapped: Option<Result<Message<Bytes>, Error>> = None;
        let main_fut = async {
          if via_wrapper {
            sim::stat("probe.via_client_wrapper");
            *final_up.staged.lock().unwrap() = Some(r.clone());
            let mut creq = RequestMessage::new(req_msg.clone()).expect("request");
            if caller_flags.0 {
                creq.set_dnssec_ok(true);
            }
            creq.header_mut().set_ad(caller_flags.1);
            creq.header_mut().set_cd(caller_flags.2);
            let mut g = SendRequest::send_request(&wrapper, creq);
            // The caller may drop a pending get_response() and ask again
            // (the trait documents it as cancel safe): same request, same
            // verdict.
            // Or the resolver behind the wrapper fails a call or two (a
            // timeout on its transport) and the caller asks again on the
            // same request: the answer that comes then is validated like
            // any other.
            let flaky = sim::chance("wrapper.upstream_call_fails", 1, 4);
            if flaky {
                *final_up.fail_calls.lock().unwrap() = 1 + sim::draw("wrapper.failed_calls", 2) as u32;
            }
            let out = if flaky {
                let mut tries = 0;
                loop {
                    let r = g.get_response().await;
                    tries += 1;
                    if r.is_ok() || tries >= 4 {
                        break r;
                    }
                }
            } else if sim::chance("wrapper.cancel", 1, 4) {
                let mut tries = 0;
                loop {
                    let patience = Duration::from_millis(sim::draw("wrapper.cancel_after_ms", 4));
                    match tokio::time::timeout(patience, g.get_response()).await {
                        Ok(r) => break r,
                        Err(_) => {
                            sim::stat("fault.wrapper_get_response_cancelled");
                            tries += 1;
                            if tries >= 3 {
                                break g.get_response().await;
                            }
                        }
                    }
                }
            } else {
                g.get_response().await
            };
            // Translate into what validate_msg would have said, as far as
            // the wrapper's output shows it.
            let translated = match &out {
                Ok(m) if m.header().ad() => Ok((ValidationState::Secure, None)),
                Ok(m) if m.header().rcode() == domain::base::iana::Rcode::SERVFAIL => Ok((ValidationState::Bogus, None)),
                Ok(_) => Ok((ValidationState::Insecure, None)),
                Err(_) => Ok((ValidationState::Bogus, None)),
            };
            wrapped = Some(out);
            translated
          } else {
            vc.validate_msg::<Vec<u8>, Vec<u8>>(&mut msg).await
          }
        };
        let (res, comp_res) = futures_util::join!(main_fut, comp_fut);
        sim::sync_clock();
        let (infra_applied, infra_queries) = {
            let g = up.st.lock().unwrap();
            (g.infra_harm_applied, g.infra_queries)
        };
        up.st.lock().unwrap().infra_harm = None;
        up.st.lock().unwrap().root_key_swap = false;
        let state = match &res {
            Ok((s, _)) => format!("{:?}", s),
            Err(e) => format!("Err({:?})", e).chars().take(60).collect(),
        };
        ev!(
            "  -> {} (infra queries {}, tampered {}){}",
            state,
            infra_queries,
            infra_applied,
            match &res {
                Ok((_, Some(ede))) => format!(" ede: {}", format!("{:?}", ede).chars().take(120).collect::<String>()),
                _ => String::new(),
            }
        );
        if infra_queries == 0 {
            sim::stat("probe.validation_from_warm_cache");
        }
        let secure = matches!(res, Ok((ValidationState::Secure, _)));
        if infra_applied > 0 {
            if infra_harm == Some(Harm::TransportError) {
                poisoned_until_ns = poisoned_until_ns.max(sim::now_ns() + (bogus_validity_s + 2) * 1_000_000_000);
                sim::stat("probe.failed_infrastructure_request_remembered_for_a_while");
            } else {
                poisoned_for_good = true;
            }
        }
        cache_poisoned = poisoned_for_good || sim::now_ns() < poisoned_until_ns;
        // ---- the companions
        for ((cq, ct, cc, c_insecure, _), cres) in comp_jobs.iter().zip(comp_res.iter()) {
            let cstate = match cres {
                Ok((s, _)) => format!("{:?}", s),
                Err(e) => format!("Err({:?})", e).chars().take(60).collect(),
            };
            ev!(
                "  companion {} {} -> {}{}",
                cq,
                ct,
                cstate,
                match cres {
                    Ok((_, Some(ede))) => format!(" ede: {}", format!("{:?}", ede).chars().take(120).collect::<String>()),
                    _ => String::new(),
                }
            );
            let csecure = matches!(cres, Ok((ValidationState::Secure, _)));
            let in_window = wall >= w.inception as u64 && wall <= eff_expiration(cq);
            if csecure && !in_window {
                sim::violation(P, "soundness", "secure-outside-signature-validity/concurrent".to_string(), format!("{} {} ({}) validated concurrently: Secure outside the signatures' validity window", cq, ct, cc));
                return;
            }
            if csecure && *c_insecure {
                sim::violation(P, "soundness", format!("secure-for-insecure-data/{}", cc), format!("{} {}: data from the unsigned zone reported Secure (concurrent validation)", cq, ct));
                return;
            }
            if !cache_poisoned && in_window && clock_plan != 7 && clock_plan != 8 {
                let want = if *c_insecure { "Insecure" } else { "Secure" };
                let opt_out_negative = (world_idx == 3 && next_closer_covered(cc)) || (nsec3_unchecked && !cc.starts_with("positive") && !matches!(*cc, "cname" | "dname"));
                if cstate != want && !(opt_out_negative && cstate == "Insecure") {
                    sim::violation(
                        P,
                        "completeness",
                        format!("{}-reported-{}/world{}/concurrent", cc, cstate.split('(').next().unwrap_or(""), world_idx),
                        format!("{} {} ({}, world {}): untampered response validated concurrently with {} {} reported {} instead of {}", cq, ct, cc, world_idx, qname, qtype, cstate, want),
                    );
                    return;
                }
            }
        }
        let harmed = final_harmed || cache_poisoned;
        let expect_secure = !r.insecure;
        // ---- soundness
        if secure && final_harmed {
            sim::violation(P, "soundness", format!("secure-despite-{:?}/{}", final_harm, class), format!("{} {} ({}, world {}): the response was tampered ({:?}) and still validated as Secure", qname, qtype, class, world_idx, final_harm));
            return;
        }
        // RFC 5155 section 9.2: no AD bit when the NSEC3 covering the next
        // closer name has the Opt-Out flag - it cannot show that no insecure
        // delegation lives there. In world 3 every NSEC3 carries the flag.
        {
            let n3: Vec<bool> = r.authority.iter().filter_map(|rec| if let domain::rdata::ZoneRecordData::Nsec3(n) = rec.data() { Some(n.opt_out()) } else { None }).collect();
            if secure && world_idx == 3 && next_closer_covered(class) && !n3.is_empty() && n3.iter().all(|x| *x) {
                sim::violation(P, "soundness", format!("secure-with-opt-out-covered-next-closer/{}", class), format!("{} {} ({}, world 3): reported Secure although every NSEC3 of the proof, the one covering the next closer name included, has the Opt-Out flag", qname, qtype, class));
                return;
            }
            if world_idx == 3 && next_closer_covered(class) && !n3.is_empty() && n3.iter().all(|x| *x) {
                sim::stat("probe.opt_out_covered_next_closer");
            }
        }
        if secure && infra_applied > 0 {
            sim::violation(
                P,
                "soundness",
                format!("secure-despite-infrastructure-{:?}/{}", infra_harm.unwrap(), class),
                format!("{} {} ({}, world {}): a DS/DNSKEY response fetched for this validation was tampered ({:?}) and the result is still Secure", qname, qtype, class, world_idx, infra_harm),
            );
            return;
        }
        if secure && !in_window {
            sim::violation(
                P,
                "soundness",
                format!("secure-outside-signature-validity/{}", if wall > eff_expiration(qname) { "expired" } else { "not-yet-valid" }),
                format!("{} {} ({}): Secure although the wall clock is {} days from the signing epoch (signatures valid -1..+30 days, the one over zone.tld's DS RRset -1..+12 days); infra queries for this validation: {}", qname, qtype, class, (wall as i64 - sim::EPOCH_BASE as i64) / 86_400, infra_queries),
            );
            return;
        }
        if secure && !expect_secure {
            sim::violation(P, "soundness", format!("secure-for-insecure-data/{}", class), format!("{} {}: data from the unsigned zone reported Secure", qname, qtype));
            return;
        }
        // ---- what the wrapper makes of it
        if let Some(out) = &wrapped {
            let (c_do, c_ad, c_cd) = caller_flags;
            match final_up.seen_flags.lock().unwrap().take() {
                Some((fdo, fcd)) if fdo && fcd => {}
                other => {
                    sim::violation(P, "wrapper", "upstream-request-without-do-or-cd".to_string(), format!("the wrapper forwarded the request with (DO, CD) = {:?}; it cannot validate without the DNSSEC records", other));
                    return;
                }
            }
            if let Ok(m) = out {
                let v = crate::dns::view(m.as_slice());
                if c_cd && m.header().ad() {
                    sim::violation(P, "wrapper", "ad-set-on-unvalidated-response".to_string(), format!("{} {}: the caller set CD, nothing was validated, and the response carries AD", qname, qtype));
                    return;
                }
                if !c_do && !matches!(qtype, Rtype::RRSIG | Rtype::NSEC | Rtype::NSEC3 | Rtype::DNSKEY | Rtype::DS) {
                    if let Some(v) = &v {
                        if v.recs.iter().any(|x| matches!(x.rtype, Rtype::RRSIG | Rtype::NSEC | Rtype::NSEC3)) {
                            sim::violation(P, "wrapper", "dnssec-records-without-do".to_string(), format!("{} {}: the caller did not set DO and got DNSSEC records", qname, qtype));
                            return;
                        }
                    }
                }
                if m.header().ad() && !(c_do || c_ad) {
                    sim::violation(P, "wrapper", "ad-set-unasked".to_string(), format!("{} {}: AD set although the caller set neither AD nor DO", qname, qtype));
                    return;
                }
            }
            // Completeness through the wrapper is only visible when the
            // caller asked for the AD bit and did not disable checking.
            if c_cd || !(c_do || c_ad) {
                continue;
            }
        }
        // ---- completeness
        if !harmed && in_window && clock_plan != 7 && clock_plan != 8 {
            let want = if expect_secure { "Secure" } else { "Insecure" };
            // With NSEC3 opt-out a covering NSEC3 cannot prove that no
            // insecure delegation exists there (RFC 5155 section 9.2):
            // such negative / wildcard answers may be reported Insecure.
            let opt_out_negative = (world_idx == 3 && next_closer_covered(class)) || (nsec3_unchecked && !class.starts_with("positive") && !matches!(class, "cname" | "dname"));
            if state != want && !(opt_out_negative && state == "Insecure") {
                sim::violation(
                    P,
                    "completeness",
                    format!("{}-reported-{}/world{}", class, state.split('(').next().unwrap_or(""), world_idx),
                    format!("{} {} ({}, world {}): untampered response from a correctly signed hierarchy reported {} instead of {}: {:?}", qname, qtype, class, world_idx, state, want, res.as_ref().ok().map(|x| &x.1)),
                );
                return;
            }
        }
    }
}
