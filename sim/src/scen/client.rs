//! C15 — client transports deliver each answer to its own request, exactly
//! once. All six transports run real code over `SimNet`; the peers, the
//! network and the oracle are stubs.

use crate::core::exec::{step, Exec};
use crate::core::net::{self, addr, ConnectPlan, Cut, DgConnectPlan, DgramFaults, PipeCfg, SimDgConnector, SimListener, UdpNet};
use crate::core::runner::{Scenario, Tier};
use crate::core::sim;
use crate::dns;
use domain::base::iana::Rcode;
use domain::base::Rtype;
use domain::net::client::request::{RequestMessage, SendRequest};
use domain::net::client::{dgram, dgram_stream, load_balancer, multi_stream, redundant, stream};
use std::collections::{BTreeMap, BTreeSet};
use std::cell::RefCell;
use std::future::Future;
use std::pin::Pin;
use std::rc::Rc;
use std::sync::Arc;
use std::time::Duration;
use tokio::io::{AsyncReadExt, AsyncWriteExt};

const P: &str = "C15";

#[derive(Clone, Copy, PartialEq, Eq, Debug)]
enum Kind {
    Dgram,
    Stream,
    Multi,
    DgramStream,
    Redundant,
    LoadBalancer,
}

#[derive(Clone, Copy, PartialEq, Eq, Debug)]
enum Via {
    Dgram,
    Stream,
}

#[derive(Clone, Debug)]
struct Issued {
    for_k: Option<usize>,
    kind: &'static str,
    via: Via,
    server: usize,
}

#[derive(Clone, Debug)]
struct HdrErr {
    id: u16,
    owner_k: Option<usize>,
}

#[derive(Clone, Debug, PartialEq)]
enum Scope {
    Req(usize),
    Global,
}

#[derive(Clone, Debug)]
enum Outcome {
    Ok(dns::Parsed),
    Err(String),
    /// The caller dropped the request before it completed.
    Abandoned,
}

#[derive(Clone, Debug)]
struct ReqRec {
    start_ns: u64,
    end: Option<(u64, u64, Outcome)>, // (ns, seq, outcome)
    after_idle_close: bool,
}

#[derive(Default)]
struct Ledger {
    issued: Vec<Issued>,
    hdr_errs: Vec<HdrErr>,
    faults: Vec<(u64, Scope, &'static str)>,
    reqs: Vec<ReqRec>,
    stream_tx_ns: Vec<u64>,
    tc_sent_for: Vec<usize>,
    stream_faults: u64,
    /// Per request: when a stream peer first transmitted a message carrying
    /// its id (from then on the transport may consider it answered).
    answered_ns: Vec<Option<u64>>,
    /// The bare stream connection may have closed itself (idle) by now.
    idle_closed: bool,
    /// Per request: the distinct message ids peers saw in datagrams (one per
    /// transmission attempt).
    dgram_ids: BTreeMap<usize, BTreeSet<u16>>,
    /// Requests whose complete answer a peer wrote into a connection it then
    /// closed in an orderly way (FIN behind the data), nothing else wrong.
    answered_before_fin: BTreeSet<usize>,
    /// The streaming request: what the peer sent for it, in order, and what
    /// the caller got before it let go (or the end).
    xfer_sent: Vec<Vec<u8>>,
    xfer_got: Vec<Vec<u8>>,
    xfer_err: Option<String>,
    xfer_err_ns: Option<u64>,
    xfer_ended: bool,
    /// When the streaming request was made / when the peer transmitted the
    /// last message of its response.
    xfer_start_ns: Option<u64>,
    xfer_final_tx_ns: Option<u64>,
    /// Recovery phase: from this event on nothing misbehaves any more (every
    /// peer answers normally, every upstream is healthy, connects succeed).
    healed_seq: Option<u64>,
    /// Requests of more than 65535 octets.
    too_long: BTreeSet<usize>,
    /// The first request of the recovery phase.
    recovery_from_k: Option<usize>,
}

type Led = Rc<RefCell<Ledger>>;

fn fault(led: &Led, scope: Scope, what: &'static str) {
    let seq = ev!("fault {} {:?}", what, scope);
    sim::stat(what);
    let mut l = led.borrow_mut();
    if what.starts_with("fault.s.") {
        l.stream_faults += 1;
    }
    l.faults.push((seq, scope, what));
}

fn issue(led: &Led, for_k: Option<usize>, kind: &'static str, via: Via, server: usize) -> u32 {
    let mut l = led.borrow_mut();
    l.issued.push(Issued { for_k, kind, via, server });
    // Tokens start at 1.0.0.0 so that they never look like a small counter
    // some unrelated code might produce.
    0x0100_0000 + (l.issued.len() as u32 - 1)
}

fn k_of_qname(q: &Option<String>) -> Option<usize> {
    let q = q.as_ref()?;
    let rest = q.strip_prefix('r')?;
    let num = rest.strip_suffix(".sim.").or_else(|| rest.strip_suffix(".sim"))?;
    num.parse().ok()
}

thread_local! {
    /// The retry count the datagram configuration is asked for (it caps it).
    static DG_RETRIES_ASKED: std::cell::Cell<u8> = const { std::cell::Cell::new(0) };
}

#[derive(Clone, Copy, Debug)]
struct Knobs {
    kind: Kind,
    faulty: bool,
    dg_read_timeout_ms: u64,
    dg_retries: u8,
    st_response_timeout_ms: u64,
    st_idle_timeout_ms: u64,
    ms_response_timeout_ms: u64,
    n_servers: usize,
    /// Datagram transport: requests in flight at once / receive buffer size.
    dg_max_parallel: usize,
    dg_recv_size: usize,
    /// Orderly-close mode (otherwise fault-free runs of the stream
    /// transports): after this many requests on a connection the peer sends
    /// every answer it owes in one go and closes its side (FIN) right behind
    /// them. 0 = off.
    fin_after: u32,
    /// Transfer mode (bare stream transport): a streaming request (a zone
    /// transfer of this many messages) shares the connection with the plain
    /// requests. 0 = off.
    xfer_msgs: u32,
    /// The messages of the streaming response come this far apart (0: a few
    /// milliseconds) - longer than the plain response timeout, far below
    /// the streaming one.
    xfer_gap_ms: u64,
    /// The peer refuses the transfer: 1 = REFUSED with the question, 2 = a
    /// header-only REFUSED (no question section).
    xfer_refused: u8,
}

/// Per-server disposition for the composite transports.
#[derive(Clone, Copy, Debug, PartialEq)]
enum Health {
    Good,
    Dead,
    Refusing,
    ServFail,
}

// ------------------------------------------------------------------ peers

#[derive(Clone, Copy, Debug, PartialEq)]
enum Act {
    Normal,
    Slow,
    Never,
    Twice,
    WrongId,
    OtherQuestion,
    HeaderOnly,
    Garbage,
    Tc,
    CloseBefore,
    CutInside,
    Hold,
    LenLie,
    Unsolicited,
    /// The peer is gone without a word: no answer, no end of stream; the
    /// client's next write fails.
    Vanish,
}

fn decide(kn: &Knobs, via: Via, health: Health) -> Act {
    if health == Health::Dead {
        return Act::Never;
    }
    if !kn.faulty {
        return Act::Normal;
    }
    let v = sim::draw("peer.act", 24);
    match (v, via) {
        (0..=11, _) => Act::Normal,
        (12, _) => Act::Slow,
        (13, _) => Act::Never,
        (14, _) => Act::Twice,
        (15, _) => Act::WrongId,
        (16, _) => Act::OtherQuestion,
        (17, _) => Act::HeaderOnly,
        (18, _) => Act::Garbage,
        (19, Via::Dgram) => Act::Tc,
        (19, Via::Stream) => Act::CloseBefore,
        (20, Via::Stream) => Act::CutInside,
        (20, Via::Dgram) => Act::Slow,
        (21, _) => Act::Hold,
        (22, Via::Stream) => Act::LenLie,
        (23, Via::Stream) => Act::Vanish,
        (22, Via::Dgram) => Act::Unsolicited,
        _ => Act::Unsolicited,
    }
}

fn slow_delay_ms(timeout_ms: u64) -> u64 {
    // Around the timeout: well before, just before, exactly at, just after,
    // well after.
    match sim::draw("peer.slow", 5) {
        0 => timeout_ms / 2,
        1 => timeout_ms.saturating_sub(2),
        2 => timeout_ms,
        3 => timeout_ms + 2,
        _ => timeout_ms * 2 + 10,
    }
}

/// The replies (bytes, delay) a peer produces for one request.
struct Replies {
    out: Vec<(Vec<u8>, u64)>,
    vanish: bool,
    close: Option<Cut>,
    cut_inside: bool,
    len_lie: bool,
}

#[allow(clippy::too_many_arguments)]
fn react(led: &Led, kn: &Knobs, server: usize, health: Health, via: Via, req: &[u8], p: &dns::Parsed, timeout_ms: u64) -> Replies {
    let k = k_of_qname(&p.qname);
    let mut r = Replies {
        out: Vec::new(),
        vanish: false,
        close: None,
        cut_inside: false,
        len_lie: false,
    };
    let scope = match (via, k) {
        (Via::Dgram, Some(k)) if kn.kind == Kind::Dgram => Scope::Req(k),
        _ => Scope::Global,
    };
    let rcode = match health {
        Health::Refusing => Rcode::REFUSED,
        Health::ServFail => Rcode::SERVFAIL,
        _ => Rcode::NOERROR,
    };
    let healed = led.borrow().healed_seq.is_some();
    let (health, rcode) = if healed { (Health::Good, Rcode::NOERROR) } else { (health, rcode) };
    let act = if healed { Act::Normal } else { decide(kn, via, health) };
    let base_delay = if kn.faulty && !healed { sim::draw("peer.delay", 20) } else { sim::draw("peer.delay", 4) };
    ev!("peer{} {:?} rx k={:?} id={} act={:?}", server, via, k, p.id, act);
    if let (Via::Dgram, Some(k)) = (via, k) {
        led.borrow_mut().dgram_ids.entry(k).or_default().insert(p.id);
    }
    // Junk that is not the answer arrives either promptly or late in the
    // timeout window (so that a deadline that restarts on junk shows).
    let junk_delay = |base: u64| -> u64 {
        if sim::chance("peer.junk_late", 1, 2) {
            slow_delay_ms(timeout_ms)
        } else {
            base
        }
    };
    let normal = |kind: &'static str| -> Vec<u8> {
        let t = issue(led, k, kind, via, server);
        dns::mk_reply(req, t, false, rcode).expect("reply")
    };
    match act {
        Act::Normal => r.out.push((normal("normal"), base_delay)),
        Act::Slow => {
            fault(led, scope.clone(), if via == Via::Dgram { "fault.d.slow" } else { "fault.s.slow" });
            r.out.push((normal("slow"), slow_delay_ms(timeout_ms)));
        }
        Act::Never => {
            if health != Health::Dead {
                fault(led, scope.clone(), if via == Via::Dgram { "fault.d.never" } else { "fault.s.never" });
            }
        }
        Act::Twice => {
            fault(led, scope.clone(), if via == Via::Dgram { "fault.d.dup" } else { "fault.s.dup" });
            let b = normal("dup");
            r.out.push((b.clone(), base_delay));
            r.out.push((b, base_delay + sim::draw("peer.dup_gap", 50)));
        }
        Act::WrongId => {
            fault(led, scope.clone(), if via == Via::Dgram { "fault.d.wrong_id" } else { "fault.s.wrong_id" });
            let mut b = normal("wrong_id");
            let delta = 1 + sim::draw("peer.id_delta", 3) as u16;
            dns::set_id(&mut b, p.id.wrapping_add(delta));
            if via == Via::Dgram && sim::chance("peer.wrong_id_short", 1, 2) {
                // A shorter stray datagram (the same question, no answer
                // record): what is received after it is still a whole message.
                if let Some(k) = k {
                    b = dns::mk_reply_other_question_rc(p.id.wrapping_add(delta), &format!("r{}.sim.", k), None, Rcode::REFUSED);
                    sim::stat("probe.short_stray_datagram_before_the_answer");
                }
            }
            let d = junk_delay(base_delay);
            r.out.push((b, d));
            if sim::chance("peer.then_right", 1, 2) {
                r.out.push((normal("after_wrong_id"), d + 5));
            }
        }
        Act::OtherQuestion => {
            fault(led, scope.clone(), if via == Via::Dgram { "fault.d.other_q" } else { "fault.s.other_q" });
            let t = issue(led, None, "other_question", via, server);
            let other = format!("x{}.sim.", k.unwrap_or(9999));
            let b = match sim::draw("peer.otherq_kind", 6) {
                // A bare header that reports no error: nothing in it says it
                // belongs to this request (only an *error* is taken on the
                // id alone).
                5 => dns::mk_header_only(p.id, Rcode::NOERROR),
                0 => dns::mk_reply_other_question(p.id, &other, t),
                1 => dns::mk_reply_other_question_rc(p.id, &other, None, Rcode::REFUSED),
                2 => dns::mk_reply_other_question_rc(p.id, &other, None, Rcode::SERVFAIL),
                // Right id, records - and no question at all, or the right
                // question followed by a second one: not this request's answer.
                3 => dns::mk_reply_odd_question_section(req, t, false),
                _ => dns::mk_reply_odd_question_section(req, t, true),
            };
            let d = junk_delay(base_delay);
            r.out.push((b, d));
            if via == Via::Dgram && sim::chance("peer.then_right", 1, 2) {
                r.out.push((normal("after_other_q"), d + 5));
            }
        }
        Act::HeaderOnly => {
            fault(led, scope.clone(), if via == Via::Dgram { "fault.d.hdr_only" } else { "fault.s.hdr_only" });
            led.borrow_mut().hdr_errs.push(HdrErr { id: p.id, owner_k: k });
            let rc = if sim::chance("peer.hdr_rc", 1, 2) { Rcode::REFUSED } else { Rcode::SERVFAIL };
            r.out.push((dns::mk_header_only(p.id, rc), base_delay));
        }
        Act::Garbage => {
            fault(led, scope.clone(), if via == Via::Dgram { "fault.d.garbage" } else { "fault.s.garbage" });
            let n = sim::draw("peer.garbage_len", 12) as usize;
            let mut g = vec![0u8; n];
            for (i, b) in g.iter_mut().enumerate() {
                *b = if i < 2 { p.id.to_be_bytes()[i] } else { 0x80 };
            }
            let d = junk_delay(base_delay);
            r.out.push((g, d));
            if via == Via::Dgram && sim::chance("peer.then_right", 1, 2) {
                r.out.push((normal("after_garbage"), d + 3));
            }
        }
        Act::Tc => {
            fault(led, scope.clone(), "fault.d.tc");
            let t = issue(led, k, "tc", via, server);
            if let Some(k) = k {
                led.borrow_mut().tc_sent_for.push(k);
            }
            // A truncated answer is retried over the stream whatever its
            // rcode says (a truncated NXDOMAIN or SERVFAIL is still truncated).
            let rcode = if kn.kind == Kind::DgramStream && sim::chance("peer.tc_rcode", 1, 3) { *sim::pick("peer.tc_rcode_which", &[Rcode::NXDOMAIN, Rcode::SERVFAIL, Rcode::REFUSED]) } else { rcode };
            r.out.push((dns::mk_reply(req, t, true, rcode).expect("reply"), base_delay));
        }
        Act::Vanish => {
            fault(led, scope.clone(), "fault.s.peer_vanished");
            r.vanish = true;
        }
        Act::CloseBefore => {
            fault(led, scope.clone(), "fault.s.close");
            r.close = Some(if sim::chance("peer.rst", 1, 2) { Cut::Rst } else { Cut::Fin });
        }
        Act::CutInside => {
            fault(led, scope.clone(), "fault.s.cut_inside");
            r.out.push((normal("cut_inside"), base_delay));
            r.cut_inside = true;
        }
        Act::Hold => {
            // Reordering: answer late enough that later requests overtake.
            fault(led, scope.clone(), if via == Via::Dgram { "fault.d.reorder" } else { "fault.s.reorder" });
            r.out.push((normal("held"), 30 + sim::draw("peer.hold", 100)));
        }
        Act::LenLie => {
            fault(led, scope.clone(), "fault.s.len_lie");
            r.out.push((normal("len_lie"), base_delay));
            r.len_lie = true;
        }
        Act::Unsolicited => {
            fault(led, scope.clone(), if via == Via::Dgram { "fault.d.unsolicited" } else { "fault.s.unsolicited" });
            let t = issue(led, None, "unsolicited", via, server);
            let id = sim::draw("peer.unsol_id", 8) as u16;
            let d = junk_delay(base_delay);
            r.out.push((dns::mk_reply_other_question(id, "unsolicited.sim.", t), d));
            if sim::chance("peer.then_right", 1, 2) {
                r.out.push((normal("after_unsolicited"), d + 1));
            }
        }
    }
    r
}

async fn dgram_peer(led: Led, kn: Knobs, server: usize, health: Health, sock: net::DgSock) {
    loop {
        let (data, from) = sock.recv_from().await;
        let p = match dns::parse(&data) {
            Some(p) => p,
            None => {
                sim::violation(P, "peer", "dgram-request-unparseable", format!("peer{} got {} unparseable octets", server, data.len()));
                continue;
            }
        };
        let r = react(&led, &kn, server, health, Via::Dgram, &data, &p, kn.dg_read_timeout_ms);
        for (bytes, delay) in r.out {
            ev!("peer{} dgram tx {} octets to {} in {}ms", server, bytes.len(), from, delay);
            sock.send_exact(from, bytes, delay);
        }
    }
}

async fn stream_conn_peer(led: Led, kn: Knobs, server: usize, health: Health, acc: net::Accepted) {
    let net::Accepted { mut stream, ctl, index, .. } = acc;
    let mut inbuf: Vec<u8> = Vec::new();
    let mut pending: Vec<(u64, Vec<u8>, bool)> = Vec::new(); // (due ns, framed bytes, last)
    // (id, k, rx time): ids the client must consider in flight, as far as
    // the peer can tell; `tx_log` = (time, id) of every message sent.
    let mut in_flight: Vec<(u16, Option<usize>, u64)> = Vec::new();
    let mut tx_log: Vec<(u64, u16)> = Vec::new();
    // Once the peer has corrupted the framing of this connection (lying
    // length prefix, frame cut short, sub-header garbage) it can no longer
    // tell which ids the client still considers in flight.
    let mut desynced = false;
    let mut tmp = [0u8; 4096];
    let mut closing: Option<Cut> = None;
    let mut n_rx = 0u32;
    let mut orderly = false;
    let mut xfer_final: BTreeMap<u16, Vec<u8>> = BTreeMap::new();
    loop {
        // Write everything that is due.
        let now = sim::now_ns();
        if orderly {
            // Everything owed goes out now, in one go, the FIN behind it.
            for p in pending.iter_mut() {
                p.0 = 0;
            }
        }
        pending.sort_by_key(|p| p.0);
        while let Some((due, _, _)) = pending.first() {
            if *due > now {
                break;
            }
            let (_, bytes, last) = pending.remove(0);
            if last {
                // A frame cut short is the last thing this connection sends.
                pending.clear();
            }
            led.borrow_mut().stream_tx_ns.push(sim::now_ns());
            ev!("peer{} conn{} tx {} octets", server, index, bytes.len());
            // Any complete message carrying an id releases the client's slot
            // for that id (even if it is not accepted as the answer).
            // (A transfer's id is released by its last message only - or by
            // any message with an error code that carries its id, such as a
            // stale header-only reply to an earlier holder of the id: a
            // streaming request ends at an error.)
            let mid_transfer = bytes.len() >= 14 && bytes[5] & 0x0f == 0 && xfer_final.get(&u16::from_be_bytes([bytes[2], bytes[3]])).is_some_and(|f| *f != bytes);
            if bytes.len() >= 14 && !mid_transfer {
                let id = u16::from_be_bytes([bytes[2], bytes[3]]);
                if xfer_final.remove(&id).is_some() {
                    led.borrow_mut().xfer_final_tx_ns = Some(sim::now_ns());
                }
                for (i, k, _) in in_flight.iter() {
                    if *i == id {
                        if let Some(k) = k {
                            let mut l = led.borrow_mut();
                            if l.answered_ns[*k].is_none() {
                                l.answered_ns[*k] = Some(sim::now_ns());
                            }
                            if orderly {
                                l.answered_before_fin.insert(*k);
                            }
                        }
                    }
                }
                in_flight.retain(|(i, _, _)| *i != id);
                tx_log.push((sim::now_ns(), id));
            }
            if stream.write_all(&bytes).await.is_err() {
                return;
            }
        }
        if let Some(c) = closing {
            if pending.is_empty() {
                match c {
                    Cut::Fin => {
                        let _ = stream.shutdown().await;
                        // Keep reading until the client closes, then leave.
                        while let Ok(n) = stream.read(&mut tmp).await {
                            if n == 0 {
                                break;
                            }
                        }
                    }
                    Cut::Rst => ctl.reset_now(),
                }
                return;
            }
        }
        let next_due = pending.first().map(|p| p.0);
        let n = tokio::select! {
            biased;
            r = stream.read(&mut tmp) => match r {
                Ok(0) | Err(_) => return,
                Ok(n) => n,
            },
            _ = tokio::time::sleep(Duration::from_nanos(next_due.unwrap_or(0).saturating_sub(now))), if next_due.is_some() => {
                sim::sync_clock();
                continue;
            }
        };
        sim::sync_clock();
        inbuf.extend_from_slice(&tmp[..n]);
        while inbuf.len() >= 2 {
            let len = u16::from_be_bytes([inbuf[0], inbuf[1]]) as usize;
            if inbuf.len() < 2 + len {
                break;
            }
            let body: Vec<u8> = inbuf[2..2 + len].to_vec();
            inbuf.drain(..2 + len);
            let p = match dns::parse(&body) {
                Some(p) => p,
                None => {
                    sim::violation(P, "peer", "stream-request-misframed", format!("peer{} conn{}: frame of {} octets is not a DNS message", server, index, len));
                    return;
                }
            };
            let k = k_of_qname(&p.qname);
            if let Some((_, other, t0)) = in_flight.iter().find(|(id, _, _)| *id == p.id).cloned() {
                // A message with this id that the peer sent shortly before it
                // saw the older request may have crossed it on the wire and
                // released the client's slot (one-way latency is <= 2 ms).
                let crossed = tx_log.iter().any(|(t, id)| *id == p.id && *t + 10_000_000 >= t0);
                if crossed || desynced {
                    in_flight.retain(|(i, _, _)| *i != p.id);
                } else {
                    sim::violation(
                        P,
                        "peer",
                        "id-in-flight-reused",
                        format!("peer{} conn{}: request k={:?} uses id {} which is still in flight for k={:?}", server, index, k, p.id, other),
                    );
                }
            }
            in_flight.push((p.id, k, sim::now_ns()));
            if p.qtype == Some(Rtype::SOA) {
                // The SOA check a secondary makes ahead of a transfer: answered
                // with the zone's SOA - now and then twice over (the duplicate
                // arrives about when the transfer is being asked for).
                use domain::base::{Serial, Ttl};
                let req_msg = domain::base::Message::from_octets(body.as_slice()).expect("request");
                let mut ab = domain::base::MessageBuilder::new_vec().start_answer(&req_msg, Rcode::NOERROR).expect("start_answer");
                let soa = domain::rdata::Soa::new(dns::name("ns.xfer.sim."), dns::name("admin.xfer.sim."), Serial(7), Ttl::from_secs(1), Ttl::from_secs(2), Ttl::from_secs(3), Ttl::from_secs(4));
                ab.push((dns::name("xfer.sim."), domain::base::iana::Class::IN, Ttl::from_secs(60), soa)).unwrap();
                let framed = dns::frame(&ab.into_message().into_octets());
                let now = sim::now_ns();
                let d = sim::draw("peer.soa_delay_ms", 4) * 1_000_000;
                pending.push((now + d, framed.clone(), false));
                if kn.faulty && sim::chance("peer.soa_answer_twice", 1, 2) {
                    fault(&led, Scope::Global, "fault.s.dup");
                    pending.push((now + d + sim::draw("peer.soa_dup_gap_ms", 8) * 1_000_000, framed, false));
                }
                continue;
            }
            if p.qtype == Some(Rtype::AXFR) {
                // A zone transfer: its messages follow one another a few
                // milliseconds apart; the id stays taken until the last one.
                let msgs = if kn.xfer_refused > 0 {
                    let mut mb = domain::base::MessageBuilder::new_vec();
                    mb.header_mut().set_id(p.id);
                    mb.header_mut().set_qr(true);
                    mb.header_mut().set_rcode(domain::base::iana::Rcode::REFUSED);
                    let mut qb = mb.question();
                    if kn.xfer_refused == 1 {
                        qb.push((dns::name("xfer.sim."), Rtype::AXFR)).unwrap();
                    }
                    vec![qb.finish()]
                } else {
                    dns::mk_xfer_msgs(&body, kn.xfer_msgs.max(1) as usize)
                };
                let now = sim::now_ns();
                ev!("peer{} Stream rx transfer request id={} ({} message(s) to come)", server, p.id, msgs.len());
                let mut at = now + sim::draw("peer.xfer_first_ms", 5) * 1_000_000;
                for (i, m) in msgs.iter().enumerate() {
                    let framed = dns::frame(m);
                    if i + 1 == msgs.len() {
                        xfer_final.insert(p.id, framed.clone());
                    }
                    pending.push((at, framed, false));
                    at += if kn.xfer_gap_ms > 0 { kn.xfer_gap_ms } else { sim::draw("peer.xfer_gap_ms", 12) } * 1_000_000;
                }
                led.borrow_mut().xfer_sent = msgs;
                continue;
            }
            let r = react(&led, &kn, server, health, Via::Stream, &body, &p, kn.st_response_timeout_ms);
            if r.vanish {
                ev!("peer{} conn{} vanishes", server, index);
                ctl.vanish_b();
                // (Keep the stream object: dropping it would look like a close.)
                std::future::pending::<()>().await;
            }
            if r.len_lie || r.cut_inside || r.out.iter().any(|(b, _)| b.len() < 12) {
                desynced = true;
            }
            let now = sim::now_ns();
            for (bytes, delay) in r.out {
                let mut framed = dns::frame(&bytes);
                if r.len_lie {
                    let lie = (bytes.len() as u16).wrapping_add(7);
                    framed[0..2].copy_from_slice(&lie.to_be_bytes());
                }
                if r.cut_inside {
                    let off = 1 + sim::draw("peer.cut_off", framed.len() as u64 - 1) as usize;
                    framed.truncate(off);
                    closing = Some(if sim::chance("peer.rst", 1, 2) { Cut::Rst } else { Cut::Fin });
                }
                pending.push((now + delay * 1_000_000, framed, r.cut_inside));
            }
            if let Some(c) = r.close {
                closing = Some(c);
            }
            n_rx += 1;
            if kn.fin_after > 0 && n_rx == kn.fin_after && closing.is_none() && led.borrow().healed_seq.is_none() {
                fault(&led, Scope::Global, "fault.s.answer_all_then_fin");
                orderly = true;
                closing = Some(Cut::Fin);
            }
        }
    }
}

async fn stream_peer(exec: Exec, led: Led, kn: Knobs, server: usize, health: Health, listener: SimListener) {
    while let Some(acc) = listener.accept().await {
        ev!("peer{} accepted conn{}", server, acc.index);
        exec.spawn(format!("peer{}.conn{}", server, acc.index), stream_conn_peer(led.clone(), kn, server, health, acc));
    }
}

// ---------------------------------------------------------------- clients

type Conn = Rc<dyn SendRequest<RequestMessage<Vec<u8>>>>;

#[allow(clippy::too_many_arguments)]
async fn client_task(led: Led, kn: Knobs, conn: Conn, ks: Vec<usize>, gaps: Vec<u64>) {
    for (k, gap) in ks.into_iter().zip(gaps) {
        if gap > 0 {
            sim::sleep_ms(gap).await;
        } else {
            step().await;
        }
        if sim::stopped() {
            return;
        }
        let mut msg = dns::mk_query(&format!("r{}.sim.", k), Rtype::A, true);
        // Now and then a request that cannot be framed: more than 65535
        // octets (a stream transport has to refuse it; it never reaches a
        // wire, so nothing but the caller's own timeout budget - counted
        // from the call - applies to it).
        let too_long = led.borrow().healed_seq.is_none() && sim::chance("caller.request_too_long", 1, 25);
        if too_long {
            let mut ab = domain::base::MessageBuilder::new_vec().question();
            ab.push((dns::name(&format!("r{}.sim.", k)), Rtype::A)).unwrap();
            let mut ab = ab.additional();
            for i in 0..3u8 {
                let data = vec![b'x'; 22_000];
                ab.push((dns::name(&format!("pad{}.sim.", i)), domain::base::iana::Class::IN, domain::base::Ttl::from_secs(1), domain::rdata::Txt::<Vec<u8>>::build_from_slice(&data).unwrap())).unwrap();
            }
            msg = ab.into_message();
            fault(&led, Scope::Req(k), "fault.request_longer_than_a_frame_can_hold");
            led.borrow_mut().too_long.insert(k);
        }
        let mut req = RequestMessage::new(msg).expect("request");
        // (Now and then with the DO bit: the request then has an OPT record
        // of its own, next to whatever the transport adds to it.)
        if sim::chance("caller.dnssec_ok", 1, 6) {
            use domain::net::client::request::ComposeRequest;
            req.set_dnssec_ok(true);
        }
        let start = sim::now_ns();
        {
            let mut l = led.borrow_mut();
            // Documented idle closure of a bare stream connection: if every
            // request invoked so far has been answered by the peer and the
            // idle timeout has elapsed since the last such answer, the
            // transport may have shut down (5 ms slack).
            // (A request that cannot be framed never occupies the connection.)
            let earlier: Vec<usize> = (0..l.reqs.len()).filter(|j| (l.reqs[*j].start_ns > 0 || l.reqs[*j].end.is_some()) && !l.too_long.contains(j)).collect();
            // (The streaming request counts like any other: made, and
            // answered once the peer has sent its last message.)
            let xfer_made = l.xfer_start_ns.is_some();
            let xfer_open = xfer_made && l.xfer_final_tx_ns.is_none() && l.xfer_err.is_none();
            if (!earlier.is_empty() || xfer_made) && !xfer_open && earlier.iter().all(|j| l.answered_ns[*j].is_some() || l.reqs[*j].end.is_some()) {
                let t_idle = earlier.iter().filter_map(|j| l.answered_ns[*j]).chain(l.xfer_final_tx_ns).max().unwrap_or(0);
                if start + 5_000_000 >= t_idle + kn.st_idle_timeout_ms * 1_000_000 {
                    l.idle_closed = true;
                }
            }
            l.reqs[k].start_ns = start.max(1);
            l.reqs[k].after_idle_close = l.idle_closed;
        }
        ev!("req k={} invoke", k);
        let mut gr = conn.send_request(req);
        // What the caller does with the request: wait for it; drop the
        // pending get_response() future and ask again (get_response is
        // documented as cancel safe); or give the request up altogether.
        let behaviour = sim::draw("caller.behaviour", 10);
        let cancel_after = |label: &'static str| -> u64 {
            match sim::draw(label, 4) {
                0 => 0,
                1 => 1 + sim::draw("caller.cancel_ms", 30),
                2 => kn.dg_read_timeout_ms / 2,
                _ => kn.dg_read_timeout_ms + 1,
            }
        };
        let mut res = None;
        if behaviour == 8 {
            for _ in 0..1 + sim::draw("caller.repolls", 3) {
                let d = cancel_after("caller.repoll_at");
                match tokio::time::timeout(Duration::from_millis(d), gr.get_response()).await {
                    Ok(r) => {
                        res = Some(r);
                        break;
                    }
                    Err(_) => {
                        sim::sync_clock();
                        sim::stat("fault.get_response_future_dropped");
                        ev!("req k={} get_response future dropped after {} ms, asking again", k, d);
                    }
                }
            }
        } else if behaviour == 9 {
            let d = cancel_after("caller.abandon_at");
            match tokio::time::timeout(Duration::from_millis(d), gr.get_response()).await {
                Ok(r) => res = Some(r),
                Err(_) => {
                    sim::sync_clock();
                    drop(gr);
                    sim::stat("fault.request_abandoned");
                    let seq = ev!("req k={} abandoned after {} ms", k, d);
                    led.borrow_mut().reqs[k].end = Some((sim::now_ns(), seq, Outcome::Abandoned));
                    continue;
                }
            }
        }
        let res = match res {
            Some(r) => r,
            None => gr.get_response().await,
        };
        sim::sync_clock();
        let end = sim::now_ns();
        let outcome = match res {
            Ok(m) => match dns::parse(m.as_slice()) {
                Some(p) => Outcome::Ok(p),
                None => {
                    sim::violation(P, "attribution", "unparseable-ok", format!("request k={} got an Ok message that does not parse", k));
                    return;
                }
            },
            Err(e) => Outcome::Err(format!("{:?}", e)),
        };
        let seq = match &outcome {
            Outcome::Ok(p) => ev!("req k={} -> Ok id={} rcode={} q={:?} tokens={:?} tc={}", k, p.id, p.rcode, p.qname, p.tokens, p.tc),
            Outcome::Err(e) => ev!("req k={} -> Err {}", k, short_err(e)),
            Outcome::Abandoned => 0,
        };
        let mut l = led.borrow_mut();
        if l.reqs[k].end.is_some() {
            drop(l);
            sim::violation(P, "exactly-once", "completed-twice", format!("request k={} completed twice", k));
            return;
        }
        l.reqs[k].end = Some((end, seq, outcome));
    }
}

fn short_err(e: &str) -> String {
    e.split(['(', '{']).next().unwrap_or(e).trim().to_string()
}

// --------------------------------------------------------------- scenario

pub struct ClientScn;

fn pipe_cfg(faulty: bool) -> PipeCfg {
    let mut c = PipeCfg::default();
    if faulty {
        c.segment = sim::chance("net.cfg.segment", 1, 3);
        c.stall = sim::chance("net.cfg.stall", 1, 4);
    }
    c.latency_ms = sim::draw("net.cfg.latency", 3);
    c
}

fn stream_planner(faulty: bool, connect_faults_ok: bool, led_faults: Arc<std::sync::Mutex<Vec<u64>>>, healed: Arc<std::sync::atomic::AtomicBool>) -> Arc<dyn Fn(usize) -> ConnectPlan + Send + Sync> {
    Arc::new(move |_idx| {
        let faulty = faulty && !healed.load(std::sync::atomic::Ordering::SeqCst);
        let mut p = ConnectPlan {
            client_cfg: pipe_cfg(faulty),
            server_cfg: pipe_cfg(faulty),
            ..Default::default()
        };
        if faulty && connect_faults_ok {
            match sim::draw("net.connect", 10) {
                8 => {
                    p.refuse = true;
                    led_faults.lock().unwrap().push(sim::seq());
                }
                9 => {
                    // Slow - or hanging for longer than any response timeout.
                    p.delay_ms = if sim::chance("net.connect_hangs", 1, 3) { 40_000 } else { 50 + sim::draw("net.connect_delay", 3000) };
                    sim::stat("fault.connect_slow");
                    led_faults.lock().unwrap().push(sim::seq());
                }
                _ => {}
            }
        }
        p
    })
}

impl Scenario for ClientScn {
    fn name(&self) -> &'static str {
        "client"
    }
    fn property(&self) -> &'static str {
        P
    }
    fn max_vtime(&self) -> Duration {
        Duration::from_secs(4000)
    }
    fn livelock_is_violation(&self) -> bool {
        true
    }
    fn components(&self) -> (Vec<&'static str>, Vec<&'static str>) {
        (
            vec![
                "net::client::dgram",
                "net::client::stream",
                "net::client::multi_stream",
                "net::client::dgram_stream",
                "net::client::redundant",
                "net::client::load_balancer",
                "net::client::request (RequestMessage, is_answer)",
                "base::Message / MessageBuilder",
                "tokio runtime (paused clock), mpsc/oneshot",
            ],
            vec!["simulated DNS peers (datagram and stream)", "SimNet sockets/pipes/connectors", "attribution ledger and oracle"],
        )
    }
    fn rule(&self) -> &'static str {
        "1-4 client tasks issue 1-5 uniquely named requests each over one transport kind drawn per run (dgram, stream, multi_stream, dgram_stream, redundant, load_balancer); 25% of runs are fault-free with a strict oracle (every request must succeed); otherwise each request received by a peer draws a behaviour (normal, slow around the timeout, never, twice, wrong id, other question, header-only error, garbage, TC, close/RST, cut inside a frame, held/reordered, lying length prefix, unsolicited) and pipes draw segmentation/stall/latency."
    }
    fn assumptions(&self) -> Vec<&'static str> {
        vec![
            "tokio's paused clock, timers and channels behave as in production",
            "a bare stream::Connection closing itself after idle_timeout without traffic is documented behaviour, modelled and accepted",
            "library tasks spawned with tokio::spawn are scheduled FIFO by the current-thread runtime (perturbed by seeded stalls and delays, not chosen directly)",
        ]
    }

    fn run(&self, tier: Tier) -> Pin<Box<dyn Future<Output = ()>>> {
        Box::pin(run(tier))
    }
}

/// A plain, prompt stream peer for the long-haul modes: every request is
/// answered at once with an address record carrying the number in its name.
async fn prompt_stream_peer(listener: SimListener) {
    while let Some(acc) = listener.accept().await {
        tokio::task::spawn_local(async move {
            let mut stream = acc.stream;
            let mut inbuf: Vec<u8> = Vec::new();
            let mut tmp = [0u8; 4096];
            loop {
                let n = match stream.read(&mut tmp).await {
                    Ok(0) | Err(_) => return,
                    Ok(n) => n,
                };
                inbuf.extend_from_slice(&tmp[..n]);
                while inbuf.len() >= 2 {
                    let len = u16::from_be_bytes([inbuf[0], inbuf[1]]) as usize;
                    if inbuf.len() < 2 + len {
                        break;
                    }
                    let body: Vec<u8> = inbuf[2..2 + len].to_vec();
                    inbuf.drain(..2 + len);
                    let k = dns::parse(&body).and_then(|p| k_of_qname(&p.qname)).unwrap_or(usize::MAX);
                    let reply = dns::mk_reply(&body, 0x0100_0000 + k as u32, false, Rcode::NOERROR).expect("reply");
                    if stream.write_all(&dns::frame(&reply)).await.is_err() {
                        return;
                    }
                }
            }
        });
    }
}

/// Long haul: more exchanges on one stream connection than there are
/// message ids (65536), one after the other, each answered at once. No
/// fault, no draw and no log line per exchange - just repetition: every one
/// of them gets its own answer, the 65537th like the first.
async fn long_haul(multi: bool) {
    sim::stat("probe.long_haul_more_exchanges_than_message_ids");
    let n = 65_600 + sim::draw("long_haul.extra", 200) as usize;
    ev!("long haul: {} exchanges over one {} connection", n, if multi { "multiplexed stream" } else { "stream" });
    let listener = net::listener("haul");
    let local = tokio::task::LocalSet::new();
    local
        .run_until(async move {
            tokio::task::spawn_local(prompt_stream_peer(listener.clone()));
            let quiet: Arc<dyn Fn(usize) -> ConnectPlan + Send + Sync> = Arc::new(|_| ConnectPlan::default());
            let connector = listener.connector(addr(1, 41_000), quiet);
            let mut st_cfg = stream::Config::new();
            st_cfg.set_response_timeout(Duration::from_secs(5));
            let conn: Rc<dyn SendRequest<RequestMessage<Vec<u8>>>> = if multi {
                let (c, t) = multi_stream::Connection::with_config(connector, multi_stream::Config::from(st_cfg));
                tokio::spawn(t.run());
                Rc::new(c)
            } else {
                let s = connector.connect_sim().await.expect("connect");
                let (c, t) = stream::Connection::<RequestMessage<Vec<u8>>, domain::net::client::request::RequestMessageMulti<Vec<u8>>>::with_config(s, st_cfg);
                tokio::spawn(t.run());
                Rc::new(c)
            };
            for k in 0..n {
                let req = RequestMessage::new(dns::mk_query(&format!("r{}.sim.", k), Rtype::A, true)).expect("request");
                let res = conn.send_request(req).get_response().await;
                let ok = match &res {
                    Ok(m) => dns::parse(m.as_slice()).is_some_and(|p| p.qr && k_of_qname(&p.qname) == Some(k) && p.tokens == vec![0x0100_0000 + k as u32]),
                    Err(_) => false,
                };
                if !ok {
                    sim::sync_clock();
                    sim::violation(
                        P,
                        "completion",
                        format!("long-haul/exchange-failed-on-a-healthy-connection/{}", if multi { "Multi" } else { "Stream" }),
                        format!("exchange number {} (of {}) on one connection to a peer that answers everything at once ended with {}", k + 1, n, match &res { Ok(_) => "an answer that is not its own".to_string(), Err(e) => format!("{:?}", e) }),
                    );
                    return;
                }
            }
            sim::sync_clock();
            ev!("long haul: done");
        })
        .await;
}

/// The caller lets go of its last handle to the connection while its request
/// is outstanding: the request object alone keeps the exchange alive and
/// gets the answer the peer sends afterwards.
/// A healthy connection stays served while the multiplexed transport is busy
/// opening another one: request B waits for its answer (the peer takes its
/// time, well inside the response timeout); request A, made meanwhile, cannot
/// be framed (more than 65535 octets) and fails all by itself, after which the
/// transport goes for a new connection - and that connect is slow. B's answer
/// arrives while the connect is pending and has to reach B then, not when
/// the connect is through.
async fn slow_reconnect() {
    sim::stat("probe.answer_arrives_while_another_connection_is_being_opened");
    let answer_after_ms = 1000 + sim::draw("slow_reconnect.answer_after_ms", 4000);
    let a_after_ms = 1 + sim::draw("slow_reconnect.unframeable_request_after_ms", 500);
    ev!("slow reconnect: B answered after {} ms, unframeable A made after {} ms, later connects take a minute", answer_after_ms, a_after_ms);
    let listener = net::listener("slowrc");
    let local = tokio::task::LocalSet::new();
    local
        .run_until(async move {
            let l2 = listener.clone();
            tokio::task::spawn_local(async move {
                while let Some(acc) = l2.accept().await {
                    tokio::task::spawn_local(async move {
                        let mut stream = acc.stream;
                        let mut inbuf: Vec<u8> = Vec::new();
                        let mut tmp = [0u8; 4096];
                        loop {
                            let n = match stream.read(&mut tmp).await {
                                Ok(0) | Err(_) => return,
                                Ok(n) => n,
                            };
                            inbuf.extend_from_slice(&tmp[..n]);
                            while inbuf.len() >= 2 {
                                let len = u16::from_be_bytes([inbuf[0], inbuf[1]]) as usize;
                                if inbuf.len() < 2 + len {
                                    break;
                                }
                                let body: Vec<u8> = inbuf[2..2 + len].to_vec();
                                inbuf.drain(..2 + len);
                                let k = dns::parse(&body).and_then(|p| k_of_qname(&p.qname)).unwrap_or(usize::MAX);
                                if k == 0 {
                                    tokio::time::sleep(Duration::from_millis(answer_after_ms)).await;
                                }
                                let reply = dns::mk_reply(&body, 0x0100_0000 + k as u32, false, Rcode::NOERROR).expect("reply");
                                if stream.write_all(&dns::frame(&reply)).await.is_err() {
                                    return;
                                }
                            }
                        }
                    });
                }
            });
            let planner: Arc<dyn Fn(usize) -> ConnectPlan + Send + Sync> = Arc::new(|i| ConnectPlan { delay_ms: if i == 0 { 0 } else { 60_000 }, ..ConnectPlan::default() });
            let connector = listener.connector(addr(1, 41_500), planner);
            let mut st_cfg = stream::Config::new();
            st_cfg.set_response_timeout(Duration::from_secs(8));
            let (c, t) = multi_stream::Connection::with_config(connector, multi_stream::Config::from(st_cfg));
            tokio::spawn(t.run());
            let conn: Rc<dyn SendRequest<RequestMessage<Vec<u8>>>> = Rc::new(c);
            let t0 = tokio::time::Instant::now();
            let mut b = conn.send_request(RequestMessage::new(dns::mk_query("r0.sim.", Rtype::A, true)).expect("request"));
            let conn2 = conn.clone();
            let a = tokio::task::spawn_local(async move {
                tokio::time::sleep(Duration::from_millis(a_after_ms)).await;
                let mut ab = domain::base::MessageBuilder::new_vec().question();
                ab.push((dns::name("r1.sim."), Rtype::A)).unwrap();
                let mut ab = ab.additional();
                for i in 0..3u8 {
                    let data = vec![b'x'; 22_000];
                    ab.push((dns::name(&format!("pad{}.sim.", i)), domain::base::iana::Class::IN, domain::base::Ttl::from_secs(1), domain::rdata::Txt::<Vec<u8>>::build_from_slice(&data).unwrap())).unwrap();
                }
                let r = conn2.send_request(RequestMessage::new(ab.into_message()).expect("request")).get_response().await;
                ev!("slow reconnect: the unframeable request ended with {:?}", r.as_ref().map(|_| "an answer").map_err(|e| format!("{:?}", e)));
                r.is_ok()
            });
            let res = b.get_response().await;
            let took_ms = t0.elapsed().as_millis() as u64;
            sim::sync_clock();
            let ok = match &res {
                Ok(m) => dns::parse(m.as_slice()).is_some_and(|p| p.qr && k_of_qname(&p.qname) == Some(0) && p.tokens == vec![0x0100_0000]),
                Err(_) => false,
            };
            ev!("slow reconnect: B ended after {} ms, ok={}", took_ms, ok);
            if !ok || took_ms > answer_after_ms + 200 {
                sim::violation(
                    P,
                    "completion",
                    "answer-on-a-healthy-connection-held-back-while-another-connection-is-being-opened/Multi".to_string(),
                    format!("request B on a healthy connection was answered by its peer after {} ms (response timeout 8 s); meanwhile a request that cannot be framed failed and the transport went for a new connection (a connect that takes a minute): B ended after {} ms with {}", answer_after_ms, took_ms, match &res { Ok(_) if ok => "its answer".to_string(), Ok(_) => "an answer that is not its own".to_string(), Err(e) => format!("{:?}", e) }),
                );
                return;
            }
            if let Ok(true) = a.await {
                sim::violation(P, "completion", "unframeable-request-answered".to_string(), "a request of more than 65535 octets was answered over a stream".to_string());
            }
        })
        .await;
}

async fn last_handle_dropped() {
    sim::stat("probe.last_connection_handle_dropped_with_a_request_outstanding");
    let listener = net::listener("lone");
    let local = tokio::task::LocalSet::new();
    local
        .run_until(async move {
            tokio::task::spawn_local(prompt_stream_peer(listener.clone()));
            let latency = 1 + sim::draw("lone.latency_ms", 3);
            let plan: Arc<dyn Fn(usize) -> ConnectPlan + Send + Sync> = Arc::new(move |_| {
                let mut p = ConnectPlan::default();
                p.client_cfg.latency_ms = latency;
                p.server_cfg.latency_ms = latency;
                p
            });
            let s = listener.connector(addr(1, 42_000), plan).connect_sim().await.expect("connect");
            let mut st_cfg = stream::Config::new();
            st_cfg.set_response_timeout(Duration::from_secs(5));
            let (conn, t) = stream::Connection::<RequestMessage<Vec<u8>>, domain::net::client::request::RequestMessageMulti<Vec<u8>>>::with_config(s, st_cfg);
            tokio::spawn(t.run());
            let mut conn = Some(conn);
            let earlier = sim::draw("lone.earlier_requests", 3) as usize;
            for k in 0..=earlier {
                let req = RequestMessage::new(dns::mk_query(&format!("r{}.sim.", k), Rtype::A, true)).expect("request");
                let mut g = SendRequest::send_request(conn.as_ref().expect("handle"), req);
                let res = if k == earlier {
                    // The request is on its way; the handle goes.
                    let first = tokio::time::timeout(Duration::from_micros(1 + sim::draw("lone.drop_after_us", 3000)), g.get_response()).await;
                    ev!("the caller drops its last handle to the connection, request k={} outstanding", k);
                    match first {
                        Ok(r) => {
                            conn = None;
                            r
                        }
                        Err(_) => {
                            conn = None;
                            let r = g.get_response().await;
                            sim::sync_clock();
                            let ok = matches!(&r, Ok(m) if dns::parse(m.as_slice()).is_some_and(|p| k_of_qname(&p.qname) == Some(k)));
                            if !ok {
                                sim::violation(P, "completion", "failed-after-the-last-handle-was-dropped/Stream".to_string(), format!("request k={} was outstanding when the caller dropped its last handle to the connection; the peer answered at once, the request ended with {:?}", k, r.as_ref().map(|_| "another answer").map_err(|e| format!("{:?}", e))));
                            }
                            return;
                        }
                    }
                } else {
                    g.get_response().await
                };
                if res.is_err() {
                    sim::sync_clock();
                    sim::violation(P, "unexplained-error", "Stream/lone-handle-mode".to_string(), format!("request k={} to a prompt peer failed: {:?}", k, res.err()));
                    return;
                }
            }
        })
        .await;
}

async fn run(_tier: Tier) {
    // Two special modes of their own (no faults, a prompt peer): a long haul
    // and a caller that lets go of the connection early.
    match sim::draw("special_mode", 12_000) {
        0 => return long_haul(false).await,
        1 => return long_haul(true).await,
        2..=120 => return last_handle_dropped().await,
        121..=240 => return slow_reconnect().await,
        _ => {}
    }
    let kinds = [Kind::Dgram, Kind::Stream, Kind::Multi, Kind::DgramStream, Kind::Redundant, Kind::LoadBalancer];
    let kind = *sim::pick("kind", &kinds);
    let faulty = sim::draw("faulty", 4) != 0;
    let kn = Knobs {
        kind,
        faulty,
        dg_read_timeout_ms: *sim::pick("cfg.dg_read_timeout", &[1000, 200, 5000]),
        // (What the configuration takes: "if this value is too small or too
        // large, it will be capped" - at 100.)
        dg_retries: {
            let asked = if sim::chance("cfg.dg_retries_huge", 1, 12) { *sim::pick("cfg.dg_retries_which", &[255u8, 100, 101]) } else { sim::draw("cfg.dg_retries", 3) as u8 };
            DG_RETRIES_ASKED.with(|c| c.set(asked));
            if asked > 100 {
                sim::stat("probe.dgram_retries_asked_beyond_the_cap");
            }
            asked.min(100)
        },
        st_response_timeout_ms: *sim::pick("cfg.st_response_timeout", &[2000, 500, 19000]),
        st_idle_timeout_ms: *sim::pick("cfg.st_idle_timeout", &[10_000, 1000, 0]),
        ms_response_timeout_ms: *sim::pick("cfg.ms_response_timeout", &[30_000, 5000]),
        n_servers: match kind {
            Kind::Redundant | Kind::LoadBalancer => 2 + sim::draw("cfg.n_servers", 2) as usize,
            _ => 1,
        },
        dg_max_parallel: *sim::pick("cfg.dg_max_parallel", &[100usize, 1, 2]),
        dg_recv_size: *sim::pick("cfg.dg_recv_size", &[2000usize, 512, 100]),
        fin_after: if !faulty && matches!(kind, Kind::Stream | Kind::Multi) && sim::chance("cfg.orderly_fin", 1, 2) { 2 + sim::draw("cfg.fin_after", 3) as u32 } else { 0 },
        xfer_msgs: 0,
        xfer_gap_ms: 0,
        xfer_refused: 0,
    };
    let mut kn = kn;
    if kn.kind == Kind::Stream && kn.fin_after == 0 && sim::chance("cfg.transfer_on_the_connection", 1, 3) {
        kn.xfer_msgs = 2 + sim::draw("cfg.xfer_msgs", 12) as u32;
        // A slow transfer now and then: few messages, each a second later
        // than a plain request would be waited for.
        if sim::chance("cfg.slow_transfer", 1, 3) {
            kn.xfer_msgs = 2 + sim::draw("cfg.slow_xfer_msgs", 3) as u32;
            kn.xfer_gap_ms = kn.st_response_timeout_ms + 1000;
            sim::stat("probe.slow_streaming_response");
        }
        // The peer may refuse the transfer: one message with an error code
        // - with or without the question - is the whole response.
        else if sim::chance("cfg.transfer_refused", 1, 6) {
            kn.xfer_refused = 1 + sim::draw("cfg.transfer_refused_how", 2) as u8;
            kn.xfer_msgs = 1;
            sim::stat("probe.streaming_request_refused");
        }
        // (Not with "close as soon as nothing is outstanding": whether the
        // streaming request is registered before the connection notices that
        // the last plain one was answered is a tie the model cannot call.)
        if kn.st_idle_timeout_ms == 0 {
            kn.st_idle_timeout_ms = 1000;
        }
        sim::stat("probe.streaming_request_shares_the_connection");
    }
    let kn = kn;
    ev!("knobs {:?}", kn);

    let exec = Exec::new();
    let led: Led = Rc::new(RefCell::new(Ledger::default()));
    let udp = UdpNet::new();
    let connect_faults: Arc<std::sync::Mutex<Vec<u64>>> = Arc::new(std::sync::Mutex::new(Vec::new()));

    // Servers.
    let mut healths = Vec::new();
    let mut listeners = Vec::new();
    for s in 0..kn.n_servers {
        let health = if kn.n_servers > 1 && faulty {
            *sim::pick("server.health", &[Health::Good, Health::Good, Health::Dead, Health::Refusing, Health::ServFail])
        } else {
            Health::Good
        };
        if health != Health::Good {
            sim::stat(match health {
                Health::Dead => "fault.upstream_dead",
                Health::Refusing => "fault.upstream_refused",
                _ => "fault.upstream_servfail",
            });
            led.borrow_mut().faults.push((sim::seq(), Scope::Global, "fault.upstream_unhealthy"));
        }
        healths.push(health);
        let sock = udp.bind(addr(100 + s as u8, 53));
        exec.spawn(format!("peer{}.dgram", s), dgram_peer(led.clone(), kn, s, health, sock));
        let l = net::listener(&format!("srv{}", s));
        exec.spawn(format!("peer{}.listen", s), stream_peer(exec.clone(), led.clone(), kn, s, health, l.clone()));
        listeners.push(l);
    }
    ev!("healths {:?}", healths);

    // Configurations.
    let mut dg_cfg = dgram::Config::new();
    dg_cfg.set_read_timeout(Duration::from_millis(kn.dg_read_timeout_ms));
    dg_cfg.set_max_retries(DG_RETRIES_ASKED.with(|c| c.get()));
    dg_cfg.set_max_parallel(kn.dg_max_parallel);
    dg_cfg.set_recv_size(kn.dg_recv_size);
    // (Requests then go out with an OPT record announcing this size.)
    dg_cfg.set_udp_payload_size(*sim::pick("cfg.dg_udp_payload_size", &[None, Some(1232u16), Some(4096), Some(512)]));
    let mut st_cfg = stream::Config::new();
    st_cfg.set_response_timeout(Duration::from_millis(kn.st_response_timeout_ms));
    st_cfg.set_idle_timeout(Duration::from_millis(kn.st_idle_timeout_ms));
    if kn.xfer_msgs > 0 {
        // The gap allowed between two messages of a streaming response is a
        // knob of its own - and concerns streaming responses only.
        st_cfg.set_streaming_response_timeout(Duration::from_secs(60));
    }
    let mut ms_cfg = multi_stream::Config::from(st_cfg.clone());
    ms_cfg.set_response_timeout(Duration::from_millis(kn.ms_response_timeout_ms));

    let healed = Arc::new(std::sync::atomic::AtomicBool::new(false));
    let healed_dg = healed.clone();
    let led_for_dg = connect_faults.clone();
    let dg_planner: Arc<dyn Fn(usize) -> DgConnectPlan + Send + Sync> = Arc::new(move |_i| {
        let mut p = DgConnectPlan::default();
        if faulty && !healed_dg.load(std::sync::atomic::Ordering::SeqCst) {
            match sim::draw("net.dg_connect", 30) {
                28 => {
                    p.fail_connect = true;
                    led_for_dg.lock().unwrap().push(sim::seq());
                }
                29 => {
                    p.fail_sends = 1;
                    led_for_dg.lock().unwrap().push(sim::seq());
                }
                27 => {
                    p.recv_error = true;
                    led_for_dg.lock().unwrap().push(sim::seq());
                }
                26 => {
                    p.short_send = true;
                    led_for_dg.lock().unwrap().push(sim::seq());
                }
                _ => {}
            }
        }
        p
    });
    let mk_dg = |s: usize| SimDgConnector::new(&udp, 1, addr(100 + s as u8, 53), DgramFaults::default(), dg_planner.clone());
    let mk_st = |s: usize| listeners[s].connector(addr(1, 40_000), stream_planner(faulty, kind != Kind::Stream, connect_faults.clone(), healed.clone()));

    // Build the transport under test.
    type ReqMulti = domain::net::client::request::RequestMessageMulti<Vec<u8>>;
    let mut xfer_conn: Option<stream::Connection<RequestMessage<Vec<u8>>, ReqMulti>> = None;
    let conn: Conn = match kind {
        Kind::Dgram => Rc::new(dgram::Connection::with_config(mk_dg(0), dg_cfg.clone())),
        Kind::Stream => {
            let c = mk_st(0).connect_sim().await.expect("fault-free first connect");
            let (conn, tr) = stream::Connection::<RequestMessage<Vec<u8>>, ReqMulti>::with_config(c, st_cfg.clone());
            tokio::spawn(tr.run());
            if kn.xfer_msgs > 0 {
                xfer_conn = Some(conn.clone());
            }
            Rc::new(conn)
        }
        Kind::Multi => {
            let (conn, tr) = multi_stream::Connection::with_config(mk_st(0), ms_cfg.clone());
            tokio::spawn(tr.run());
            Rc::new(conn)
        }
        Kind::DgramStream => {
            let cfg = dgram_stream::Config::from_parts(dg_cfg.clone(), ms_cfg.clone());
            let (conn, tr) = dgram_stream::Connection::with_config(mk_dg(0), mk_st(0), cfg);
            tokio::spawn(tr.run());
            Rc::new(conn)
        }
        Kind::Redundant => {
            let mut rcfg = redundant::Config::default();
            rcfg.set_defer_transport_error(sim::chance("cfg.defer_transport_error", 1, 2));
            rcfg.set_defer_refused(sim::chance("cfg.defer_refused", 1, 2));
            rcfg.set_defer_servfail(sim::chance("cfg.defer_servfail", 1, 2));
            let (conn, tr) = redundant::Connection::<RequestMessage<Vec<u8>>>::with_config(rcfg);
            tokio::spawn(tr.run());
            for s in 0..kn.n_servers {
                if sim::chance("cfg.upstream_stream", 1, 3) {
                    let (c, t) = multi_stream::Connection::with_config(mk_st(s), ms_cfg.clone());
                    tokio::spawn(t.run());
                    conn.add(Box::new(c)).await.expect("add");
                } else {
                    conn.add(Box::new(dgram::Connection::with_config(mk_dg(s), dg_cfg.clone()))).await.expect("add");
                }
            }
            Rc::new(conn)
        }
        Kind::LoadBalancer => {
            let mut lcfg = load_balancer::Config::default();
            lcfg.set_slow_rt_factor(*sim::pick("cfg.lb_slow_rt_factor", &[5.0f64, 1.0, 1.5, 100.0]));
            lcfg.set_defer_transport_error(sim::chance("cfg.defer_transport_error", 1, 2));
            lcfg.set_defer_refused(sim::chance("cfg.defer_refused", 1, 2));
            lcfg.set_defer_servfail(sim::chance("cfg.defer_servfail", 1, 2));
            let (conn, tr) = load_balancer::Connection::<RequestMessage<Vec<u8>>>::with_config(lcfg);
            tokio::spawn(tr.run());
            for s in 0..kn.n_servers {
                // Burst limits per upstream (None = unlimited).
                let mut cc = load_balancer::ConnConfig::new();
                if sim::chance("cfg.lb_burst_limit", 1, 2) {
                    cc.set_max_burst(Some(1 + sim::draw("cfg.lb_max_burst", 4)));
                    cc.set_burst_interval(Duration::from_millis(*sim::pick("cfg.lb_burst_interval_ms", &[1000u64, 100, 10_000])));
                    sim::stat("probe.load_balancer_burst_limit");
                }
                if sim::chance("cfg.upstream_stream", 1, 3) {
                    let (c, t) = multi_stream::Connection::with_config(mk_st(s), ms_cfg.clone());
                    tokio::spawn(t.run());
                    conn.add("ms", &cc, Box::new(c)).await.expect("add");
                } else {
                    conn.add("dg", &cc, Box::new(dgram::Connection::with_config(mk_dg(s), dg_cfg.clone()))).await.expect("add");
                }
            }
            Rc::new(conn)
        }
    };

    // The streaming request: started at a drawn moment, read for a while -
    // to the end, or dropped after a few messages - on the connection the
    // plain requests use.
    if let Some(xc) = xfer_conn {
        let led2 = led.clone();
        let n_msgs = kn.xfer_msgs as usize;
        let start_ms = sim::draw("xfer.start_ms", 30);
        let read_n = if sim::chance("xfer.read_to_the_end", 1, 2) { usize::MAX } else { 1 + sim::draw("xfer.read_n", n_msgs as u64) as usize };
        let pause_ms = sim::draw("xfer.read_pause_ms", 8);
        exec.spawn("xfer".to_string(), async move {
            use domain::net::client::request::SendRequestMulti;
            sim::sleep_ms(start_ms).await;
            // (As a secondary does: the SOA first, then the transfer.)
            if sim::chance("xfer.soa_check_first", 1, 2) {
                sim::stat("probe.soa_check_ahead_of_the_transfer");
                let soa_req = RequestMessage::new(dns::mk_query("xfer.sim.", Rtype::SOA, false)).expect("request");
                let _ = SendRequest::send_request(&xc, soa_req).get_response().await;
                sim::sync_clock();
            }
            let req = ReqMulti::new(dns::mk_query("xfer.sim.", Rtype::AXFR, false)).expect("transfer request");
            ev!("transfer request invoke");
            led2.borrow_mut().xfer_start_ns = Some(sim::now_ns());
            let mut g = SendRequestMulti::send_request(&xc, req);
            let mut got = 0usize;
            while got < read_n {
                match g.get_response().await {
                    Ok(Some(m)) => {
                        sim::sync_clock();
                        got += 1;
                        led2.borrow_mut().xfer_got.push(m.as_slice().to_vec());
                        if pause_ms > 0 {
                            sim::sleep_ms(pause_ms).await;
                        }
                    }
                    Ok(None) => {
                        led2.borrow_mut().xfer_ended = true;
                        break;
                    }
                    Err(e) => {
                        sim::sync_clock();
                        led2.borrow_mut().xfer_err_ns = Some(sim::now_ns());
                        led2.borrow_mut().xfer_err = Some(format!("{:?}", e));
                        break;
                    }
                }
            }
            if got >= read_n && got < n_msgs {
                sim::stat("fault.streaming_request_dropped_midway");
                ev!("transfer request dropped after {} of {} messages", got, n_msgs);
            }
            drop(g);
        });
    }

    // Workload.
    // Usually a handful of callers; now and then a crowd of ten to sixteen
    // with a request or two each, all at once (more than the transports'
    // internal queues hold).
    let crowd = sim::chance("crowd", 1, 8);
    if crowd {
        sim::stat("probe.crowd_of_callers");
    }
    let n_clients = if crowd { 10 + sim::draw("n_clients_crowd", 7) as usize } else { 1 + sim::draw("n_clients", 4) as usize };
    let mut k = 0usize;
    let mut handles = Vec::new();
    for c in 0..n_clients {
        let n = if crowd { 1 + sim::draw("n_reqs_crowd", 2) as usize } else { 1 + sim::draw("n_reqs", 5) as usize };
        let ks: Vec<usize> = (k..k + n).collect();
        k += n;
        let gaps: Vec<u64> = (0..n)
            .map(|_| match sim::draw("gap.kind", 8) {
                0..=4 => 0,
                5 | 6 => sim::draw("gap.ms", 50),
                _ => {
                    // A long gap: around the idle timeout.
                    let base = kn.st_idle_timeout_ms;
                    match sim::draw("gap.idle", 3) {
                        0 => base / 2,
                        1 => base.saturating_sub(20),
                        _ => {
                            sim::stat("probe.idle_gap_beyond_timeout");
                            base + 50
                        }
                    }
                }
            })
            .collect();
        for _ in 0..n {
            let mut l = led.borrow_mut();
            l.reqs.push(ReqRec {
                start_ns: 0,
                end: None,
                after_idle_close: false,
            });
            l.answered_ns.push(None);
        }
        handles.push(exec.spawn(format!("client{}", c), client_task(led.clone(), kn, conn.clone(), ks, gaps)));
    }
    let total = k;

    // Run until all clients are done (peers run forever and are dropped).
    let ex2 = exec.clone();
    let driver = async move {
        let clients_done = async {
            for h in handles {
                h.join().await;
            }
        };
        tokio::select! {
            biased;
            _ = clients_done => {}
            _ = ex2.run() => {}
        }
    };
    let mut finished = tokio::time::timeout(Duration::from_secs(3600), driver).await.is_ok();
    sim::sync_clock();
    if sim::over_cap() {
        return;
    }
    // Recovery phase: the faults stop - every peer answers normally from now
    // on, every upstream is healthy, connects go through. After a quiet
    // period that outlasts every timeout, back-off and idle timer in play
    // (whatever was late has arrived, whatever was broken has been noticed),
    // a few more requests are made, far enough apart for any burst limit:
    // nothing touches them, so each gets its own answer. (Not over the bare
    // stream connection: it has no way back from a broken or idle-closed
    // connection, which is documented.)
    let mut total = total;
    if finished && kind != Kind::Stream && !sim::stopped() && sim::chance("recovery_phase", 1, 2) {
        sim::stat("probe.recovery_phase");
        healed.store(true, std::sync::atomic::Ordering::SeqCst);
        let seq = ev!("the faults stop");
        led.borrow_mut().healed_seq = Some(seq);
        sim::sleep_ms(200_000).await;
        let n = 1 + sim::draw("recovery.n_reqs", 3) as usize;
        let ks: Vec<usize> = (total..total + n).collect();
        led.borrow_mut().recovery_from_k = Some(total);
        total += n;
        for _ in 0..n {
            let mut l = led.borrow_mut();
            l.reqs.push(ReqRec {
                start_ns: 0,
                end: None,
                after_idle_close: false,
            });
            l.answered_ns.push(None);
        }
        let h = exec.spawn("recovery".to_string(), client_task(led.clone(), kn, conn.clone(), ks, vec![11_000; n]));
        let ex3 = exec.clone();
        let driver = async move {
            tokio::select! {
                biased;
                _ = h.join() => {}
                _ = ex3.run() => {}
            }
        };
        finished = tokio::time::timeout(Duration::from_secs(3600), driver).await.is_ok();
        sim::sync_clock();
        if sim::over_cap() {
            return;
        }
    }
    check(&led, &kn, total, finished, &connect_faults.lock().unwrap(), n_clients);
}

fn check(led: &Led, kn: &Knobs, total: usize, finished: bool, connect_faults: &[u64], n_clients: usize) {
    let l = led.borrow();
    // The streaming request: what the caller got is what the peer sent, in
    // order, from the first message on (id aside: same exchange), and without
    // a stream fault in the run it neither fails nor ends early.
    // Slow streaming response: the first plain request made while it ran.
    let one_timer_from: Option<u64> = if kn.xfer_gap_ms > 0 {
        l.xfer_start_ns.and_then(|t0| {
            let t_end = l.xfer_err_ns.or(l.xfer_final_tx_ns).unwrap_or(u64::MAX);
            l.reqs.iter().filter(|r| r.start_ns >= t0 && r.start_ns <= t_end).map(|r| r.start_ns).min()
        })
    } else {
        None
    };
    if kn.xfer_msgs > 0 {
        // Whatever else goes wrong on the connection - duplicates, wrong ids,
        // delays, closures -, the streaming request is never handed a message
        // that answers one of the plain requests (unless the framing itself
        // was destroyed: a lying length, a frame cut short, sub-header junk).
        let framing_destroyed = l.faults.iter().any(|(_, _, w)| matches!(*w, "fault.s.len_lie" | "fault.s.cut_inside" | "fault.s.garbage"));
        if !framing_destroyed {
            for (i, m) in l.xfer_got.iter().enumerate() {
                if let Some(k) = dns::parse(m).and_then(|p| k_of_qname(&p.qname)) {
                    sim::violation(P, "attribution", "streaming-request-handed-an-answer-to-a-plain-request".to_string(), format!("message {} handed to the streaming request (a zone transfer) is an answer to plain request k={} on the same connection", i + 1, k));
                    return;
                }
                if dns::parse(m).is_some_and(|p| p.qtype.is_some_and(|t| t != Rtype::AXFR)) {
                    sim::violation(P, "attribution", "streaming-request-handed-an-answer-to-a-plain-request".to_string(), format!("message {} handed to the streaming request (a zone transfer) answers a question of another type: the SOA query made ahead of it on the same connection", i + 1));
                    return;
                }
            }
        }
        // A slow streaming response is waited for with the streaming
        // timeout (60 s here), whatever plain requests were outstanding when
        // it was asked for - as long as no plain request is made while it
        // runs (that one would bring the connection's one timer down to the
        // plain timeout: the known finding) and nothing worse than a silent
        // or slow peer happened on the connection.
        if kn.xfer_gap_ms > 0 {
            if let (Some(e), Some(t_err), Some(t0)) = (&l.xfer_err, l.xfer_err_ns, l.xfer_start_ns) {
                let benign = l.faults.iter().all(|(_, _, w)| matches!(*w, "fault.s.never" | "fault.s.slow" | "fault.s.reorder" | "fault.request_longer_than_a_frame_can_hold" | "fault.get_response_future_dropped" | "fault.request_abandoned" | "fault.streaming_request_dropped_midway"));
                let plain_meanwhile = l.reqs.iter().any(|r| r.start_ns >= t0 && r.start_ns <= t_err);
                if e.contains("StreamReadTimeout") && benign && !plain_meanwhile && connect_faults.is_empty() {
                    sim::violation(P, "completion", "streaming-request-timed-out-between-messages-within-its-own-timeout".to_string(), format!("the streaming request got {} of {} messages ({} ms apart, streaming timeout 60 s, plain timeout {} ms) and then failed with {}; no plain request was made while it ran", l.xfer_got.len(), l.xfer_sent.len(), kn.xfer_gap_ms, kn.st_response_timeout_ms, e));
                    return;
                }
            }
        }
        for (i, m) in l.xfer_got.iter().enumerate() {
            let same = l.xfer_sent.get(i).is_some_and(|s| s.len() == m.len() && s[2..] == m[2..]);
            if !same && l.stream_faults == 0 {
                sim::violation(P, "attribution", "streaming-response-message-out-of-sequence", format!("message {} handed to the streaming request is not message {} of the {} the peer sent for it", i + 1, i + 1, l.xfer_sent.len()));
                return;
            }
        }
        if l.stream_faults == 0 && connect_faults.is_empty() {
            if let Some(e) = &l.xfer_err {
                if one_timer_from.is_some() {
                    // Known finding (one timer per connection): a plain
                    // request made while the slow streaming response is under
                    // way brings the timer down to the plain timeout.
                    if sim::violation(P, "one-timer", "streaming-response-cut-short-by-a-plain-request-made-meanwhile".to_string(), format!("the streaming request ({} ms between messages, streaming timeout 60 s) failed with {} after {} of {} messages: a plain request (timeout {} ms) was made while it ran", kn.xfer_gap_ms, e, l.xfer_got.len(), l.xfer_sent.len(), kn.st_response_timeout_ms)) {
                        return;
                    }
                } else if !(kn.st_idle_timeout_ms == 0 && e.contains("ConnectionClosed")) {
                    sim::violation(P, "unexplained-error", format!("streaming/{}", short_err(e)), format!("the streaming request failed with {} after {} of {} messages although nothing disturbed the connection", e, l.xfer_got.len(), l.xfer_sent.len()));
                    return;
                }
            }
            if l.xfer_ended && l.xfer_got.len() != l.xfer_sent.len() {
                sim::violation(P, "attribution", "streaming-response-ended-early", format!("the streaming request ended after {} of the {} messages the peer sent", l.xfer_got.len(), l.xfer_sent.len()));
                return;
            }
        }
    }
    let slack = 200_000_000u64;
    // With fewer datagram slots than callers a request first waits for the
    // requests in front of it (the transport does not put a bound on that
    // wait of its own).
    let queue_factor = if kn.dg_max_parallel < n_clients { n_clients.div_ceil(kn.dg_max_parallel) as u64 } else { 1 };
    let dg_bound = queue_factor * (kn.dg_retries as u64 + 1) * kn.dg_read_timeout_ms * 1_000_000;
    let ms_bound = kn.ms_response_timeout_ms * 1_000_000;
    for k in 0..total {
        let r = &l.reqs[k];
        let (end_ns, end_seq, outcome) = match &r.end {
            Some(e) => e,
            None => {
                if r.start_ns == 0 && !finished {
                    // Never started because an earlier request of the same
                    // client hung; that one is reported.
                    continue;
                }
                if sim::stopped() {
                    return;
                }
                sim::violation(P, "completion", format!("never-completed/{:?}", kn.kind), format!("request k={} (started at {} ns) never completed within 3600 virtual seconds", k, r.start_ns));
                return;
            }
        };
        // --- retry budget: every transmission attempt uses a fresh message
        // id; a peer never sees more attempts than the configuration allows.
        if matches!(kn.kind, Kind::Dgram | Kind::DgramStream) {
            let attempts = l.dgram_ids.get(&k).map(|s| s.len()).unwrap_or(0) as u64;
            if attempts > kn.dg_retries as u64 + 1 {
                sim::violation(P, "completion", format!("more-attempts-than-retry-budget/{:?}", kn.kind), format!("request k={}: peers saw {} datagram attempts (distinct ids), the configuration allows {} (max_retries {})", k, attempts, kn.dg_retries as u64 + 1, kn.dg_retries));
                return;
            }
        }
        if matches!(outcome, Outcome::Abandoned) {
            continue;
        }
        // --- bounded completion
        let elapsed = end_ns.saturating_sub(r.start_ns);
        let bound = match kn.kind {
            Kind::Dgram => Some(dg_bound),
            Kind::Multi => Some(ms_bound),
            Kind::DgramStream => Some(dg_bound + ms_bound),
            // (A request that cannot be framed never reaches the connection:
            // its budget is the response timeout from the call.)
            Kind::Stream if l.too_long.contains(&k) => Some(kn.st_response_timeout_ms * 1_000_000),
            Kind::Stream => {
                let last_tx = l.stream_tx_ns.iter().filter(|t| **t <= *end_ns).max().copied().unwrap_or(0);
                let base = last_tx.max(r.start_ns);
                Some(base.saturating_sub(r.start_ns) + kn.st_response_timeout_ms * 1_000_000)
            }
            Kind::Redundant | Kind::LoadBalancer => Some(kn.n_servers as u64 * dg_bound.max(ms_bound) + 2_000_000_000),
        };
        if let Some(b) = bound {
            let slack = if kn.kind == Kind::Dgram { 20_000_000 } else { slack };
            // Known finding: one timer per connection - a plain request
            // overlapped by a streaming request waits for the streaming
            // timeout (60 s here) instead of its own.
            let overlapped = kn.xfer_msgs > 0 && l.xfer_start_ns.is_some_and(|xs| xs <= *end_ns && r.start_ns <= l.xfer_final_tx_ns.map(|t| t + 20_000_000).unwrap_or(u64::MAX));
            if elapsed > b + slack && overlapped && elapsed <= b + slack + 60_000_000_000 {
                if sim::violation(P, "completion", "late/Stream/plain-request-while-a-streaming-request-is-in-progress".to_string(), format!("request k={} completed after {} ms (budget {} ms): a streaming request was in progress on the connection", k, elapsed / 1_000_000, b / 1_000_000)) {
                    return;
                }
            } else if elapsed > b + slack {
                sim::violation(
                    P,
                    "completion",
                    format!("late/{:?}", kn.kind),
                    format!("request k={} completed after {} ms, beyond the configured budget of {} ms", k, elapsed / 1_000_000, b / 1_000_000),
                );
                return;
            }
        }
        let recovery = l.recovery_from_k.is_some_and(|f| k >= f);
        let explained = !recovery && (l.faults.iter().any(|(s, sc, _)| *s < *end_seq && (*sc == Scope::Global || *sc == Scope::Req(k))) || connect_faults.iter().any(|s| *s < *end_seq));
        if recovery {
            // Nothing has misbehaved since long before this request was made.
            match outcome {
                Outcome::Err(e) => {
                    sim::violation(P, "recovery", format!("request-failed-long-after-the-faults-stopped/{:?}/{}", kn.kind, short_err(e)), format!("request k={}, made 200 s or more after the last fault of the run (every peer healthy and answering normally since), failed with {}", k, e));
                    return;
                }
                Outcome::Ok(p) if p.rcode != Rcode::NOERROR || p.tokens.is_empty() => {
                    sim::violation(P, "recovery", format!("request-not-answered-by-a-peer-long-after-the-faults-stopped/{:?}", kn.kind), format!("request k={}, made 200 s or more after the last fault of the run, was handed rcode {} with tokens {:?} although every peer answers NOERROR with a token", k, p.rcode, p.tokens));
                    return;
                }
                _ => {}
            }
        }
        match outcome {
            Outcome::Ok(p) => {
                let header_only = p.qdcount == 0 && p.ancount == 0 && p.nscount == 0 && p.arcount == 0 && p.rcode != Rcode::NOERROR;
                if header_only {
                    let ok = l.hdr_errs.iter().any(|h| h.id == p.id && (h.owner_k == Some(k) || kn.kind != Kind::Dgram));
                    if !ok {
                        sim::violation(P, "attribution", "header-only-not-sent-for-this-id", format!("request k={} got a header-only error id={} that no peer sent for it", k, p.id));
                        return;
                    }
                    continue;
                }
                let want = format!("r{}.sim", k);
                if p.qname.as_deref() != Some(want.as_str()) || p.qtype != Some(Rtype::A) {
                    sim::violation(
                        P,
                        "attribution",
                        "wrong-question",
                        format!("request k={} was handed a response with question {:?} {:?} tokens {:?}", k, p.qname, p.qtype, p.tokens),
                    );
                    return;
                }
                if !p.qr {
                    sim::violation(P, "attribution", "not-a-response", format!("request k={} was handed a message with QR=0", k));
                    return;
                }
                // Peers only ever send whole messages whose answer section
                // holds its token records (stream corruption aside).
                if l.stream_faults == 0 && p.ancount as usize != p.tokens.len() {
                    sim::violation(P, "attribution", "handed-a-message-the-peer-did-not-send", format!("request k={} was handed a response whose header announces {} answer records but which holds {} (tokens {:?}): not a message any peer sent", k, p.ancount, p.tokens.len(), p.tokens));
                    return;
                }
                for t in &p.tokens {
                    let idx = t.wrapping_sub(0x0100_0000) as usize;
                    match l.issued.get(idx) {
                        Some(i) if i.for_k == Some(k) => {
                            if i.kind == "tc" && kn.kind == Kind::DgramStream && l.stream_faults == 0 && connect_faults.is_empty() && p.tc {
                                sim::violation(P, "tc-fallback", "truncated-answer-returned", format!("request k={} got the truncated datagram answer although the stream side was healthy", k));
                                return;
                            }
                        }
                        Some(i) => {
                            sim::violation(
                                P,
                                "attribution",
                                "foreign-token",
                                format!("request k={} was handed token {:#x} issued for k={:?} ({} via {:?} by peer{})", k, t, i.for_k, i.kind, i.via, i.server),
                            );
                            return;
                        }
                        None => {
                            sim::violation(P, "attribution", "unknown-token", format!("request k={} was handed token {:#x} that no peer issued", k, t));
                            return;
                        }
                    }
                }
                if p.tokens.is_empty() && p.rcode == Rcode::NOERROR && !explained {
                    sim::violation(P, "attribution", "empty-noerror", format!("request k={} got NOERROR without the peer's token", k));
                    return;
                }
                if kn.kind == Kind::DgramStream && p.tc && l.stream_faults == 0 && connect_faults.is_empty() {
                    sim::violation(P, "tc-fallback", "truncated-answer-returned", format!("request k={} got a TC=1 answer although the stream side was healthy", k));
                    return;
                }
            }
            Outcome::Abandoned => {}
            Outcome::Err(e) if kn.kind == Kind::DgramStream && l.tc_sent_for.contains(&k) && l.stream_faults == 0 && connect_faults.is_empty() && kn.n_servers == 1 && !l.too_long.contains(&k) => {
                // A truncated datagram answer is retried over the stream,
                // with the stream's own budget: with a healthy stream side
                // that attempt succeeds, however long the datagram phase took.
                sim::violation(P, "tc-fallback", "failed-although-the-stream-side-was-healthy".to_string(), format!("request k={} got a truncated datagram answer and then failed with {} although nothing disturbed the stream side", k, e));
                return;
            }
            Outcome::Err(e) => {
                // Orderly-close mode: the only disturbance of the run is a
                // peer that closes its side right behind complete answers.
                // What it had answered by then has arrived in full before the
                // end of the stream and has to be delivered.
                if kn.fin_after > 0 && l.answered_before_fin.contains(&k) && connect_faults.is_empty() {
                    sim::violation(
                        P,
                        "completion",
                        format!("answered-before-orderly-close-but-failed/{:?}", kn.kind),
                        format!("request k={} failed with {} although the peer had written its complete answer before it closed its side of the connection (FIN behind the data, nothing else wrong in this run)", k, e),
                    );
                    return;
                }
                if explained {
                    continue;
                }
                if kn.kind == Kind::Stream && one_timer_from.is_some_and(|t| r.start_ns >= t) {
                    // Known finding (one timer per connection): the plain
                    // timeout replaces the streaming one, the time since the
                    // last message already exceeds it, and the connection
                    // goes down with everything on it.
                    if sim::violation(P, "one-timer", "plain-request-fails-while-a-slow-streaming-response-is-in-progress".to_string(), format!("request k={} was made while a slow streaming response was under way on the connection and failed with {}", k, e)) {
                        return;
                    }
                    continue;
                }
                let idle_err = e.contains("StreamIdleTimeout") || e.contains("ConnectionClosed") || e.contains("StreamReceiveError");
                if kn.kind == Kind::Stream && r.after_idle_close && idle_err {
                    sim::stat("probe.idle_closure_error_accepted");
                    continue;
                }
                // The multiplexed-stream transport hands a request to the
                // connection it has; when the transport's own idle timeout
                // closes connections under the request more than once, the
                // randomised back-off between attempts may use up the
                // response timeout. The request then ends with a timeout
                // error inside its budget, which is a completion the
                // property allows.
                let idle_ns = kn.st_idle_timeout_ms * 1_000_000;
                let idle_closures = l.stream_tx_ns.iter().filter(|t| **t + idle_ns >= r.start_ns && **t + idle_ns <= *end_ns).count();
                if !matches!(kn.kind, Kind::Stream | Kind::Dgram) && e.contains("StreamReadTimeout") && elapsed + 1_000_000 >= ms_bound && idle_closures >= 2 {
                    sim::stat("probe.timeout_after_repeated_idle_closure_accepted");
                    continue;
                }
                sim::violation(
                    P,
                    "unexplained-error",
                    format!("{:?}/{}", kn.kind, short_err(e)),
                    format!("request k={} failed with {} although no fault touched it (faulty={})", k, e, kn.faulty),
                );
                return;
            }
        }
    }
    if kn.kind == Kind::DgramStream && !l.tc_sent_for.is_empty() {
        sim::stat("probe.tc_fallback_exercised");
    }
}
