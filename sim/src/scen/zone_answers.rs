//! C08 — zone answers follow RFC 1034 §4.3.2 / RFC 4592 and depend only on
//! the zone's current records. Real: the in-memory zone store, builder,
//! zone-file loader, write interface, ZoneUpdater, Answer::to_message.
//! Stub: the workload, the executable RFC reference lookup, the comparison.

use super::zonestore::{apply_add, apply_del, build_direct_offering_refused, canon_rdata, note_nodes, owner_str, query_zone, rrset_of, soa_rdata, stored_name, universe_names, walk_zone, Ans, Content, RecSpec, APEX};
use crate::core::exec::step;
use crate::core::runner::{Scenario, Tier};
use crate::core::sim;
use domain::base::name::Label;
use domain::base::Rtype;
use domain::zonetree::types::ZoneUpdate;
use domain::zonetree::update::ZoneUpdater;
use domain::zonetree::{StoredName, WritableZone, WritableZoneNode, Zone};
use std::collections::{BTreeMap, BTreeSet};
use std::future::Future;
use std::pin::Pin;
use std::time::Duration;

const P8: &str = "C08";

// ------------------------------------------------ RFC 1034 reference lookup

type RecT = (String, Rtype, u32, String);

#[derive(Clone, Debug, PartialEq)]
pub struct RefAns {
    pub kind: &'static str, // DATA, CNAME, NODATA, NXDOMAIN, REFERRAL
    pub answer: Vec<RecT>,
    /// For REFERRAL: NS and DS records; for negatives: SOA expected iff the
    /// zone has one (checked separately).
    pub authority: Vec<RecT>,
    /// Glue that must be present (in-bailiwick NS targets with addresses).
    pub glue: Vec<RecT>,
}

fn has_owner(c: &Content, n: &str) -> bool {
    c.keys().any(|(o, _)| o == n)
}

/// `n` exists: it owns records or is an empty non-terminal. Names at or
/// below `below_cut_excluded` cuts are handled by the caller.
fn exists(c: &Content, n: &str) -> bool {
    let suffix = format!(".{}", n);
    c.keys().any(|(o, _)| o == n || o.ends_with(&suffix))
}

fn ancestors_top_down(qname: &str) -> Vec<String> {
    // Ancestors-or-self strictly below the apex, closest to the apex first.
    let mut v = Vec::new();
    let mut cur = qname.to_string();
    while cur != APEX && cur.ends_with(APEX) {
        v.push(cur.clone());
        match cur.split_once('.') {
            Some((_, rest)) => cur = rest.to_string(),
            None => break,
        }
    }
    v.reverse();
    v
}

fn recs_at(c: &Content, owner: &str, rtype: Rtype, as_owner: &str) -> Vec<RecT> {
    let mut v: Vec<RecT> = match c.get(&(owner.to_string(), rtype)) {
        Some((ttl, rds)) => rds.iter().map(|rd| (as_owner.to_string(), rtype, *ttl, rd.clone())).collect(),
        None => Vec::new(),
    };
    v.sort();
    v
}

pub fn reference(c: &Content, qname: &str, qtype: Rtype) -> RefAns {
    let neg = |kind: &'static str| RefAns {
        kind,
        answer: vec![],
        authority: vec![],
        glue: vec![],
    };
    // 1. Delegations on the way down.
    for a in ancestors_top_down(qname) {
        if c.contains_key(&(a.clone(), Rtype::NS)) {
            if a == qname && qtype == Rtype::DS {
                let ds = recs_at(c, &a, Rtype::DS, &a);
                return if ds.is_empty() { neg("NODATA") } else { RefAns { kind: "DATA", answer: ds, authority: vec![], glue: vec![] } };
            }
            let mut authority = recs_at(c, &a, Rtype::NS, &a);
            authority.extend(recs_at(c, &a, Rtype::DS, &a));
            authority.sort();
            // Required glue: addresses of NS targets at or below the cut.
            let mut glue = Vec::new();
            if let Some((_, targets)) = c.get(&(a.clone(), Rtype::NS)) {
                for t in targets {
                    let t = owner_str(t);
                    // RFC 1034 section 4.3.2 step 3b: "whatever addresses
                    // are available ... using glue RRs if the addresses are
                    // not available from authoritative data": a target at or
                    // below this or any other cut of the zone has nothing
                    // but glue.
                    let occluded = ancestors_top_down(&t).iter().any(|x| x != APEX && c.contains_key(&(x.clone(), Rtype::NS)));
                    if t == a || t.ends_with(&format!(".{}", a)) || occluded {
                        glue.extend(recs_at(c, &t, Rtype::A, &t));
                        glue.extend(recs_at(c, &t, Rtype::AAAA, &t));
                    }
                }
            }
            glue.sort();
            return RefAns { kind: "REFERRAL", answer: vec![], authority, glue };
        }
    }
    // 2. The name itself, or wildcard synthesis at the closest encloser.
    let source: Option<String> = if qname == APEX || exists(c, qname) {
        Some(qname.to_string())
    } else {
        let mut ce = APEX.to_string();
        for a in ancestors_top_down(qname) {
            if exists(c, &a) {
                ce = a;
            } else {
                break;
            }
        }
        let w = format!("*.{}", ce);
        if exists(c, &w) {
            Some(w)
        } else {
            None
        }
    };
    let src = match source {
        Some(s) => s,
        None => return neg("NXDOMAIN"),
    };
    if qtype != Rtype::CNAME {
        let cn = recs_at(c, &src, Rtype::CNAME, qname);
        if !cn.is_empty() {
            return RefAns { kind: "CNAME", answer: cn, authority: vec![], glue: vec![] };
        }
    }
    let data = recs_at(c, &src, qtype, qname);
    if !data.is_empty() {
        return RefAns { kind: if qtype == Rtype::CNAME { "CNAME" } else { "DATA" }, answer: data, authority: vec![], glue: vec![] };
    }
    let _ = has_owner;
    neg("NODATA")
}

/// Compare an actual answer with the reference. Returns (signature part,
/// detail) on mismatch.
fn compare_ref(c: &Content, qname: &str, qtype: Rtype, a: &Ans) -> Option<(String, String)> {
    let r = reference(c, qname, qtype);
    let ak = a.kind();
    if ak != r.kind {
        return Some((format!("expected-{}-got-{}", r.kind, ak), format!("reference says {:?}, zone answered {:?}", r, a)));
    }
    match r.kind {
        "DATA" | "CNAME" => {
            if a.answer != r.answer {
                return Some((format!("{}-records-differ", r.kind), format!("reference answer {:?}, zone answered {:?}", r.answer, a.answer)));
            }
            if !a.aa {
                return Some(("aa-clear-on-authoritative-answer".into(), format!("{:?}", a)));
            }
        }
        "REFERRAL" => {
            let got: Vec<RecT> = a.authority.clone();
            if got != r.authority {
                return Some(("referral-authority-differs".into(), format!("reference authority {:?}, zone answered {:?}", r.authority, got)));
            }
            if a.aa {
                return Some(("aa-set-on-referral".into(), format!("{:?}", a)));
            }
            if !r.glue.is_empty() {
                sim::stat("probe.referral_with_required_glue");
            }
            for g in &r.glue {
                if !a.additional.contains(g) {
                    return Some(("referral-glue-missing".into(), format!("required glue {:?} missing from {:?}", g, a.additional)));
                }
            }
        }
        _ => {
            // Negative answers: SOA in the authority section iff the zone
            // has one (its TTL is not compared: RFC 2308 clamping is left
            // to the server); nothing else; AA set.
            let zone_has_soa = c.contains_key(&(APEX.to_string(), Rtype::SOA));
            let soa: Vec<&RecT> = a.authority.iter().filter(|x| x.1 == Rtype::SOA).collect();
            if zone_has_soa && soa.len() != 1 {
                return Some(("negative-answer-without-soa".into(), format!("{:?}", a)));
            }
            if let Some(s) = soa.first() {
                let want = c.get(&(APEX.to_string(), Rtype::SOA)).map(|(_, rds)| rds.iter().next().cloned().unwrap_or_default());
                if Some(&s.3) != want.as_ref() || s.0 != APEX {
                    return Some(("negative-answer-wrong-soa".into(), format!("authority {:?}, zone SOA {:?}", s, want)));
                }
            }
            if a.authority.iter().any(|x| x.1 != Rtype::SOA) || !a.answer.is_empty() {
                return Some(("negative-answer-extra-records".into(), format!("{:?}", a)));
            }
            if !a.aa {
                return Some(("aa-clear-on-negative-answer".into(), format!("{:?}", a)));
            }
        }
    }
    None
}

// ---------------------------------------------------------------- workload

const QTYPES: [Rtype; 8] = [Rtype::A, Rtype::TXT, Rtype::AAAA, Rtype::MX, Rtype::NS, Rtype::CNAME, Rtype::DS, Rtype::SOA];

fn rdata_for(rtype: Rtype, i: u64) -> String {
    match rtype {
        Rtype::A => format!("192.0.2.{}", i + 1),
        Rtype::AAAA => format!("2001:db8::{}", i + 1),
        Rtype::TXT => format!("\"t{}\"", i),
        Rtype::MX => format!("{} mx{}.example.", 10 * (i + 1), i % 2),
        Rtype::CNAME => format!("target{}.example.", i),
        Rtype::DS => format!("{} 15 2 {:064X}", 1000 + i, i + 1),
        _ => unreachable!(),
    }
}

/// Role of an owner name in a generated zone.
#[derive(Clone, Copy, PartialEq, Debug)]
enum Role {
    Normal,
    Cname,
    Cut,
}

/// What kind of records a name may legally hold given the rest of `c`.
fn role_of(c: &Content, owner: &str) -> Option<Role> {
    if owner != APEX && c.contains_key(&(owner.to_string(), Rtype::NS)) {
        return Some(Role::Cut);
    }
    if c.contains_key(&(owner.to_string(), Rtype::CNAME)) {
        return Some(Role::Cname);
    }
    if c.keys().any(|(o, _)| o == owner) {
        return Some(Role::Normal);
    }
    None
}

/// The name server a delegation at `owner` names: outside the name universe
/// (no address in the zone), the cut itself, a name below it, or a name at or
/// below another cut of the zone (sibling glue). No draws of its own.
fn ns_target(c: &Content, owner: &str, i: u64, sel: u64) -> String {
    match sel % 4 {
        0 => format!("ns{}.{}", i % 2, if i < 2 { APEX.to_string() } else { owner.to_string() }),
        1 => {
            if i % 2 == 0 {
                owner.to_string()
            } else {
                format!("a.{}", owner)
            }
        }
        2 => format!("{}.{}", if i % 2 == 0 { "a" } else { "b" }, owner),
        _ => {
            let others: Vec<&String> = c.keys().filter(|(o, t)| *t == Rtype::NS && o != APEX && o != owner).map(|(o, _)| o).collect();
            match others.get(i as usize % others.len().max(1)) {
                Some(o) if i < 2 => format!("a.{}", o),
                Some(o) => o.to_string(),
                None => format!("b.{}", owner),
            }
        }
    }
}

/// Generate one record that keeps the content a legal zone (no CNAME next
/// to other data, no non-glue data at a cut, DS only with NS).
fn gen_legal_rec(c: &Content, names: &[String], allow_special: bool) -> Option<RecSpec> {
    let owner = sim::pick("rec.owner", names).clone();
    let ttl = *sim::pick("rec.ttl", &[300u32, 60, 3600]);
    let i = sim::draw("rec.rdata", 4);
    let role = role_of(c, &owner);
    let kind = sim::draw("rec.kind", 10);
    if !allow_special && matches!(role, Some(Role::Cut) | Some(Role::Cname)) {
        return None;
    }
    let (rtype, rdata) = match (role, kind) {
        (Some(Role::Cut), 0..=3) => (Rtype::NS, ns_target(c, &owner, i, kind)),
        (Some(Role::Cut), 4 | 5) => (Rtype::DS, rdata_for(Rtype::DS, i)),
        (Some(Role::Cut), _) => (Rtype::A, rdata_for(Rtype::A, i)), // glue at the cut name
        (Some(Role::Cname), _) => return None,                      // a CNAME owner holds nothing else
        (None, 8) if allow_special && owner != APEX && !owner.starts_with("*.") => (Rtype::NS, ns_target(c, &owner, i, i)),
        (None, 9) if allow_special && owner != APEX => (Rtype::CNAME, rdata_for(Rtype::CNAME, i)),
        _ => {
            let t = *sim::pick("rec.type", &[Rtype::A, Rtype::TXT, Rtype::AAAA, Rtype::MX]);
            (t, rdata_for(t, i))
        }
    };
    // Targets inside the universe get their addresses (glue)
    // opportunistically through the generator picking that name.
    Some(RecSpec { owner, rtype, ttl, rdata })
}

/// History bookkeeping for root-cause markers.
#[derive(Default)]
struct Hist {
    /// Names whose tree node was created or touched through the write
    /// interface (low-level or ZoneUpdater).
    written_nodes: BTreeSet<String>,
    /// (owner, rtype) written through the write interface.
    written_rrsets: BTreeSet<(String, Rtype)>,
    commits: u64,
    aborts: u64,
}

fn subtree_has_data(c: &Content, n: &str) -> bool {
    exists(c, n)
}

/// The referral at or above `qname` names a server at or below a cut whose
/// address records were written through the write interface: the cut keeps
/// the glue it was built with (same root as cut-via-write-interface).
fn glue_written(c: &Content, h: &Hist, qname: &str) -> bool {
    for a in ancestors_top_down(qname) {
        if let Some((_, targets)) = c.get(&(a.clone(), Rtype::NS)) {
            return targets.iter().any(|t| {
                let t = owner_str(t);
                h.written_rrsets.contains(&(t.clone(), Rtype::A)) || h.written_rrsets.contains(&(t, Rtype::AAAA))
            });
        }
    }
    false
}

/// Which known root cause (if any) can explain a deviation at `qname`.
fn marker(c: &Content, h: &Hist, qname: &str) -> &'static str {
    let path = ancestors_top_down(qname);
    // A CNAME or NS RRset that reached the zone through the write interface
    // is stored as a plain RRset and not honoured as CNAME / zone cut.
    for a in &path {
        if a != APEX && (h.written_rrsets.contains(&(a.clone(), Rtype::NS)) || h.written_rrsets.contains(&(a.clone(), Rtype::DS))) {
            return "cut-via-write-interface";
        }
    }
    let wild_sources: Vec<String> = path.iter().map(|a| a.split_once('.').map(|(_, r)| format!("*.{}", r)).unwrap_or_default()).collect();
    for a in path.iter().chain(wild_sources.iter()) {
        if h.written_rrsets.contains(&(a.clone(), Rtype::CNAME)) {
            return "cname-via-write-interface";
        }
    }
    // Nodes touched by the write interface that hold no RRset themselves.
    for a in path.iter().chain(wild_sources.iter()) {
        if h.written_nodes.contains(a) && !c.keys().any(|(o, _)| o == a) {
            return if subtree_has_data(c, a) { "empty-non-terminal-via-write-interface" } else { "dead-node-via-write-interface" };
        }
    }
    if glue_written(c, h, qname) {
        return "glue-via-write-interface";
    }
    "no-known-cause"
}

async fn node_for(root: &dyn WritableZoneNode, owner: &str, h: &mut Hist) -> Option<Box<dyn WritableZoneNode>> {
    note_nodes(&mut h.written_nodes, owner);
    let rel = owner.strip_suffix(APEX)?;
    let labels: Vec<&str> = rel.trim_end_matches('.').split('.').filter(|s| !s.is_empty()).rev().collect();
    if labels.is_empty() {
        return None;
    }
    let mut node: Box<dyn WritableZoneNode> = root.update_child(Label::from_slice(labels[0].as_bytes()).unwrap()).await.expect("update_child");
    for l in &labels[1..] {
        node = node.update_child(Label::from_slice(l.as_bytes()).unwrap()).await.expect("update_child");
    }
    Some(node)
}

type WriterFuture = Pin<Box<dyn Future<Output = Box<dyn WritableZone>> + Send + Sync>>;

thread_local! {
    /// A `Zone::write()` future that was polled while the previous batch's
    /// writer held the handle; the next low-level batch continues it.
    static QUEUED_WRITER: std::cell::RefCell<Option<WriterFuture>> = const { std::cell::RefCell::new(None) };
}

/// One update batch through the low-level interface or the ZoneUpdater.
async fn batch(zone: &Zone, c: &mut Content, h: &mut Hist, names: &[String], specials_via_write: bool, clean: bool, who: usize) {
    let via_updater = sim::chance("batch.via_updater", 1, 2);
    let n_ops = 1 + sim::draw("batch.n_ops", 6);
    let abort = sim::chance("batch.abort", 1, 5);
    let mut working = c.clone();
    // In a clean history no operation may create or leave behind a tree node
    // without records (the triggers of the known history-dependence
    // findings), so every deviation in such a run is judged strictly.
    let owns = |w: &Content, o: &str| w.keys().any(|(oo, _)| oo == o);
    let ancestors_own = |w: &Content, o: &str| -> bool {
        let mut cur = o.to_string();
        loop {
            match cur.split_once('.') {
                Some((_, rest)) if rest != APEX && rest.ends_with(APEX) => {
                    if !w.keys().any(|(oo, _)| oo == rest) {
                        return false;
                    }
                    cur = rest.to_string();
                }
                _ => return true,
            }
        }
    };
    let serial = c.get(&(APEX.to_string(), Rtype::SOA)).and_then(|(_, rds)| rds.iter().next().and_then(|rd| rd.split_whitespace().nth(2).and_then(|s| s.parse::<u32>().ok()))).unwrap_or(0);
    let mk_soa = |serial: u32| RecSpec {
        owner: APEX.to_string(),
        rtype: Rtype::SOA,
        ttl: 3600,
        rdata: soa_rdata(serial),
    };
    let mut next_serial = serial.wrapping_add(1);
    let mut new_soa = mk_soa(next_serial);
    // Plan the ops first (same for both interfaces).
    enum Op {
        Add(RecSpec),
        Del(RecSpec),
        DelName(String, Vec<RecSpec>),
        ReplaceAll(Vec<RecSpec>),
        /// Commit what was done so far and go on in the same writer (what
        /// an IXFR with several difference sequences does): the content
        /// committed here, and the SOA the next part starts with.
        Split(Content, RecSpec),
    }
    let mut ops = Vec::new();
    let mut last_committed: Option<Content> = None;
    for _ in 0..n_ops {
        if sim::chance("batch.split", 1, 6) {
            let soa = new_soa.clone();
            ops.push(Op::Split(working.clone(), soa.clone()));
            last_committed = Some(working.clone());
            working.remove(&(APEX.to_string(), Rtype::SOA));
            apply_add(&mut working, &soa);
            next_serial = next_serial.wrapping_add(1);
            new_soa = mk_soa(next_serial);
            sim::stat("probe.multi_part_update");
            continue;
        }
        match sim::draw("batch.op", 10) {
            0..=4 => {
                if let Some(r) = gen_legal_rec(&working, names, specials_via_write) {
                    // (A record that is there already with another TTL is a
                    // change: the RRset takes the TTL of what was added last.)
                    let exists = working.get(&(r.owner.clone(), r.rtype)).is_some_and(|(ttl, rds)| *ttl == r.ttl && rds.contains(&canon_rdata(&r.owner, r.rtype, &r.rdata)));
                    if !exists && working.get(&(r.owner.clone(), r.rtype)).is_some_and(|(_, rds)| rds.contains(&canon_rdata(&r.owner, r.rtype, &r.rdata))) {
                        sim::stat("probe.ttl_only_change");
                    }
                    let allowed = !clean || (ancestors_own(&working, &r.owner) && (!abort || owns(c, &r.owner)) && (owns(c, &r.owner) || ancestors_own(c, &r.owner)));
                    if !exists && allowed {
                        apply_add(&mut working, &r);
                        ops.push(Op::Add(r));
                    }
                }
            }
            5 | 6 => {
                let existing: Vec<RecSpec> = working
                    .iter()
                    .filter(|((_, t), _)| *t != Rtype::SOA)
                    .flat_map(|((o, t), (ttl, rds))| {
                        rds.iter().map(move |rd| RecSpec {
                            owner: o.clone(),
                            rtype: *t,
                            ttl: *ttl,
                            rdata: rd.clone(),
                        })
                    })
                    .collect();
                let existing: Vec<RecSpec> = existing.into_iter().filter(|r| specials_via_write || !matches!(role_of(&working, &r.owner), Some(Role::Cut) | Some(Role::Cname))).collect();
                if !existing.is_empty() {
                    let r = sim::pick("batch.del_which", &existing).clone();
                    // Never leave a DS without its NS.
                    if r.rtype == Rtype::NS && working.contains_key(&(r.owner.clone(), Rtype::DS)) && working.get(&(r.owner.clone(), Rtype::NS)).map(|x| x.1.len()) == Some(1) {
                        continue;
                    }
                    if clean {
                        // Never empty an owner name.
                        let n_records: usize = working.iter().filter(|((o, _), _)| *o == r.owner).map(|(_, (_, rds))| rds.len()).sum();
                        if n_records <= 1 {
                            continue;
                        }
                    }
                    apply_del(&mut working, &r);
                    ops.push(Op::Del(r));
                }
            }
            7 | 8 if !clean => {
                // Delete every record of one owner name.
                let owners: Vec<String> = working
                    .keys()
                    .map(|(o, _)| o.clone())
                    .filter(|o| o != APEX)
                    .filter(|o| specials_via_write || !matches!(role_of(&working, o), Some(Role::Cut) | Some(Role::Cname)))
                    .collect::<BTreeSet<_>>()
                    .into_iter()
                    .collect();
                if !owners.is_empty() {
                    let o = sim::pick("batch.del_owner", &owners).clone();
                    let recs: Vec<RecSpec> = working
                        .iter()
                        .filter(|((oo, _), _)| oo == &o)
                        .flat_map(|((oo, t), (ttl, rds))| {
                            rds.iter().map(move |rd| RecSpec {
                                owner: oo.clone(),
                                rtype: *t,
                                ttl: *ttl,
                                rdata: rd.clone(),
                            })
                        })
                        .collect();
                    working.retain(|(oo, _), _| oo != &o);
                    sim::stat("probe.name_deleted");
                    ops.push(Op::DelName(o, recs));
                }
            }
            _ if clean => {}
            _ => {
                // Full replacement (AXFR style): everything goes, a new
                // (small) legal content comes.
                let mut fresh = Content::new();
                let mut recs = vec![new_soa.clone()];
                apply_add(&mut fresh, &new_soa);
                for _ in 0..sim::draw("batch.replace_n", 6) {
                    if let Some(r) = gen_legal_rec(&fresh, names, specials_via_write) {
                        let exists = fresh.get(&(r.owner.clone(), r.rtype)).is_some_and(|(_, rds)| rds.contains(&canon_rdata(&r.owner, r.rtype, &r.rdata)));
                        if !exists {
                            apply_add(&mut fresh, &r);
                            recs.push(r);
                        }
                    }
                }
                working = fresh;
                sim::stat("probe.full_replacement");
                ops.push(Op::ReplaceAll(recs));
            }
        }
    }
    ev!("batch{} via_updater={} ops={} abort={}", who, via_updater, ops.len(), abort);
    let note = |h: &mut Hist, r: &RecSpec| {
        note_nodes(&mut h.written_nodes, &r.owner);
        h.written_rrsets.insert((r.owner.clone(), r.rtype));
    };
    if via_updater {
        // (A writer queued by the previous batch would be served first.)
        QUEUED_WRITER.with(|q| q.borrow_mut().take());
        let mut up: ZoneUpdater<StoredName> = ZoneUpdater::new(zone.clone()).await.expect("updater");
        for op in &ops {
            match op {
                Op::Add(r) => {
                    ev!("  AddRecord {}", r.line());
                    note(h, r);
                    up.apply(ZoneUpdate::AddRecord(r.record())).await.expect("apply");
                }
                Op::Del(r) => {
                    ev!("  DeleteRecord {}", r.line());
                    note(h, r);
                    up.apply(ZoneUpdate::DeleteRecord(r.record())).await.expect("apply");
                }
                Op::DelName(o, recs) => {
                    ev!("  delete all {} records of {}", recs.len(), o);
                    for r in recs {
                        note(h, r);
                        up.apply(ZoneUpdate::DeleteRecord(r.record())).await.expect("apply");
                    }
                }
                Op::ReplaceAll(recs) => {
                    ev!("  DeleteAllRecords + {} records", recs.len());
                    // remove_all touches every node that exists.
                    for (o, _) in c.keys() {
                        note_nodes(&mut h.written_nodes, o);
                    }
                    up.apply(ZoneUpdate::DeleteAllRecords).await.expect("apply");
                    // (The SOA too: a later part boundary commits what is
                    // there, and Finished replaces the SOA anyway.)
                    for r in recs.iter() {
                        if r.rtype != Rtype::SOA {
                            note(h, r);
                        }
                        up.apply(ZoneUpdate::AddRecord(r.record())).await.expect("apply");
                    }
                }
                Op::Split(snap, soa) => {
                    ev!("  BeginBatchDelete (commit, reopen) + BeginBatchAdd {}", soa.line());
                    let cur_soa = snap
                        .get(&(APEX.to_string(), Rtype::SOA))
                        .and_then(|(ttl, rds)| {
                            rds.iter().next().map(|rd| RecSpec {
                                owner: APEX.to_string(),
                                rtype: Rtype::SOA,
                                ttl: *ttl,
                                rdata: rd.clone(),
                            })
                        })
                        .unwrap_or_else(|| soa.clone());
                    up.apply(ZoneUpdate::BeginBatchDelete(cur_soa.record())).await.expect("apply");
                    h.commits += 1;
                    up.apply(ZoneUpdate::BeginBatchAdd(soa.record())).await.expect("apply");
                }
            }
            step().await;
        }
        if abort {
            ev!("  ABORT");
            sim::stat("fault.writer_abort");
            h.aborts += 1;
            if sim::chance("batch.abort_by_crash", 1, 3) {
                sim::crash_drop(up);
            } else {
                drop(up);
            }
            if let Some(lc) = last_committed {
                *c = lc;
            }
            return;
        }
        // Finished() sets the SOA.
        working.remove(&(APEX.to_string(), Rtype::SOA));
        apply_add(&mut working, &new_soa);
        up.apply(ZoneUpdate::Finished(new_soa.record())).await.expect("finish");
    } else {
        let queued = QUEUED_WRITER.with(|q| q.borrow_mut().take());
        let mut w: Box<dyn WritableZone> = match queued {
            Some(f) => f.await,
            None => zone.write().await,
        };
        // Now and then the next writer already asks for the handle while
        // this one holds it (polled once: it has to wait its turn).
        if sim::chance("batch.next_writer_queues", 1, 5) {
            let mut f = zone.write();
            let mut cx = std::task::Context::from_waker(futures_util::task::noop_waker_ref());
            if f.as_mut().poll(&mut cx).is_ready() {
                sim::violation(P8, "write-interface", "two-writers-hold-the-zone".to_string(), "a second write handle was handed out while the first is held".to_string());
                return;
            }
            sim::stat("probe.next_writer_queued_behind_this_one");
            QUEUED_WRITER.with(|q| *q.borrow_mut() = Some(f));
        }
        let mut root = w.open(sim::chance("batch.diff", 1, 2)).await.expect("open");
        // Apply through RRset replacement, tracking the evolving content.
        let mut cur = c.clone();
        for op in &ops {
            match op {
                Op::Add(r) => {
                    ev!("  update_rrset(+) {}", r.line());
                    apply_add(&mut cur, r);
                    note(h, r);
                    let (ttl, rds) = cur.get(&(r.owner.clone(), r.rtype)).cloned().unwrap();
                    let rrset = rrset_of(r.rtype, ttl, &rds, &r.owner);
                    let node = node_for(root.as_ref(), &r.owner, h).await;
                    let n: &dyn WritableZoneNode = match &node {
                        Some(n) => n.as_ref(),
                        None => root.as_ref(),
                    };
                    n.update_rrset(rrset.clone()).await.expect("update_rrset");
                    // The writer reads its own writes.
                    match n.get_rrset(r.rtype).await {
                        Ok(Some(got)) if got.ttl() == rrset.ttl() && got.data().len() == rrset.data().len() && got.data().iter().all(|d| rrset.data().contains(d)) => {}
                        other => {
                            sim::violation(P8, "write-interface", "get-rrset-differs-from-what-was-written".to_string(), format!("after update_rrset({} {}) the same writer's get_rrset returned {:?}", r.owner, r.rtype, other.map(|o| o.map(|x| x.data().len()))));
                            return;
                        }
                    }
                }
                Op::Del(r) => {
                    ev!("  update_rrset(-) {}", r.line());
                    apply_del(&mut cur, r);
                    note(h, r);
                    let node = node_for(root.as_ref(), &r.owner, h).await;
                    let n: &dyn WritableZoneNode = match &node {
                        Some(n) => n.as_ref(),
                        None => root.as_ref(),
                    };
                    match cur.get(&(r.owner.clone(), r.rtype)).cloned() {
                        Some((ttl, rds)) => n.update_rrset(rrset_of(r.rtype, ttl, &rds, &r.owner)).await.expect("update_rrset"),
                        None => {
                            n.remove_rrset(r.rtype).await.expect("remove_rrset");
                            if let Ok(Some(left)) = n.get_rrset(r.rtype).await {
                                sim::violation(P8, "write-interface", "get-rrset-after-remove".to_string(), format!("after remove_rrset({} {}) the same writer's get_rrset still returns {} records", r.owner, r.rtype, left.data().len()));
                                return;
                            }
                        }
                    }
                }
                Op::DelName(o, _) => {
                    ev!("  remove every rrset of {}", o);
                    let types: Vec<Rtype> = cur.keys().filter(|(oo, _)| oo == o).map(|(_, t)| *t).collect();
                    for t in &types {
                        h.written_rrsets.insert((o.clone(), *t));
                    }
                    if let Some(n) = node_for(root.as_ref(), o, h).await {
                        for t in types {
                            n.remove_rrset(t).await.expect("remove_rrset");
                        }
                    }
                    cur.retain(|(oo, _), _| oo != o);
                }
                Op::ReplaceAll(recs) => {
                    ev!("  remove_all + {} records", recs.len());
                    for (o, _) in c.keys().chain(cur.keys()) {
                        note_nodes(&mut h.written_nodes, o);
                    }
                    root.remove_all().await.expect("remove_all");
                    cur.clear();
                    for r in recs {
                        apply_add(&mut cur, r);
                        if r.rtype != Rtype::SOA {
                            note(h, r);
                        }
                        let (ttl, rds) = cur.get(&(r.owner.clone(), r.rtype)).cloned().unwrap();
                        let rrset = rrset_of(r.rtype, ttl, &rds, &r.owner);
                        match node_for(root.as_ref(), &r.owner, h).await {
                            Some(n) => n.update_rrset(rrset).await.expect("update_rrset"),
                            None => root.update_rrset(rrset).await.expect("update_rrset"),
                        }
                    }
                }
                Op::Split(_, soa) => {
                    ev!("  commit, open again on the same writer, SOA {}", soa.line());
                    drop(root);
                    w.commit(false).await.expect("commit");
                    h.commits += 1;
                    // This writer goes on: whoever queued behind it is still
                    // waiting after the commit in the middle.
                    let got_in = QUEUED_WRITER.with(|q| match q.borrow_mut().as_mut() {
                        Some(f) => {
                            let mut cx = std::task::Context::from_waker(futures_util::task::noop_waker_ref());
                            f.as_mut().poll(&mut cx).is_ready()
                        }
                        None => false,
                    });
                    if got_in {
                        sim::violation(P8, "write-interface", "two-writers-hold-the-zone".to_string(), "a writer queued behind a multi-part update was handed the zone at that update's first commit, while the first writer goes on with its next part".to_string());
                        return;
                    }
                    root = w.open(sim::chance("batch.diff", 1, 2)).await.expect("open");
                    cur.remove(&(APEX.to_string(), Rtype::SOA));
                    apply_add(&mut cur, soa);
                    let (ttl, rds) = cur.get(&(APEX.to_string(), Rtype::SOA)).cloned().unwrap();
                    root.update_rrset(rrset_of(Rtype::SOA, ttl, &rds, APEX)).await.expect("update_rrset");
                }
            }
            step().await;
        }
        drop(root);
        if abort {
            ev!("  ABORT");
            sim::stat("fault.writer_abort");
            h.aborts += 1;
            // (Now and then because the writer's task crashes: the handle
            // goes away during the unwinding of a panic.)
            if sim::chance("batch.abort_by_crash", 1, 3) {
                sim::crash_drop(w);
            } else {
                drop(w);
            }
            if let Some(lc) = last_committed {
                *c = lc;
            }
            return;
        }
        // Commit with a serial bump when the SOA was not replaced.
        // (commit(true) leaves an SOA alone that the writer itself wrote
        // since it was opened: a full replacement, or the start of a part.)
        let replaced_soa = ops.iter().any(|o| matches!(o, Op::ReplaceAll(_) | Op::Split(..)));
        if !replaced_soa && working.contains_key(&(APEX.to_string(), Rtype::SOA)) {
            working.remove(&(APEX.to_string(), Rtype::SOA));
            apply_add(&mut working, &new_soa);
            // Keep the previous SOA TTL, as commit(bump) does.
            if let Some((ttl, _)) = cur.get(&(APEX.to_string(), Rtype::SOA)) {
                working.get_mut(&(APEX.to_string(), Rtype::SOA)).unwrap().0 = *ttl;
            }
            w.commit(true).await.expect("commit");
        } else {
            w.commit(false).await.expect("commit");
        }
    }
    h.commits += 1;
    *c = working;
    ev!("  COMMIT -> {} rrsets", c.len());
}

// ----------------------------------------------------------------- scenario

pub struct AnswersScn;

impl Scenario for AnswersScn {
    fn name(&self) -> &'static str {
        "zone_answers"
    }
    fn property(&self) -> &'static str {
        P8
    }
    fn max_vtime(&self) -> Duration {
        Duration::from_secs(3600)
    }
    fn event_cap(&self) -> u64 {
        50_000
    }
    fn components(&self) -> (Vec<&'static str>, Vec<&'static str>) {
        (
            vec![
                "zonetree::in_memory (read.rs query/walk, nodes, versioned, write.rs, builder.rs)",
                "zonetree::parsed::Zonefile -> ZoneBuilder -> Zone",
                "zonetree::update::ZoneUpdater",
                "zonetree::Answer::to_message",
                "zonefile::inplace (record parsing)",
            ],
            vec!["workload generator (legal zone contents and update histories)", "RFC 1034 section 4.3.2 / RFC 4592 reference lookup", "differential comparison history-zone vs directly built zone"],
        )
    }
    fn rule(&self) -> &'static str {
        "a legal zone content (wildcards, empty non-terminals, CNAMEs, delegations with DS/glue, occluded names) over a 5-12 name focus of a 45-name universe is built directly; 0-6 update batches (add/delete record, delete a whole name, full replacement; via ZoneUpdater or the low-level interface; 20% aborted) evolve it; then every (qname, qtype) over the universe plus names one label outside it x 8 qtypes is asked of (a) the zone that lived through the history, (b) a zone built directly from the final records, and both are compared with each other and with an executable RFC 1034/4592 reference. Runs without history compare the builder path alone with the reference."
    }
    fn assumptions(&self) -> Vec<&'static str> {
        vec![
            "qtype ANY is not compared (RFC 8482 leaves the choice to the responder)",
            "additional-section processing beyond required in-bailiwick glue, and the TTL of the SOA in negative answers, are not compared (RFC latitude)",
            "the differential rebuild goes through parsed::Zonefile/ZoneBuilder, which the property names as the direct construction path",
        ]
    }
    fn nontrivial(&self, stats: &BTreeMap<&'static str, u64>) -> bool {
        stats.get("counter.batches").copied().unwrap_or(0) > 0
    }
    fn run(&self, tier: Tier) -> Pin<Box<dyn Future<Output = ()>>> {
        Box::pin(run(tier))
    }
}

/// `ZoneTree`: which zone is in charge of a query name. Zones with nested,
/// sibling and far-apart apexes (also in another class) are inserted in a
/// drawn order; for every probe name `find_zone` must
/// return the zone whose apex is the longest suffix of the name.
fn check_zone_tree() {
    use domain::base::iana::Class;
    use domain::zonetree::{ZoneBuilder, ZoneTree};
    const APEXES: [&str; 9] = [".", "example.", "b.example.", "a.b.example.", "d.c.a.b.example.", "x.example.", "y.x.example.", "other.", "deep.down.in.other."];
    let mut tree = ZoneTree::new();
    let mut present: BTreeSet<(String, bool)> = BTreeSet::new(); // (apex, is CH)
    let n = 1 + sim::draw("tree.n_zones", 6);
    let mut zone_no = 0u32;
    let mut tags: BTreeMap<(String, bool), u32> = BTreeMap::new();
    // Insertions and, now and then, removals (of zones that are there and of
    // zones that are not) in a drawn order.
    for _ in 0..n {
        let apex = *sim::pick("tree.apex", &APEXES);
        let ch = sim::chance("tree.class_ch", 1, 6);
        let class = if ch { Class::CH } else { Class::IN };
        if !present.is_empty() && sim::chance("tree.remove", 1, 4) {
            // Usually one that is there.
            let (apex, ch) = if sim::chance("tree.remove_absent", 1, 4) {
                (apex.to_string(), ch)
            } else {
                let v: Vec<&(String, bool)> = present.iter().collect();
                v[sim::draw("tree.remove_which", v.len() as u64) as usize].clone()
            };
            let class = if ch { Class::CH } else { Class::IN };
            let res = tree.remove_zone(&stored_name(&apex), class);
            let was = present.remove(&(apex.clone(), ch));
            ev!("tree remove {} {:?} -> {:?}", apex, class, res.is_ok());
            sim::stat("probe.zone_tree_zone_removed");
            if res.is_ok() != was {
                sim::violation(P8, "zone-tree", "remove-zone-result".to_string(), format!("remove_zone({} {:?}) returned {:?}, zone was {} present", apex, class, res.is_ok(), if was { "" } else { "not" }));
                return;
            }
            continue;
        }
        // Every zone object carries its own tag: a refused insertion must
        // leave the zone that was there, not just a zone of that name.
        zone_no += 1;
        let mut zb = ZoneBuilder::new(stored_name(apex), class);
        let tag: BTreeSet<String> = [format!("\"zone-{}\"", zone_no)].into_iter().collect();
        if zb.insert_rrset(&stored_name(apex), rrset_of(Rtype::TXT, 60, &tag, apex)).is_err() {
            sim::harness_error("tagging a zone failed".to_string());
            return;
        }
        let zone = zb.build();
        let res = tree.insert_zone(zone);
        ev!("tree insert {} {:?} (zone-{}) -> {:?}", apex, class, zone_no, res.is_ok());
        if res.is_ok() {
            tags.insert((apex.to_string(), ch), zone_no);
        }
        let fresh = present.insert((apex.to_string(), ch));
        if res.is_ok() != fresh {
            sim::violation(P8, "zone-tree", "insert-zone-result".to_string(), format!("insert_zone({} {:?}) returned {:?}, zone was {} present", apex, class, res.is_ok(), if fresh { "not" } else { "already" }));
            return;
        }
    }
    // The tree holds exactly the zones put in and not taken out again.
    let mut listed: Vec<(String, bool)> = tree.iter_zones().map(|z| (owner_str(z.apex_name()), z.class() == Class::CH)).collect();
    listed.sort();
    let want_listed: Vec<(String, bool)> = present.iter().cloned().collect();
    if listed != want_listed {
        sim::violation(P8, "zone-tree", "iter-zones-wrong".to_string(), format!("iter_zones() lists {:?}, the tree should hold {:?}", listed, want_listed));
        return;
    }
    for apex in APEXES {
        for ch in [false, true] {
            let found = tree.get_zone(&stored_name(apex), if ch { Class::CH } else { Class::IN });
            if let (Some(z), Some(no)) = (found, tags.get(&(apex.to_string(), ch))) {
                let text = match z.read().query(stored_name(apex), Rtype::TXT) {
                    Ok(a) => match a.content() {
                        domain::zonetree::AnswerContent::Data(rrset) => rrset.data().iter().map(|d| format!("{}", d)).collect::<Vec<_>>().join(" "),
                        _ => "no data".to_string(),
                    },
                    Err(_) => "query failed".to_string(),
                };
                if !text.contains(&format!("zone-{}", no)) || text.contains(&format!("zone-{}0", no)) {
                    sim::violation(P8, "zone-tree", "wrong-zone-object-in-the-tree".to_string(), format!("{} {}: the tree should hold the zone tagged zone-{} (the one whose insertion succeeded), it answers {}", apex, if ch { "CH" } else { "IN" }, no, text));
                    return;
                }
            }
            let got = found.map(|z| owner_str(z.apex_name()));
            let want = present.contains(&(apex.to_string(), ch)).then(|| apex.to_string());
            if got != want {
                sim::violation(P8, "zone-tree", "get-zone-wrong".to_string(), format!("zones {:?}: get_zone({} {}) gave {:?}, expected {:?}", present, apex, if ch { "CH" } else { "IN" }, got, want));
                return;
            }
        }
    }
    sim::stat("probe.zone_tree_checked");
    let mut probes: Vec<String> = APEXES.iter().map(|s| s.to_string()).collect();
    for extra in ["www.example.", "c.a.b.example.", "www.c.a.b.example.", "w.d.c.a.b.example.", "a.example.", "z.y.x.example.", "down.in.other.", "in.other.", "w.deep.down.in.other.", "nothing.", "b.", "xexample."] {
        probes.push(extra.to_string());
    }
    for q in &probes {
        for ch in [false, true] {
            let want = present
                .iter()
                .filter(|(a, c)| *c == ch && (a == "." || q == a || q.ends_with(&format!(".{}", a))))
                .map(|(a, _)| a.clone())
                .max_by_key(|a| if a == "." { 0 } else { a.matches('.').count() });
            let got = tree.find_zone(&stored_name(q), if ch { Class::CH } else { Class::IN }).map(|z| owner_str(z.apex_name()));
            if got != want {
                sim::violation(
                    P8,
                    "zone-tree",
                    "find-zone-wrong".to_string(),
                    format!("zones {:?}: find_zone({} {}) gave {:?}, the zone in charge is {:?}", present, q, if ch { "CH" } else { "IN" }, got, want),
                );
                return;
            }
        }
    }
}

async fn run(_tier: Tier) {
    if sim::chance("zone_tree", 1, 4) {
        check_zone_tree();
        if sim::stopped() {
            return;
        }
    }
    // One run in six lives in class CH (same records, another class).
    if sim::chance("zone.class_ch", 1, 6) {
        super::zonestore::set_zone_class(domain::base::iana::Class::CH);
        sim::stat("probe.zone_in_class_ch");
    }
    let all = universe_names();
    let n_names = 5 + sim::draw("focus.n_names", 8) as usize;
    let mut pool = all.clone();
    let mut names: Vec<String> = vec![APEX.to_string()];
    pool.retain(|n| n != APEX);
    while names.len() < n_names && !pool.is_empty() {
        let i = sim::draw("focus.name", pool.len() as u64) as usize;
        names.push(pool.remove(i));
    }
    // Initial content (built directly, so specials are classified).
    let mut c = Content::new();
    apply_add(
        &mut c,
        &RecSpec {
            owner: APEX.to_string(),
            rtype: Rtype::SOA,
            ttl: 3600,
            rdata: soa_rdata(1),
        },
    );
    if sim::chance("init.apex_ns", 3, 4) {
        apply_add(
            &mut c,
            &RecSpec {
                owner: APEX.to_string(),
                rtype: Rtype::NS,
                ttl: 3600,
                rdata: "ns0.example.".into(),
            },
        );
    }
    for _ in 0..sim::draw("init.n", 14) {
        if let Some(r) = gen_legal_rec(&c, &names, true) {
            apply_add(&mut c, &r);
        }
    }
    // Delegations that share name servers: every cut names up to two
    // servers at or below itself or another cut, and those get addresses.
    if sim::chance("init.glue_bundle", 1, 3) {
        let cuts: Vec<String> = c.keys().filter(|(o, t)| *t == Rtype::NS && o != APEX).map(|(o, _)| o.clone()).collect();
        for cut in cuts.iter().take(4) {
            for _ in 0..1 + sim::draw("init.glue_targets", 2) {
                let host = &cuts[sim::draw("init.glue_host_cut", cuts.len() as u64) as usize];
                let target = match sim::draw("init.glue_host", 3) {
                    0 => host.clone(),
                    1 => format!("a.{}", host),
                    _ => format!("b.{}", host),
                };
                if target.len() > 60 || matches!(role_of(&c, &target), Some(Role::Cname)) {
                    continue;
                }
                let ns_ttl = c[&(cut.clone(), Rtype::NS)].0;
                apply_add(&mut c, &RecSpec { owner: cut.clone(), rtype: Rtype::NS, ttl: ns_ttl, rdata: target.clone() });
                let t = *sim::pick("init.glue_type", &[Rtype::A, Rtype::AAAA]);
                let ttl = c.get(&(target.clone(), t)).map(|x| x.0).unwrap_or(300);
                apply_add(&mut c, &RecSpec { owner: target, rtype: t, ttl, rdata: rdata_for(t, sim::draw("init.glue_rdata", 4)) });
            }
        }
        sim::stat("probe.glue_bundle");
    }
    let zone = match build_direct_offering_refused(&c) {
        Ok(z) => z,
        Err(e) => {
            sim::harness_error(format!("initial zone does not build: {}", e));
            return;
        }
    };
    if super::zonestore::LOADER_TOOK_AN_OFFER.with(|c| c.get()) {
        return;
    }
    let mut h = Hist::default();
    // Does this run send CNAME/NS records through the write interface
    // (known not to be honoured)? Most runs keep them to the builder path.
    let clean = sim::chance("cfg.clean_history", 1, 2);
    let specials_via_write = !clean && sim::chance("cfg.specials_via_write", 1, 3);
    if clean {
        sim::stat("probe.clean_history_run");
    }
    let n_batches = sim::draw("n_batches", 7);
    // A reader taken at some point of the history and kept: its negative
    // answers carry the SOA of *its* version, whatever is committed later.
    let hold_before = if n_batches > 0 && sim::chance("held_reader", 1, 2) { Some(sim::draw("held_reader.before_batch", n_batches)) } else { None };
    let mut held: Option<(Box<dyn domain::zonetree::ReadableZone>, String)> = None;
    for b in 0..n_batches {
        if hold_before == Some(b) {
            if let Some((_, rds)) = c.get(&(APEX.to_string(), Rtype::SOA)) {
                if let Some(soa) = rds.iter().next() {
                    held = Some((zone.read(), soa.clone()));
                    sim::stat("probe.reader_held_across_later_commits");
                }
            }
        }
        batch(&zone, &mut c, &mut h, &names, specials_via_write, clean, b as usize).await;
        sim::stat("counter.batches");
        if sim::stopped() {
            return;
        }
    }
    QUEUED_WRITER.with(|q| q.borrow_mut().take());
    // ---- checks
    if let Some((reader, soa_then)) = &held {
        // (A name one label outside the universe: no node of any version.)
        if let Ok(a) = query_zone(reader.as_ref(), &format!("held-reader-probe.{}", APEX), Rtype::A) {
            // (A wildcard at the apex level may match the probe name: only
            // negative answers carry the SOA.)
            let negative = a.rcode == "NXDOMAIN" || (a.rcode == "NOERROR" && a.answer.is_empty() && !a.authority.iter().any(|r| r.1 == Rtype::NS));
            if negative && !a.authority.iter().any(|r| r.1 == Rtype::SOA) {
                sim::violation(P8, "query", "held-reader-lost-its-soa".to_string(), format!("a reader taken when the SOA was [{}] and kept across later commits answers {} without an SOA in the authority section", soa_then, a.rcode));
                return;
            }
            for (o, t, _, rd) in &a.authority {
                if *t == Rtype::SOA && canon_rdata(APEX, Rtype::SOA, rd) != canon_rdata(APEX, Rtype::SOA, soa_then) {
                    sim::violation(P8, "query", "negative-answer-with-another-versions-soa".to_string(), format!("a reader taken when the SOA was [{}] and kept across later commits answers NXDOMAIN with the SOA [{}] of {} in the authority section", soa_then, rd, o));
                    return;
                }
            }
        }
    }
    let hist_reader = zone.read();
    // The walk must list exactly the content (also guards the model).
    let w = walk_zone(hist_reader.as_ref());
    let mut expect: Vec<(String, Rtype, u32, Vec<String>)> = c.iter().map(|((o, t), (ttl, rds))| (o.clone(), *t, *ttl, rds.iter().cloned().collect())).collect();
    expect.sort();
    let mut got: Vec<(String, Rtype, u32, Vec<String>)> = w.iter().map(|(o, t, ttl, rds, _)| (o.clone(), *t, *ttl, rds.clone())).collect();
    // A zone cut built directly reports its glue once more through the cut,
    // record by record: merge what is reported for one (owner, type, TTL).
    let mut merged: BTreeMap<(String, Rtype, u32), BTreeSet<String>> = BTreeMap::new();
    for (o, t, ttl, rds) in got.drain(..) {
        merged.entry((o, t, ttl)).or_default().extend(rds);
    }
    let mut got: Vec<(String, Rtype, u32, Vec<String>)> = merged.into_iter().map(|((o, t, ttl), rds)| (o, t, ttl, rds.into_iter().collect())).collect();
    got.sort();
    // Names strictly below a delegation are occluded: the directly built
    // zone lists only the cut's glue there, a zone with history lists what
    // was written. Answers never come from there, so the guard skips them.
    let cuts: Vec<String> = c.keys().filter(|(o, t)| *t == Rtype::NS && o != APEX).map(|(o, _)| format!(".{}", o)).collect();
    let occluded = |o: &String| cuts.iter().any(|cut| o.ends_with(cut));
    got.retain(|x| !occluded(&x.0));
    expect.retain(|x| !occluded(&x.0));
    // Owners holding a delegation or CNAME that was touched through the
    // write interface are stored twice (as 'special' and as plain RRset);
    // that is the cut/cname-via-write finding, judged on answers below.
    let special_owner: BTreeSet<String> = got
        .iter()
        .chain(expect.iter())
        .filter(|x| (matches!(x.1, Rtype::NS | Rtype::DS) && x.0 != APEX) || x.1 == Rtype::CNAME)
        .map(|x| x.0.clone())
        .filter(|o| h.written_nodes.contains(o))
        .collect();
    got.retain(|x| !special_owner.contains(&x.0));
    expect.retain(|x| !special_owner.contains(&x.0));
    // (Runs that push delegations/CNAMEs through the write interface leave
    // stale 'special' state behind - the known cut/cname findings - which
    // also changes what walk() visits; the guard is skipped there.)
    if got != expect && !specials_via_write {
        let d = got.iter().find(|x| !expect.contains(x)).map(|x| format!("unexpected {:?}", x)).or_else(|| expect.iter().find(|x| !got.contains(x)).map(|x| format!("missing {:?}", x)));
        if sim::violation(P8, "content", "walk-differs-from-records", format!("after {} commits / {} aborts the zone does not hold the expected records: {}", h.commits, h.aborts, d.unwrap_or_default())) {
            return;
        }
    }
    let direct = match build_direct_offering_refused(&c) {
        Ok(z) => z,
        Err(e) => {
            sim::harness_error(format!("final content does not build directly: {}", e));
            return;
        }
    };
    if super::zonestore::LOADER_TOOK_AN_OFFER.with(|c| c.get()) {
        return;
    }
    let direct_reader = direct.read();
    let mut qnames: Vec<String> = all.clone();
    for n in &names {
        qnames.push(format!("zz.{}", n));
    }
    qnames.push("zz.yy.example.".into());
    let mut n_cmp = 0u64;
    for q in &qnames {
        for t in QTYPES {
            let a_hist = query_zone(hist_reader.as_ref(), q, t);
            let a_dir = query_zone(direct_reader.as_ref(), q, t);
            n_cmp += 1;
            let (a_hist, a_dir) = match (a_hist, a_dir) {
                (Ok(a), Ok(b)) => (a, b),
                (x, y) => {
                    sim::violation(P8, "query", "query-failed", format!("{} {}: {:?} / {:?}", q, t, x.err(), y.err()));
                    return;
                }
            };
            // (1) direct construction vs the RFC reference.
            if let Some((sig, d)) = compare_ref(&c, q, t, &a_dir) {
                if sim::violation(P8, "rfc-direct", sig, format!("zone built directly from the records, query {} {}: {}", q, t, d)) {
                    return;
                }
            }
            // (2) history independence.
            if h.commits + h.aborts > 0 && a_hist != a_dir {
                // Glue is the one trigger a clean history does not avoid by
                // construction; it only ever explains a difference in the
                // additional section of a referral.
                let glue_only = a_hist.kind() == "REFERRAL" && a_dir.kind() == "REFERRAL" && a_hist.answer == a_dir.answer && a_hist.authority == a_dir.authority;
                let m = if clean {
                    if glue_only && glue_written(&c, &h, q) {
                        "glue-via-write-interface"
                    } else {
                        "clean-history"
                    }
                } else {
                    match marker(&c, &h, q) {
                        "glue-via-write-interface" if !glue_only => "no-known-cause",
                        m => m,
                    }
                };
                let sig = format!("history-{}-direct-{}/{}", a_hist.kind(), a_dir.kind(), m);
                if sim::violation(
                    P8,
                    "history",
                    sig,
                    format!("query {} {} after {} commits / {} aborts: zone with history answers {:?}, zone built directly from the same records answers {:?}", q, t, h.commits, h.aborts, a_hist, a_dir),
                ) {
                    return;
                }
            }
        }
    }
    // Names outside the zone - ancestors of the apex (the root among them),
    // a sibling, a name the apex is the front part of - have no answer in
    // it: the zone says so rather than answering for some node of its own.
    let mut outside: Vec<String> = vec![".".into(), format!("x{}", APEX), format!("{}other.", APEX), "other.".into()];
    let mut rest = APEX;
    while let Some((_, r)) = rest.split_once('.') {
        if r.is_empty() {
            break;
        }
        outside.push(r.to_string());
        rest = r;
    }
    for q in &outside {
        for t in [Rtype::A, Rtype::SOA, Rtype::NS] {
            for (which, r) in [("with history", hist_reader.as_ref()), ("built directly", direct_reader.as_ref())] {
                n_cmp += 1;
                if let Ok(a) = query_zone(r, q, t) {
                    if sim::violation(P8, "scope", "name-outside-the-zone-answered".to_string(), format!("zone {} ({}) answered {} {}: {:?}", APEX, which, q, t, a)) {
                        return;
                    }
                }
            }
        }
    }
    sim::stat_add("counter.queries_compared", n_cmp);
    if h.aborts > 0 {
        sim::stat("probe.history_with_abort");
    }
    let _ = stored_name;
}
