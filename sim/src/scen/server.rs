//! C16 — servers answer each request once, correctly framed and within the
//! size limit. Real: DgramServer, StreamServer, Connection, the mandatory /
//! EDNS / cookies middleware, MessageBuilder. Stub: the bottom Service
//! (behaviour encoded in the query name), the clients (well-behaved and
//! hostile), the network.

use crate::core::exec::{step, Exec};
use crate::core::net::{self, addr, ConnectPlan, Cut, PipeCfg, SimListener, UdpNet};
use crate::core::runner::{Scenario, Tier};
use crate::core::sim;
use crate::dns;
use domain::base::iana::{Class, Rcode};
use domain::base::{Message, MessageBuilder, Name, Rtype, Ttl};
use domain::net::server::buf::VecBufSource;
use domain::net::server::dgram::{self, DgramServer};
use domain::net::server::message::Request;
use domain::net::server::middleware::cookies::CookiesMiddlewareSvc;
use domain::net::server::middleware::edns::EdnsMiddlewareSvc;
use domain::net::server::middleware::mandatory::MandatoryMiddlewareSvc;
use domain::net::server::service::{CallResult, Service, ServiceError, ServiceFeedback, ServiceResult};
use domain::net::server::stream::{self, StreamServer};
use domain::net::server::util::mk_builder_for_target;
use domain::net::server::ConnectionConfig;
use domain::rdata::Txt;
use futures_util::stream::Stream;
use std::cell::RefCell;
use std::collections::BTreeMap;
use std::future::Future;
use std::pin::Pin;
use std::rc::Rc;
use std::sync::Arc;
use std::time::Duration;
use tokio::io::{AsyncReadExt, AsyncWriteExt};

const P: &str = "C16";

// -------------------------------------------------------------- the service

/// What a request asks the stub service to do, encoded in its first label:
/// `k<k>-n<records>-s<txt size>-m<responses>-d<delay ms>-e<error>-p<section>-o<own OPT>`
/// (section: 0 answer, 1 authority, 2 additional).
#[derive(Clone, Copy, Debug, PartialEq)]
struct Ask {
    k: u32,
    n: u32,
    s: u32,
    m: u32,
    d: u32,
    e: u32,
    p: u32,
    /// The service's response carries an OPT record of its own (1), with an
    /// option in it (2).
    o: u32,
}

impl Ask {
    fn label(&self) -> String {
        format!("k{}-n{}-s{}-m{}-d{}-e{}-p{}-o{}", self.k, self.n, self.s, self.m, self.d, self.e, self.p, self.o)
    }
    fn parse(label: &str) -> Option<Ask> {
        let mut a = Ask { k: 0, n: 0, s: 0, m: 1, d: 0, e: 0, p: 0, o: 0 };
        for part in label.split('-') {
            if part.is_empty() || !part.is_char_boundary(1) {
                return None;
            }
            let (c, v) = part.split_at(1);
            let v: u32 = v.parse().ok()?;
            match c {
                "k" => a.k = v,
                "n" => a.n = v,
                "s" => a.s = v,
                "m" => a.m = v,
                "d" => a.d = v,
                "e" => a.e = v,
                "p" => a.p = v,
                "o" => a.o = v,
                _ => return None,
            }
        }
        Some(a)
    }
    /// Number of responses the service produces for this request.
    fn produces(&self) -> u32 {
        match self.e {
            4 => 0,
            1..=3 | 5 | 6 => 1,
            // (a streamed answer that fails midway: what was produced, and
            // the error response in the failed item's place)
            7 => self.m.clamp(1, 3) + 1,
            _ => self.m.max(1),
        }
    }
}

#[derive(Clone)]
struct SimService;

thread_local! {
    /// When the service handed back its response (stream) for request k.
    static PRODUCED: RefCell<BTreeMap<u32, u64>> = const { RefCell::new(BTreeMap::new()) };
    /// The request `mk_request` built last is one a middleware answers in
    /// the service's place (EDNS version 1): one reply.
    static LAST_REQ_SHORT: std::cell::Cell<bool> = const { std::cell::Cell::new(false) };
    /// When the service was called for request k.
    static CALLED: RefCell<BTreeMap<u32, u64>> = const { RefCell::new(BTreeMap::new()) };
    /// When `StreamServer::reconfigure()` was called in this run.
    static RECONF_NS: RefCell<Vec<u64>> = const { RefCell::new(Vec::new()) };
    /// The stream server's configured idle timeout in this run (ms).
    static IDLE_MS: std::cell::Cell<u64> = const { std::cell::Cell::new(0) };
    /// When `StreamServer::shutdown()` was called in this run, if it was.
    static SHUTDOWN_NS: std::cell::Cell<Option<u64>> = const { std::cell::Cell::new(None) };
    /// When `DgramServer::shutdown()` was called in this run, if it was.
    static DG_SHUTDOWN_NS: std::cell::Cell<Option<u64>> = const { std::cell::Cell::new(None) };
}

type SvcStream = Pin<Box<dyn Stream<Item = ServiceResult<Vec<u8>>> + Send>>;

fn build_response(req: &Message<Vec<u8>>, ask: &Ask, j: u32) -> domain::base::message_builder::AdditionalBuilder<domain::base::StreamTarget<Vec<u8>>> {
    let builder = mk_builder_for_target::<Vec<u8>>();
    let mut ab = builder.start_answer(req, Rcode::NOERROR).expect("start_answer");
    let texts: Vec<Txt<Vec<u8>>> = (0..ask.n)
        .map(|i| {
            let mut text = format!("k{}r{}i{}:", ask.k, j, i).into_bytes();
            while (text.len() as u32) < ask.s.max(1).min(255) {
                text.push(b'x');
            }
            text.truncate(255);
            Txt::<Vec<u8>>::build_from_slice(&text).expect("txt")
        })
        .collect();
    if ask.n >= 300 {
        ab.clear_push_limit();
    }
    let q = req.sole_question().ok();
    // The records go to the section the request names (a referral or a
    // negative answer has all its bulk outside the answer section).
    if let (Some(q), 0) = (&q, ask.p) {
        for txt in &texts {
            if ab.push((q.qname(), Class::IN, Ttl::from_secs(60), txt.clone())).is_err() {
                break;
            }
        }
    }
    let mut au = ab.authority();
    if let (Some(q), 1) = (&q, ask.p) {
        for txt in &texts {
            if au.push((q.qname(), Class::IN, Ttl::from_secs(60), txt.clone())).is_err() {
                break;
            }
        }
    }
    let mut ad = au.additional();
    if let (Some(q), 2) = (&q, ask.p) {
        for txt in &texts {
            if ad.push((q.qname(), Class::IN, Ttl::from_secs(60), txt.clone())).is_err() {
                break;
            }
        }
    }
    if ask.o == 3 {
        // The service marks its answer as truncated itself (it may have cut
        // it down to some size of its own liking): whatever it says, what
        // goes out over UDP respects the requester's limit.
        sim::stat("probe.service_sets_tc_itself");
        ad.header_mut().set_tc(true);
    }
    if ask.o == 4 {
        // An OPT record of the service's own with a lot in it (an option of
        // 700 octets): more than a small datagram holds all by itself.
        sim::stat("probe.service_response_with_a_big_opt_of_its_own");
        let _ = ad.opt(|o| {
            o.set_udp_payload_size(1400);
            o.push_raw_option(domain::base::iana::OptionCode::from_int(65_002), 700, |t| octseq::OctetsBuilder::append_slice(t, &[0xCD; 700]))?;
            Ok(())
        });
    }
    if ask.o == 1 || ask.o == 2 {
        // The service answers with an OPT record of its own (behind whatever
        // it put into the additional section): the middleware has to take it
        // out again for a client without EDNS, or to merge its own options
        // into it - either way without losing a record.
        sim::stat("probe.service_response_with_own_opt");
        let _ = ad.opt(|o| {
            o.set_udp_payload_size(1400);
            if ask.o == 2 {
                o.push_raw_option(domain::base::iana::OptionCode::from_int(65_001), 10, |t| octseq::OctetsBuilder::append_slice(t, &[0xAB; 10]))?;
            }
            Ok(())
        });
    }
    ad
}

impl Service<Vec<u8>, ()> for SimService {
    type Target = Vec<u8>;
    type Stream = SvcStream;
    type Future = Pin<Box<dyn Future<Output = SvcStream> + Send>>;

    fn call(&self, request: Request<Vec<u8>, ()>) -> Self::Future {
        Box::pin(async move {
            let msg = request.message().clone();
            let ask = msg.sole_question().ok().and_then(|q| {
                let name = format!("{}", q.qname());
                let first = name.split('.').next().unwrap_or("").to_string();
                Ask::parse(&first)
            });
            let ask = match ask {
                Some(a) => a,
                None => {
                    // Hostile or unknown question: refuse.
                    sim::stat("counter.service_refused_unknown");
                    let item: ServiceResult<Vec<u8>> = Err(ServiceError::Refused);
                    return Box::pin(futures_util::stream::once(std::future::ready(item))) as SvcStream;
                }
            };
            ev!("service call k={} ask={:?}", ask.k, ask);
            if ask.d > 0 {
                tokio::time::sleep(Duration::from_millis(ask.d as u64)).await;
                sim::sync_clock();
            }
            CALLED.with(|p| p.borrow_mut().insert(ask.k, sim::now_ns()));
            if ask.e == 6 {
                // A service that simply takes one and a half times the idle
                // timeout: a connection with a request in flight is not idle.
                sim::stat("probe.service_slower_than_idle_timeout");
                tokio::time::sleep(Duration::from_millis(IDLE_MS.with(|c| c.get()) * 3 / 2)).await;
                sim::sync_clock();
                PRODUCED.with(|p| p.borrow_mut().insert(ask.k, sim::now_ns()));
                let item: ServiceResult<Vec<u8>> = Ok(CallResult::new(build_response(&msg, &ask, 0)));
                return Box::pin(futures_util::stream::once(std::future::ready(item))) as SvcStream;
            }
            if ask.e == 5 {
                // Feedback first - a longer idle timeout for this connection
                // -, then silence for one and a half times the old timeout,
                // then the response: the connection must still be there.
                let idle = IDLE_MS.with(|c| c.get());
                sim::stat("probe.reconfigure_feedback_then_slow_response");
                let first: ServiceResult<Vec<u8>> = Ok(CallResult::feedback_only(ServiceFeedback::Reconfigure { idle_timeout: Some(Duration::from_millis(idle * 3)) }));
                let (m2, a2) = (msg.clone(), ask);
                let second = async move {
                    tokio::time::sleep(Duration::from_millis(idle * 3 / 2)).await;
                    sim::sync_clock();
                    PRODUCED.with(|p| p.borrow_mut().insert(a2.k, sim::now_ns()));
                    let item: ServiceResult<Vec<u8>> = Ok(CallResult::new(build_response(&m2, &a2, 0)));
                    item
                };
                use futures_util::StreamExt;
                return Box::pin(futures_util::stream::once(std::future::ready(first)).chain(futures_util::stream::once(second))) as SvcStream;
            }
            PRODUCED.with(|p| p.borrow_mut().insert(ask.k, sim::now_ns()));
            if ask.e == 7 {
                // A streamed answer that fails midway: one to three responses,
                // then an error item - which goes out as an error response
                // like any other, behind what was sent before it.
                sim::stat("probe.service_stream_fails_after_some_responses");
                let mut items: Vec<ServiceResult<Vec<u8>>> = (0..ask.m.clamp(1, 3)).map(|j| Ok(CallResult::new(build_response(&msg, &ask, j)))).collect();
                items.push(Err(ServiceError::InternalError));
                return Box::pin(futures_util::stream::iter(items)) as SvcStream;
            }
            match ask.e {
                1 => return Box::pin(futures_util::stream::once(std::future::ready(Err(ServiceError::Refused)))) as SvcStream,
                2 => return Box::pin(futures_util::stream::once(std::future::ready(Err(ServiceError::FormatError)))) as SvcStream,
                3 => return Box::pin(futures_util::stream::once(std::future::ready(Err(ServiceError::InternalError)))) as SvcStream,
                4 => return Box::pin(futures_util::stream::empty()) as SvcStream,
                _ => {}
            }
            if ask.m <= 1 {
                // Every fourth response carries feedback for the server along
                // with it (as the library's own example service does): it is
                // a response like any other.
                let mut cr = CallResult::new(build_response(&msg, &ask, 0));
                if ask.k % 4 == 3 {
                    sim::stat("probe.response_with_feedback_attached");
                    cr = cr.with_feedback(ServiceFeedback::Reconfigure { idle_timeout: None });
                }
                let item: ServiceResult<Vec<u8>> = Ok(cr);
                Box::pin(futures_util::stream::once(std::future::ready(item))) as SvcStream
            } else {
                // A transaction of m responses.
                // The brackets of the transaction come as items of their own
                // or ride on the first / last response.
                let begin_attached = ask.k % 3 == 1;
                let end_attached = ask.k % 5 == 2;
                let mut items: Vec<ServiceResult<Vec<u8>>> = Vec::new();
                if !begin_attached {
                    items.push(Ok(CallResult::feedback_only(ServiceFeedback::BeginTransaction)));
                }
                for j in 0..ask.m {
                    let mut cr = CallResult::new(build_response(&msg, &ask, j));
                    if begin_attached && j == 0 {
                        sim::stat("probe.transaction_begin_attached_to_first_response");
                        cr = cr.with_feedback(ServiceFeedback::BeginTransaction);
                    }
                    if end_attached && j + 1 == ask.m {
                        cr = cr.with_feedback(ServiceFeedback::EndTransaction);
                    }
                    items.push(Ok(cr));
                }
                if !end_attached {
                    items.push(Ok(CallResult::feedback_only(ServiceFeedback::EndTransaction)));
                }
                Box::pin(futures_util::stream::iter(items)) as SvcStream
            }
        })
    }
}

// ------------------------------------------------------------------ ledger

#[derive(Clone, Debug)]
struct Sent {
    ask: Ask,
    id: u16,
    /// None = no EDNS; Some(size) = advertised UDP payload size.
    edns: Option<u16>,
    udp: bool,
    client: usize,
    conn: usize,
    sent_ns: u64,
    /// A middleware answers this request itself with one (error) reply.
    short: bool,
    /// The connection this request went over was disturbed by the client
    /// (abort, stall beyond the write timeout, burst beyond the queue).
    excused: Option<&'static str>,
    /// Stream requests: when their connection was set up.
    conn_ns: u64,
}

impl Sent {
    /// Responses the server owes for this request.
    fn expects(&self) -> u32 {
        if self.short {
            1
        } else {
            self.ask.produces()
        }
    }
}

#[derive(Default)]
struct Ledger {
    sent: Vec<Sent>,
    /// Responses received: (client, conn, bytes, udp).
    got: Vec<(usize, usize, Vec<u8>, bool)>,
    misframed: Vec<String>,
    /// Connections on which the client itself sent a hostile frame (the
    /// server may answer it, e.g. FORMERR to a QR=1 message).
    junk_conns: Vec<(usize, usize)>,
    /// The datagram server's configured response size limit over time:
    /// (when reconfigure() was called, the new value).
    dgram_limits: Vec<(u64, Option<u16>)>,
    /// The links of the stream connections (client, conn): looked at after
    /// the run for what happened to the server's side of them.
    links: Vec<(usize, usize, net::LinkCtl)>,
}

type Led = Rc<RefCell<Ledger>>;

fn mk_request(ask: &Ask, id: u16, edns: Option<u16>, dnssec_ok: bool, tcp: bool) -> Vec<u8> {
    let mut mb = MessageBuilder::new_vec();
    mb.header_mut().set_id(id);
    mb.header_mut().set_rd(true);
    LAST_REQ_SHORT.with(|c| c.set(false));
    // Now and then another opcode (only IQUERY is refused by the mandatory
    // middleware; these reach the service like a query does).
    if sim::chance("req.other_opcode", 1, 16) {
        mb.header_mut().set_opcode(*sim::pick("req.opcode", &[domain::base::iana::Opcode::STATUS, domain::base::iana::Opcode::NOTIFY, domain::base::iana::Opcode::UPDATE]));
        sim::stat("probe.request_with_other_opcode");
    }
    let mut q = mb.question();
    let name = Name::<Vec<u8>>::from_chars(format!("{}.svc.", ask.label()).chars()).unwrap();
    q.push((name, Rtype::TXT)).unwrap();
    let mut ad = q.additional();
    if edns.is_none() && sim::chance("req.extra_additional", 1, 4) {
        // A request without EDNS may still carry additional records.
        sim::stat("probe.non_edns_request_with_additional_record");
        let extra = Name::<Vec<u8>>::from_chars("extra.svc.".chars()).unwrap();
        ad.push((extra, domain::base::iana::Class::IN, domain::base::Ttl::from_secs(0), domain::rdata::A::new(std::net::Ipv4Addr::new(192, 0, 2, 9)))).unwrap();
    }
    if let Some(size) = edns {
        // A DNS cookie now and then: a client cookie alone, or with a server
        // cookie this server never issued (answered with BADCOOKIE over UDP).
        let cookie = match sim::draw("req.cookie", 8) {
            0 => Some(domain::base::opt::cookie::Cookie::new(domain::base::opt::cookie::ClientCookie::from_octets([ask.k as u8, 1, 2, 3, 4, 5, 6, 7]), None)),
            1 => Some(domain::base::opt::cookie::Cookie::new(
                domain::base::opt::cookie::ClientCookie::from_octets([ask.k as u8, 1, 2, 3, 4, 5, 6, 7]),
                Some(domain::base::opt::cookie::ServerCookie::from_octets(&[9u8; 16])),
            )),
            _ => None,
        };
        if cookie.is_some() {
            sim::stat("probe.request_with_dns_cookie");
        }
        // EDNS version 1 (answered BADVERS by the EDNS middleware).
        let edns_v1 = sim::chance("req.edns_version_1", 1, 16);
        if edns_v1 {
            sim::stat("probe.request_with_edns_version_1");
            LAST_REQ_SHORT.with(|c| c.set(true));
        }
        // An edns-tcp-keepalive option (meaningless, but harmless, over UDP).
        let keepalive = sim::chance("req.keepalive", 1, 6);
        // RFC 7828 section 3.2.1: a client's option carries no timeout; one
        // that does is answered FORMERR by the EDNS middleware over a
        // stream (and ignored, like the option as a whole, over UDP).
        let keepalive_timeout = keepalive && sim::chance("req.keepalive_with_timeout", 1, 3);
        if keepalive {
            sim::stat("probe.request_with_tcp_keepalive_option");
        }
        if keepalive_timeout {
            sim::stat("probe.request_with_keepalive_timeout");
            if tcp {
                LAST_REQ_SHORT.with(|c| c.set(true));
            }
        }
        ad.opt(|o| {
            o.set_udp_payload_size(size);
            o.set_dnssec_ok(dnssec_ok);
            if let Some(c) = cookie {
                o.cookie(c)?;
            }
            if keepalive {
                o.tcp_keepalive(if keepalive_timeout { Some(domain::base::opt::keepalive::IdleTimeout::from(100u16)) } else { None })?;
            }
            if edns_v1 {
                o.set_version(1);
            }
            Ok(())
        })
        .unwrap();
    }
    ad.into_message().into_octets()
}

fn gen_ask(k: u32, udp: bool) -> Ask {
    let kind = sim::draw("ask.kind", 10);
    let (n, s) = match kind {
        0..=3 => (sim::draw("ask.n_small", 3) as u32, 10 + sim::draw("ask.s_small", 40) as u32),
        4 | 5 => (2 + sim::draw("ask.n_mid", 4) as u32, 100 + sim::draw("ask.s_mid", 155) as u32), // around 512
        6 => (4 + sim::draw("ask.n_big", 6) as u32, 255),                                            // around 1232
        7 => (12 + sim::draw("ask.n_huge", 20) as u32, 255),                                         // beyond 4096
        _ => (1, 20),
    };
    // Over a stream, now and then, as much as a message can hold: the
    // service pushes records until the builder refuses at the 65535-octet
    // ceiling.
    let (n, s) = if !udp && sim::chance("ask.max_size", 1, 40) {
        sim::stat("probe.response_filled_to_the_64k_ceiling");
        (300, 255)
    } else {
        (n, s)
    };
    // (Over UDP too, now and then: two or three datagrams for one request.)
    let m = if !udp && n < 300 && sim::chance("ask.multi", 1, 5) {
        2 + sim::draw("ask.m", 12) as u32
    } else if udp && sim::chance("ask.multi_udp", 1, 12) {
        sim::stat("probe.several_responses_to_one_datagram");
        2 + sim::draw("ask.m_udp", 2) as u32
    } else {
        1
    };
    let d = match sim::draw("ask.delay", 6) {
        0..=3 => 0,
        4 => sim::draw("ask.delay_ms", 30) as u32,
        _ => 50 + sim::draw("ask.delay_long", 200) as u32,
    };
    let mut e = if sim::chance("ask.err", 1, 8) { 1 + sim::draw("ask.err_kind", 5) as u32 } else { 0 };
    if e == 5 {
        // (5 and 6 are the slow services below.)
        e = if udp { 3 } else { 7 };
    }
    // With a short idle timeout: now and then a request whose service first
    // asks for a longer one and answers after the old one has passed.
    if !udp && IDLE_MS.with(|c| c.get()) == 2000 && sim::chance("ask.reconfigure_then_slow", 1, 10) {
        e = 5 + sim::draw("ask.plain_slow", 2) as u32;
    }
    let p = if sim::chance("ask.other_section", 1, 5) { 1 + sim::draw("ask.section", 2) as u32 } else { 0 };
    let o = if sim::chance("ask.own_opt", 1, 6) { 1 + sim::draw("ask.own_opt_kind", 4) as u32 } else { 0 };
    Ask { k, n, s, m, d, e, p, o }
}

fn gen_edns() -> Option<u16> {
    match sim::draw("edns.kind", 8) {
        0 | 1 => None,
        2 => Some(1232),
        3 => Some(4096),
        4 => Some(512),
        5 => Some(*sim::pick("edns.small", &[0u16, 1, 100, 511])),
        6 => Some(*sim::pick("edns.edge", &[513u16, 1231, 1233, 65535])),
        _ => Some(600 + sim::draw("edns.any", 3000) as u16),
    }
}

/// The connection limit binds: `max` + 0..3 connections that just sit there,
/// opened a few milliseconds apart, all closed again after a while (or closed
/// by the server's idle timer); then a client that must be served - it tries
/// up to five times, a second apart, and waits 20 s for its answer each time.
async fn crowd_then_late_client(listener: SimListener, max: usize, accept_at_max: bool, idle_timeout_ms: u64) {
    let planner: Arc<dyn Fn(usize) -> ConnectPlan + Send + Sync> = Arc::new(|_| ConnectPlan::default());
    let c = listener.connector(addr(70, 6100), planner.clone());
    sim::sleep_ms(sim::draw("crowd.start_ms", 20)).await;
    let n = max + sim::draw("crowd.extra", 4) as usize;
    let mut held = Vec::new();
    for _ in 0..n {
        if let Ok(s) = c.connect_sim().await {
            held.push(s);
        }
        sim::sleep_ms(sim::draw("crowd.gap_ms", 4)).await;
    }
    let hold_ms = *sim::pick("crowd.hold_ms", &[50u64, 500, 1500, 6000]);
    sim::sleep_ms(hold_ms).await;
    // Some leave in an orderly way, one after the other; or all at once.
    if sim::chance("crowd.leave_one_by_one", 1, 2) {
        while let Some(s) = held.pop() {
            drop(s);
            sim::sleep_ms(sim::draw("crowd.leave_gap_ms", 10)).await;
        }
    } else {
        held.clear();
    }
    ev!("the crowd of {} connections (limit {}, accept at the limit: {}, held {} ms, idle timeout {} ms) is gone", n, max, accept_at_max, hold_ms, idle_timeout_ms);
    sim::sleep_ms(*sim::pick("crowd.then_ms", &[1u64, 50, 5000])).await;
    if !late_stream_client(&listener, 71, 900_000).await {
        sim::violation(
            P,
            "liveness",
            format!("stream-server-serves-nobody-after-the-connection-limit-was-reached/accept-at-max-{}", accept_at_max),
            format!("{} connections (limit {}) were opened and closed again; a client that came afterwards tried five times, a second apart, and waited 20 s each time: no answer", n, max),
        );
    }
}

/// The server is reconfigured (idle timeout 2 s -> 30 s) while a connection
/// is still being set up, or just before, or just after. On each of these
/// connections a request is answered, five quiet seconds pass - longer than
/// the old idle timeout, far below the new one - and a second request is
/// answered too.
async fn reconfigure_during_setup(listener: SimListener, reconfigure: Box<dyn Fn(stream::Config)>, new_cfg: stream::Config) {
    let setup_ms = 50 + sim::draw("rds.setup_ms", 200);
    // When the connection is opened relative to the reconfigure() call (at
    // 300 ms): well before (set up and running), so that the call falls into
    // its set-up, or after.
    let connect_at = match sim::draw("rds.when", 3) {
        0 => 100,
        1 => 300 - setup_ms / 2,
        _ => 350,
    };
    let slow: Arc<dyn Fn(usize) -> ConnectPlan + Send + Sync> = Arc::new(move |_| ConnectPlan { setup_delay_ms: if connect_at == 100 { 0 } else { setup_ms }, ..Default::default() });
    let c = listener.connector(addr(75, 6400), slow);
    let client = async move {
        sim::sleep_ms(connect_at).await;
        let mut s = c.connect_sim().await.ok()?;
        for (n, id) in [(1u32, 0x7501u16), (2, 0x7502)] {
            let ask = Ask { k: 930_000 + n, n: 1, s: 20, m: 1, d: 0, e: 0, p: 0, o: 0 };
            let mut q = MessageBuilder::new_vec();
            q.header_mut().set_id(id);
            let mut q = q.question();
            q.push((Name::<Vec<u8>>::from_chars(format!("{}.svc.", ask.label()).chars()).unwrap(), Rtype::TXT)).unwrap();
            if s.write_all(&dns::frame(&q.into_message().into_octets())).await.is_err() {
                return Some(n);
            }
            let mut len = [0u8; 2];
            let got = tokio::time::timeout(Duration::from_secs(10), async {
                s.read_exact(&mut len).await.ok()?;
                let mut body = vec![0u8; u16::from_be_bytes(len) as usize];
                s.read_exact(&mut body).await.ok()?;
                Some(body)
            })
            .await;
            sim::sync_clock();
            match got {
                Ok(Some(body)) if dns::parse(&body).is_some_and(|p| p.id == id && p.qr) => {}
                _ => return Some(n),
            }
            if n == 1 {
                sim::sleep_ms(5000).await;
            }
        }
        None
    };
    let reconf = async move {
        sim::sleep_ms(300).await;
        ev!("stream server reconfigure(): idle timeout 2 s -> 30 s");
        reconfigure(new_cfg);
    };
    let (failed_at, _) = futures_util::join!(client, reconf);
    if let Some(n) = failed_at {
        sim::violation(
            P,
            "exactly-once",
            "response-lost/stream/connection-lives-by-the-configuration-from-before-reconfigure".to_string(),
            format!("the server was reconfigured at 300 ms (idle timeout 2 s -> 30 s); a connection opened at {} ms (set-up {} ms) got no answer to its request number {} (the second one comes five quiet seconds after the first)", connect_at, if connect_at == 100 { 0 } else { setup_ms }, n),
        );
    }
}

/// A well-behaved stream client with one plain request: up to five attempts
/// (a fresh connection each), a second apart, 20 s for the answer each time.
async fn late_stream_client(listener: &SimListener, host: u8, k: u32) -> bool {
    let planner: Arc<dyn Fn(usize) -> ConnectPlan + Send + Sync> = Arc::new(|_| ConnectPlan::default());
    let late = listener.connector(addr(host, 6200), planner);
    let ask = Ask { k, n: 1, s: 20, m: 1, d: 0, e: 0, p: 0, o: 0 };
    for attempt in 0..5u16 {
        let id = 0x7100 + attempt;
        let mut mb = MessageBuilder::new_vec();
        mb.header_mut().set_id(id);
        let mut q = mb.question();
        q.push((Name::<Vec<u8>>::from_chars(format!("{}.svc.", ask.label()).chars()).unwrap(), Rtype::TXT)).unwrap();
        let req = q.into_message().into_octets();
        let answered = async {
            let mut s = late.connect_sim().await.ok()?;
            s.write_all(&dns::frame(&req)).await.ok()?;
            let mut len = [0u8; 2];
            s.read_exact(&mut len).await.ok()?;
            let mut body = vec![0u8; u16::from_be_bytes(len) as usize];
            s.read_exact(&mut body).await.ok()?;
            Some(body)
        };
        let got = tokio::time::timeout(Duration::from_secs(20), answered).await;
        sim::sync_clock();
        match got {
            Ok(Some(body)) => {
                let ok = dns::parse(&body).is_some_and(|p| p.id == id && p.qr && p.qname.as_deref().is_some_and(|q| q.starts_with(&ask.label())));
                if !ok {
                    sim::violation(P, "attribution", "late-client-got-something-else", format!("the client that came after the crowd got {} octets that are not the answer to its request id={:#x}", body.len(), id));
                }
                ev!("late client served at attempt {}", attempt + 1);
                sim::stat("probe.late_stream_client_served");
                return true;
            }
            Ok(None) => {
                ev!("late client: attempt {} turned away", attempt + 1);
            }
            Err(_) => {
                ev!("late client: attempt {} unanswered for 20 s", attempt + 1);
            }
        }
        sim::sleep_ms(1000).await;
    }
    false
}

/// The same over UDP: one plain request with EDNS, up to five transmissions,
/// 10 s for the answer each time.
async fn late_udp_client(udp: &UdpNet, server: std::net::SocketAddr, k: u32) -> bool {
    let sock = udp.bind(addr(73, 6300));
    let ask = Ask { k, n: 1, s: 20, m: 1, d: 0, e: 0, p: 0, o: 0 };
    for attempt in 0..5u16 {
        let id = 0x7300 + attempt;
        let mut mb = MessageBuilder::new_vec();
        mb.header_mut().set_id(id);
        let mut q = mb.question();
        q.push((Name::<Vec<u8>>::from_chars(format!("{}.svc.", ask.label()).chars()).unwrap(), Rtype::TXT)).unwrap();
        let mut ad = q.additional();
        ad.opt(|o| {
            o.set_udp_payload_size(1232);
            Ok(())
        })
        .unwrap();
        sock.send_exact(server, ad.into_message().into_octets(), 0);
        let deadline = tokio::time::Instant::now() + Duration::from_secs(10);
        while let Ok((d, _)) = tokio::time::timeout_at(deadline, sock.recv_from()).await {
            sim::sync_clock();
            if dns::parse(&d).is_some_and(|p| p.id == id && p.qr && p.qname.as_deref().is_some_and(|q| q.starts_with(&ask.label()))) {
                sim::stat("probe.late_udp_client_served");
                return true;
            }
        }
        sim::sync_clock();
        ev!("late udp client: transmission {} unanswered for 10 s", attempt + 1);
    }
    false
}

// ------------------------------------------------------------------ hostile

fn hostile_payload() -> (Vec<u8>, &'static str) {
    match sim::draw("hostile.kind", 11) {
        0 => {
            let n = sim::draw("hostile.rand_len", 40) as usize;
            ((0..n).map(|i| if i == 0 { 0xED } else { (sim::draw("hostile.byte", 256) as u8).wrapping_add(i as u8) }).collect(), "fault.hostile_random")
        }
        1 => {
            // A response (QR=1).
            let mut b = mk_request(&Ask { k: 9999, n: 0, s: 0, m: 1, d: 0, e: 0, p: 0, o: 0 }, 60077, None, false, false);
            b[2] |= 0x80;
            (b, "fault.hostile_qr1")
        }
        2 => {
            // Counts that lie.
            let mut b = mk_request(&Ask { k: 9998, n: 0, s: 0, m: 1, d: 0, e: 0, p: 0, o: 0 }, 60078, None, false, false);
            b[4..6].copy_from_slice(&(sim::draw("hostile.qd", 65536) as u16).to_be_bytes());
            b[6..8].copy_from_slice(&(sim::draw("hostile.an", 65536) as u16).to_be_bytes());
            (b, "fault.hostile_counts")
        }
        3 => {
            // Compression loop in the question name.
            let mut b = vec![0u8; 12];
            b[0] = 0xEC;
            b[5] = 1;
            b.extend_from_slice(&[0xC0, 12, 0, 16, 0, 1]);
            (b, "fault.hostile_loop")
        }
        4 => {
            // Truncated message.
            let mut b = mk_request(&Ask { k: 9997, n: 0, s: 0, m: 1, d: 0, e: 0, p: 0, o: 0 }, 60079, Some(1232), false, false);
            let keep = 1 + sim::draw("hostile.trunc", b.len() as u64 - 1) as usize;
            b.truncate(keep);
            (b, "fault.hostile_truncated")
        }
        5 => {
            // Two OPT records.
            let mut mb = MessageBuilder::new_vec();
            mb.header_mut().set_id(60080);
            let mut q = mb.question();
            q.push((Name::<Vec<u8>>::from_chars("k9996-n1-s10-m1-d0-e0.svc.".chars()).unwrap(), Rtype::TXT)).unwrap();
            let mut ad = q.additional();
            ad.opt(|o| {
                o.set_udp_payload_size(1232);
                Ok(())
            })
            .unwrap();
            ad.opt(|o| {
                o.set_udp_payload_size(4096);
                Ok(())
            })
            .unwrap();
            (ad.into_message().into_octets(), "fault.hostile_two_opt")
        }
        6 => {
            // EDNS version 1.
            let mut mb = MessageBuilder::new_vec();
            mb.header_mut().set_id(60081);
            let mut q = mb.question();
            q.push((Name::<Vec<u8>>::from_chars("k9995-n1-s10-m1-d0-e0.svc.".chars()).unwrap(), Rtype::TXT)).unwrap();
            let mut ad = q.additional();
            ad.opt(|o| {
                o.set_udp_payload_size(1232);
                o.set_version(1);
                Ok(())
            })
            .unwrap();
            (ad.into_message().into_octets(), "fault.hostile_edns_v1")
        }
        7 => {
            // Header only.
            let mut b = vec![0u8; 12];
            b[0] = 0xEB;
            b[1] = 9;
            (b, "fault.hostile_header_only")
        }
        8 => {
            // Opcode IQUERY / two questions.
            let mut mb = MessageBuilder::new_vec();
            mb.header_mut().set_id(60082);
            let mut q = mb.question();
            q.push((Name::<Vec<u8>>::from_chars("a.svc.".chars()).unwrap(), Rtype::TXT)).unwrap();
            q.push((Name::<Vec<u8>>::from_chars("b.svc.".chars()).unwrap(), Rtype::TXT)).unwrap();
            (q.into_message().into_octets(), "fault.hostile_two_questions")
        }
        9 => {
            // No question at all, but an OPT record with a client cookie
            // (RFC 7873 section 5.4: a server cookie may be fetched that way).
            let mut mb = MessageBuilder::new_vec();
            mb.header_mut().set_id(60083);
            let mut ad = mb.additional();
            ad.opt(|o| {
                o.set_udp_payload_size(1232);
                o.cookie(domain::base::opt::cookie::Cookie::new(domain::base::opt::cookie::ClientCookie::from_octets([8, 7, 6, 5, 4, 3, 2, 1]), None))?;
                Ok(())
            })
            .unwrap();
            (ad.into_message().into_octets(), "fault.hostile_no_question_with_cookie")
        }
        _ => (Vec::new(), "fault.hostile_empty"),
    }
}

// ---------------------------------------------------------------- clients

async fn udp_client(led: Led, udp: UdpNet, server: std::net::SocketAddr, client: usize, n_reqs: u32, k0: u32) {
    let sock = udp.bind(addr(10 + client as u8, 5000));
    let mut pending = 0;
    for i in 0..n_reqs {
        let gap = sim::draw("udp.gap_ms", 20);
        if gap > 0 {
            sim::sleep_ms(gap).await;
        } else {
            step().await;
        }
        let ask = gen_ask(k0 + i, true);
        let edns = gen_edns();
        let id = (1000 + k0 + i) as u16;
        let bytes = mk_request(&ask, id, edns, sim::chance("udp.do", 1, 4), false);
        ev!("udp client{} sends k={} id={} edns={:?} ask={:?} ({} octets)", client, ask.k, id, edns, ask, bytes.len());
        led.borrow_mut().sent.push(Sent {
            ask,
            id,
            edns,
            udp: true,
            short: LAST_REQ_SHORT.with(|c| c.get()),
            client,
            conn: 0,
            sent_ns: sim::now_ns(),
            excused: None,
            conn_ns: 0,
        });
        sock.send_exact(server, bytes, sim::draw("udp.latency", 3));
        pending += 1;
        // Opportunistically drain.
        while let Some((d, _)) = sock.try_recv_from() {
            led.borrow_mut().got.push((client, 0, d, true));
        }
    }
    let _ = pending;
    // Collect everything that arrives within the settle time.
    let deadline = tokio::time::Instant::now() + Duration::from_secs(8);
    loop {
        match tokio::time::timeout_at(deadline, sock.recv_from()).await {
            Ok((d, _)) => {
                sim::sync_clock();
                ev!("udp client{} got {} octets", client, d.len());
                led.borrow_mut().got.push((client, 0, d, true));
            }
            Err(_) => break,
        }
    }
}

async fn udp_hostile(udp: UdpNet, server: std::net::SocketAddr, client: usize, n: u32, junk_rx: Rc<RefCell<Vec<Vec<u8>>>>) {
    let sock = udp.bind(addr(200 + client as u8, 6000));
    for _ in 0..n {
        let (bytes, kind) = hostile_payload();
        sim::stat(kind);
        ev!("udp hostile{} sends {} ({} octets)", client, kind, bytes.len());
        sock.send_exact(server, bytes, 0);
        sim::sleep_ms(sim::draw("hostile.gap", 10)).await;
    }
    let deadline = tokio::time::Instant::now() + Duration::from_secs(2);
    while let Ok((d, _)) = tokio::time::timeout_at(deadline, sock.recv_from()).await {
        junk_rx.borrow_mut().push(d);
    }
}

#[derive(Clone, Copy)]
struct StreamKnobs {
    max_queued: usize,
    write_timeout_ms: u64,
    idle_timeout_ms: u64,
}

/// Shared state of one client connection.
struct ConnState {
    /// Requests (ledger indices) not yet fully answered.
    outstanding: Vec<usize>,
    writer_done: bool,
    eof: bool,
    /// When the writer side last put a request on the wire.
    last_write_ns: u64,
    /// When the reader side last received a complete frame.
    last_rx_ns: u64,
}

async fn conn_reader(led: Led, st: Rc<RefCell<ConnState>>, mut rd: tokio::io::ReadHalf<net::SimStream>, client: usize, conn: usize, first_idx: usize, stall_ms: u64) {
    if stall_ms > 0 {
        sim::stat("fault.client_slow_reader");
        sim::sleep_ms(stall_ms).await;
    }
    let mut inbuf: Vec<u8> = Vec::new();
    let mut tmp = [0u8; 2048];
    let mut counts: BTreeMap<usize, u32> = BTreeMap::new();
    loop {
        let r = tokio::time::timeout(Duration::from_secs(6), rd.read(&mut tmp)).await;
        sim::sync_clock();
        match r {
            Err(_) => {
                // Give up six quiet seconds after the last request went out.
                if st.borrow().writer_done && sim::now_ns().saturating_sub(st.borrow().last_write_ns) >= 6_000_000_000 {
                    break;
                }
                continue;
            }
            Ok(Ok(0)) | Ok(Err(_)) => {
                st.borrow_mut().eof = true;
                sim::stat("probe.server_closed_connection");
                break;
            }
            Ok(Ok(n)) => inbuf.extend_from_slice(&tmp[..n]),
        }
        while inbuf.len() >= 2 {
            let len = u16::from_be_bytes([inbuf[0], inbuf[1]]) as usize;
            if inbuf.len() < 2 + len {
                break;
            }
            let body = inbuf[2..2 + len].to_vec();
            inbuf.drain(..2 + len);
            st.borrow_mut().last_rx_ns = sim::now_ns();
            ev!("tcp client{} conn{} got frame of {} octets id={}", client, conn, len, if body.len() >= 2 { u16::from_be_bytes([body[0], body[1]]) as i32 } else { -1 });
            // Bookkeeping of what is still outstanding.
            if body.len() >= 2 {
                let id = u16::from_be_bytes([body[0], body[1]]);
                let l = led.borrow();
                if let Some(idx) = (first_idx..l.sent.len()).find(|i| l.sent[*i].client == client && l.sent[*i].conn == conn && l.sent[*i].id == id) {
                    let c = counts.entry(idx).or_insert(0);
                    *c += 1;
                    if *c >= l.sent[idx].expects() {
                        st.borrow_mut().outstanding.retain(|x| *x != idx);
                    }
                }
            }
            led.borrow_mut().got.push((client, conn, body, false));
        }
    }
    if !inbuf.is_empty() && !st.borrow().eof {
        // Stray octets on a live connection: a server may be cut off
        // mid-frame when it closes, never leave garbage on a live stream.
        led.borrow_mut().misframed.push(format!("client{} conn{}: {} stray octets on a live connection", client, conn, inbuf.len()));
    }
}

/// How long a client waits for the server to take its octets (a connection
/// nobody accepts or reads any more must not hang the client).
const WRITE_PATIENCE: Duration = Duration::from_secs(100);

#[allow(clippy::too_many_arguments)]
async fn stream_client(exec: Exec, led: Led, listener: SimListener, client: usize, n_conns: u32, k0: u32, knobs: StreamKnobs, hostile_ok: bool) {
    let mut k = k0;
    for conn in 0..n_conns as usize {
        let slow_reader = sim::chance("tcp.slow_reader", 1, 6);
        let pipe = PipeCfg {
            segment: sim::chance("tcp.segment", 1, 2),
            stall: sim::chance("tcp.stall", 1, 4),
            latency_ms: sim::draw("tcp.latency", 3),
            window: if slow_reader { 64 + sim::draw("tcp.window", 400) as usize } else { 1 << 20 },
            eintr: false,
            eintr_w: false,
        };
        // The server's reads are interrupted now and then (EINTR: nothing
        // consumed, to be retried - not a reason to give the connection up).
        // Its writes too, behind a short write: part of a frame is out then.
        // A server may give such a connection up - what it must not do is go
        // on with the frame from its first octet.
        let server_pipe = PipeCfg { eintr: sim::chance("tcp.server_reads_interrupted", 1, 4), eintr_w: sim::chance("tcp.server_writes_interrupted", 1, 6), ..pipe };
        let planner: Arc<dyn Fn(usize) -> ConnectPlan + Send + Sync> = Arc::new(move |_| ConnectPlan {
            client_cfg: pipe,
            server_cfg: server_pipe,
            ..Default::default()
        });
        let connector = listener.connector(addr(10 + client as u8, 7000 + conn as u16), planner);
        let (stream, ctl) = match connector.connect_sim_ctl().await {
            Ok(x) => {
                led.borrow_mut().links.push((client, conn, x.1.clone()));
                x
            }
            Err(_) => return,
        };
        let (rd, mut wr) = tokio::io::split(stream);
        let n_reqs = 1 + sim::draw("tcp.n_reqs", 14) as u32;
        // Pacing: one burst, paced without regard to the server's response
        // queue, or windowed (never more than max_queued outstanding).
        let mode = sim::draw("tcp.mode", 3);
        let abort_after = if sim::chance("tcp.abort", 1, 6) { Some(sim::draw("tcp.abort_after", n_reqs as u64 + 1) as u32) } else { None };
        let junk_at = if hostile_ok && sim::chance("tcp.junk", 1, 8) { Some(sim::draw("tcp.junk_at", n_reqs as u64 + 1) as u32) } else { None };
        // (Not reading at all for a while: nothing, once or twice the write
        // timeout - or, where that is well below the write timeout, a second
        // longer than the idle timeout: a connection with responses still to
        // be written is not idle.)
        let stall_read_ms = if slow_reader {
            let k = sim::draw("tcp.stall_read_ms", 4);
            if k == 3 {
                if knobs.idle_timeout_ms + 1000 < knobs.write_timeout_ms / 2 {
                    sim::stat("probe.reader_stalls_past_the_idle_timeout");
                    knobs.idle_timeout_ms + 1000
                } else {
                    0
                }
            } else {
                k * knobs.write_timeout_ms
            }
        } else {
            0
        };
        let past_idle_stall = slow_reader && stall_read_ms == knobs.idle_timeout_ms + 1000 && stall_read_ms < knobs.write_timeout_ms;
        let conn_start_ns = sim::now_ns();
        let first_idx = led.borrow().sent.len();
        let st = Rc::new(RefCell::new(ConnState {
            outstanding: Vec::new(),
            writer_done: false,
            eof: false,
            last_write_ns: 0,
            last_rx_ns: 0,
        }));
        let reader = exec.spawn(format!("tcp{}.conn{}.reader", client, conn), conn_reader(led.clone(), st.clone(), rd, client, conn, first_idx, stall_read_ms));
        let mut out: Vec<u8> = Vec::new();
        let mut aborted = false;
        let mut junk_sent = false;
        let mut slow_next = false;
        for i in 0..n_reqs {
            if abort_after == Some(i) {
                aborted = true;
                break;
            }
            // Nothing more can be asked over a connection the server closed.
            if st.borrow().eof {
                break;
            }
            if junk_at == Some(i) {
                let (bytes, kind) = hostile_payload();
                sim::stat(kind);
                let framed = match sim::draw("tcp.junk_frame", 3) {
                    0 => dns::frame(&bytes),
                    1 => {
                        let mut f = dns::frame(&bytes);
                        let lie = (bytes.len() as u16).wrapping_add(1 + sim::draw("tcp.junk_lie", 500) as u16);
                        f[0..2].copy_from_slice(&lie.to_be_bytes());
                        f
                    }
                    _ => vec![0, 0],
                };
                ev!("tcp client{} conn{} sends hostile frame {} ({} octets)", client, conn, kind, framed.len());
                out.extend_from_slice(&framed);
                junk_sent = true;
                led.borrow_mut().junk_conns.push((client, conn));
                // Everything on this connection is excused from here on,
                // including requests still outstanding.
                let stl = st.borrow();
                let mut l = led.borrow_mut();
                for idx in stl.outstanding.iter() {
                    l.sent[*idx].excused.get_or_insert("hostile-input-on-same-connection");
                }
            }
            if mode == 2 {
                // Windowed: wait until the server's queue has room.
                // (Back off: a stalled connection costs a few hundred
                // wake-ups, not tens of thousands.)
                let mut waited = 0u64;
                let mut rounds = 0u32;
                while st.borrow().outstanding.len() >= knobs.max_queued.max(1) && !st.borrow().eof && waited < 20_000 {
                    let d = 1u64 << (rounds / 4).min(6);
                    sim::sleep_ms(d).await;
                    waited += d;
                    rounds += 1;
                }
            }
            let mut ask = gen_ask(k, false);
            if std::mem::take(&mut slow_next) && ask.e == 0 {
                // The request that ends a quiet period takes a while to serve.
                ask.d = 200 + sim::draw("ask.delay_after_quiet", 600) as u32;
            }
            let edns = if sim::chance("tcp.edns", 1, 2) { Some(1232) } else { None };
            let id = (k % 60000) as u16;
            let bytes = mk_request(&ask, id, edns, false, true);
            let short = LAST_REQ_SHORT.with(|c| c.get());
            ev!("tcp client{} conn{} queues k={} id={} ask={:?}{}", client, conn, ask.k, id, ask, if short { " (EDNS version 1: answered by the middleware)" } else { "" });
            let idx = {
                let mut l = led.borrow_mut();
                l.sent.push(Sent {
                    ask,
                    id,
                    edns,
                    udp: false,
                    short,
                    client,
                    conn,
                    sent_ns: sim::now_ns(),
                    excused: if junk_sent { Some("hostile-input-on-same-connection") } else { None },
                    conn_ns: conn_start_ns,
                });
                l.sent.len() - 1
            };
            if short || ask.produces() > 0 {
                st.borrow_mut().outstanding.push(idx);
            }
            // More in flight than the server's response queue holds: the
            // documented policy is to discard what does not fit.
            {
                let stl = st.borrow();
                let in_flight: u32 = stl.outstanding.iter().map(|i| led.borrow().sent[*i].expects()).sum();
                if stl.outstanding.len() > knobs.max_queued || in_flight as usize > knobs.max_queued {
                    sim::stat("probe.in_flight_exceeds_response_queue");
                    let mut l = led.borrow_mut();
                    for idx in stl.outstanding.iter() {
                        l.sent[*idx].excused.get_or_insert("more-in-flight-than-max-queued-responses");
                    }
                }
            }
            out.extend_from_slice(&dns::frame(&bytes));
            k += 1;
            if mode != 0 {
                match tokio::time::timeout(WRITE_PATIENCE, wr.write_all(&out)).await {
                    Ok(Ok(())) => {}
                    Ok(Err(_)) => break,
                    Err(_) => {
                        // Part of the octets may be out: the connection is
                        // of no further use to this client.
                        sim::stat("probe.client_gave_up_writing");
                        out.clear();
                        aborted = true;
                        break;
                    }
                }
                out.clear();
                if !slow_reader && !junk_sent && sim::chance("tcp.quiet_period", 1, 10) {
                    // Everything answered, then silence for almost the
                    // server's idle timeout, then the next request (whose
                    // service may take a while): the connection is not idle
                    // while that request is being served.
                    let mut waited = 0;
                    while !st.borrow().outstanding.is_empty() && !st.borrow().eof && waited < 5_000 {
                        sim::sleep_ms(5).await;
                        waited += 5;
                    }
                    if st.borrow().outstanding.is_empty() && !st.borrow().eof {
                        // The server's idle period began no earlier than
                        // shortly (link latency) before our last receipt.
                        let base = st.borrow().last_rx_ns.max(st.borrow().last_write_ns) / 1_000_000;
                        let until = (base + knobs.idle_timeout_ms).saturating_sub(150 + sim::draw("tcp.quiet_margin_ms", 300));
                        sim::sync_clock();
                        let now = sim::now_ns() / 1_000_000;
                        if until > now {
                            sim::stat("probe.quiet_period_just_below_idle_timeout");
                            ev!("tcp client{} conn{} stays quiet for {} ms (idle timeout {} ms)", client, conn, until - now, knobs.idle_timeout_ms);
                            sim::sleep_ms(until - now).await;
                            // (While some task busy-waits, simulated timers
                            // fire up to 64 ms late.)
                            if sim::now_ns() / 1_000_000 > until + 70 {
                                break;
                            }
                            slow_next = true;
                        }
                    }
                }
                let gap = sim::draw("tcp.gap_ms", 10);
                if gap > 0 {
                    sim::sleep_ms(gap).await;
                } else {
                    step().await;
                }
            }
        }
        let mut gave_up = false;
        if !out.is_empty() {
            // One burst; possibly split at an arbitrary octet with a pause
            // (a request only partly received for a while).
            if sim::chance("tcp.split_write", 1, 2) && out.len() > 2 {
                let cut = 1 + sim::draw("tcp.split_at", out.len() as u64 - 1) as usize;
                sim::stat("probe.request_split_across_writes");
                if tokio::time::timeout(WRITE_PATIENCE, wr.write_all(&out[..cut])).await.is_err() {
                    gave_up = true;
                } else {
                    sim::sleep_ms(1 + sim::draw("tcp.split_pause", 30)).await;
                    gave_up = tokio::time::timeout(WRITE_PATIENCE, wr.write_all(&out[cut..])).await.is_err();
                }
            } else {
                gave_up = tokio::time::timeout(WRITE_PATIENCE, wr.write_all(&out)).await.is_err();
            }
            if gave_up {
                sim::stat("probe.client_gave_up_writing");
                aborted = true;
            }
        }
        {
            let mut l = led.borrow_mut();
            for s in l.sent[first_idx..].iter_mut().filter(|s| s.client == client && s.conn == conn) {
                if aborted {
                    s.excused.get_or_insert("client-aborted-connection");
                }

                if slow_reader && stall_read_ms >= knobs.write_timeout_ms {
                    s.excused.get_or_insert("client-stalled-beyond-write-timeout");
                }
                // The reader that looks away for longer than the idle timeout
                // does not see the server close a connection that really was
                // idle (everything answered); what it sends after that moment
                // may go nowhere. What was sent before is owed.
                if past_idle_stall && s.sent_ns > conn_start_ns + knobs.idle_timeout_ms * 1_000_000 {
                    s.excused.get_or_insert("sent-after-the-connection-may-have-idled-out");
                }
                // A tiny receive window turns a large response into many
                // round trips; with a short write timeout the server may
                // legitimately give up on such a link.
                if slow_reader && knobs.write_timeout_ms <= 1000 {
                    s.excused.get_or_insert("small-window-link-vs-short-write-timeout");
                }
            }
        }
        if aborted {
            sim::stat("fault.client_abort");
            if sim::chance("tcp.abort_rst", 1, 2) {
                ctl.reset_now();
            }
            st.borrow_mut().writer_done = true;
            exec.cancel(reader.id());
            drop(wr);
            continue;
        }
        st.borrow_mut().last_write_ns = sim::now_ns();
        st.borrow_mut().writer_done = true;
        reader.join().await;
        let _ = tokio::time::timeout(WRITE_PATIENCE, wr.shutdown()).await;
    }
    let _ = Cut::Fin;
}

// ---------------------------------------------------------------- scenario

pub struct ServerScn;

impl Scenario for ServerScn {
    fn name(&self) -> &'static str {
        "server"
    }
    fn property(&self) -> &'static str {
        P
    }
    fn max_vtime(&self) -> Duration {
        Duration::from_secs(3600)
    }
    fn event_cap(&self) -> u64 {
        60_000
    }
    fn livelock_is_violation(&self) -> bool {
        true
    }
    fn components(&self) -> (Vec<&'static str>, Vec<&'static str>) {
        (
            vec![
                "net::server::dgram::DgramServer",
                "net::server::stream::StreamServer",
                "net::server::connection::Connection (DnsMessageReceiver, response queue, idle timer)",
                "net::server::invoker (dispatch, transactions)",
                "net::server::middleware::{mandatory, edns, cookies}",
                "net::server::util::{mk_builder_for_target, mk_error_response}",
                "base::MessageBuilder / StreamTarget",
            ],
            vec!["bottom Service (behaviour encoded in the query name)", "well-behaved and hostile clients", "SimNet datagram sockets, listener and stream pipes", "response ledger and oracle"],
        )
    }
    fn rule(&self) -> &'static str {
        "one real DgramServer and one real StreamServer with the mandatory+EDNS(+cookies) middleware over a stub service; 1-3 UDP clients (requests with no EDNS / EDNS sizes 0..65535, answers sized below and above 512/1232/4096, service delays, service errors, empty service streams) and 1-3 stream clients (1-14 pipelined requests per connection in one burst or paced, writes split at arbitrary octets, segmentation/stalls, streamed multi-response transactions, slow readers with small windows, aborts by FIN/RST, hostile frames), optionally a peer whose connections fail their server-side set-up (with a connection limit that never binds legitimately), plus hostile UDP senders (random octets, QR=1, lying counts, compression loop, truncated, two OPT, EDNS v1, two questions, empty); optional reconfigure() mid-run; server limits (max_response_size, max_queued_responses, write timeout) drawn per run."
    }
    fn assumptions(&self) -> Vec<&'static str> {
        vec![
            "responses lost on a connection are excused only if that connection's own client misbehaved (abort, hostile frame, read stall beyond the write timeout) or pipelined more than max_queued_responses at once (documented discard policy, reported separately)",
            "tokio-spawned per-request tasks are scheduled FIFO by the runtime",
        ]
    }
    fn run(&self, tier: Tier) -> Pin<Box<dyn Future<Output = ()>>> {
        Box::pin(run(tier))
    }
}

async fn run(_tier: Tier) {
    let hostile = sim::draw("hostile", 4) != 0;
    let max_response_size = *sim::pick("cfg.max_response_size", &[Some(1232u16), Some(512), Some(4096), None, Some(700)]);
    let mut knobs = StreamKnobs {
        max_queued: *sim::pick("cfg.max_queued", &[10usize, 2, 1, 64]),
        write_timeout_ms: *sim::pick("cfg.write_timeout", &[30_000u64, 1000, 200]),
        idle_timeout_ms: 1000 * *sim::pick("cfg.idle_timeout", &[30u64, 2, 10]),
    };
    // One run in ten: the server starts with a short idle timeout (2 s) and
    // is reconfigured to a long one (30 s) while a connection is still being
    // set up (a handshake that takes a while). That connection, too, lives
    // by the new setting. No other stream clients in such a run.
    let reconf_during_setup = sim::chance("cfg.reconfigure_during_a_connection_setup", 1, 10);
    if reconf_during_setup {
        knobs.idle_timeout_ms = 2000;
        sim::stat("probe.reconfigure_during_a_connection_setup");
    }
    let knobs = knobs;
    let use_cookies = sim::chance("cfg.cookies", 1, 3);
    ev!("cfg max_response_size={:?} max_queued={} write_timeout={}ms cookies={} hostile={}", max_response_size, knobs.max_queued, knobs.write_timeout_ms, use_cookies, hostile);

    PRODUCED.with(|p| p.borrow_mut().clear());
    CALLED.with(|p| p.borrow_mut().clear());
    RECONF_NS.with(|p| p.borrow_mut().clear());
    IDLE_MS.with(|c| c.set(knobs.idle_timeout_ms));
    SHUTDOWN_NS.with(|c| c.set(None));
    DG_SHUTDOWN_NS.with(|c| c.set(None));
    let udp = UdpNet::new();
    let server_addr = addr(1, 53);
    let server_sock = udp.bind(server_addr);
    server_sock.spurious_readiness(sim::chance("cfg.spurious_readiness", 1, 3));
    let listener = net::listener("srv");
    let led: Led = Rc::new(RefCell::new(Ledger::default()));

    // Servers (real code).
    let mut dcfg = dgram::Config::new();
    dcfg.set_max_response_size(max_response_size);
    // Back-pressure on the datagram socket: sends that stall for less than
    // the write timeout must still go out; longer ones may be given up.
    let dg_write_timeout_ms = *sim::pick("cfg.dgram_write_timeout", &[5000u64, 200, 1000]);
    dcfg.set_write_timeout(Duration::from_millis(dg_write_timeout_ms));
    if sim::chance("cfg.dgram_send_stalls", 1, 3) {
        server_sock.stall_sends(150, vec![dg_write_timeout_ms / 4, dg_write_timeout_ms / 2 + 1, dg_write_timeout_ms * 2]);
    }
    let mut ccfg = ConnectionConfig::new();
    ccfg.set_max_queued_responses(knobs.max_queued);
    ccfg.set_response_write_timeout(Duration::from_millis(knobs.write_timeout_ms));
    ccfg.set_idle_timeout(Duration::from_millis(knobs.idle_timeout_ms));
    let mut scfg = stream::Config::new();
    scfg.set_connection_config(ccfg);
    // At most three well-behaved stream clients with one connection each
    // (plus one that is just closing): a limit of eight never binds unless
    // the server loses count.
    let conn_limit = *sim::pick("cfg.conn_limit", &[0usize, 0, 8, 9]);
    if conn_limit > 0 {
        scfg.set_max_concurrent_connections(conn_limit);
    }
    // One run in six the limit does bind: a crowd of connections that just
    // sit there takes every slot (and more), leaves again, and a client that
    // comes afterwards must be served. No other stream clients in such a
    // run (a connection turned away at the limit is the configured policy).
    let limit_binds = !reconf_during_setup && sim::chance("cfg.conn_limit_binds", 1, 6);
    let accept_at_max = sim::chance("cfg.accept_connections_at_max", 1, 2);
    if limit_binds {
        sim::stat("probe.connection_limit_binds");
        scfg.set_max_concurrent_connections(1 + sim::draw("cfg.conn_limit_small", 3) as usize);
        scfg.set_accept_connections_at_max(accept_at_max);
    }

    let dgram_limit_log: Arc<std::sync::Mutex<Vec<(u64, Option<u16>)>>> = Arc::new(std::sync::Mutex::new(vec![(0, max_response_size)]));
    let reconf_hook: Rc<RefCell<Option<Box<dyn Fn(stream::Config)>>>> = Rc::new(RefCell::new(None));
    macro_rules! start {
        ($svc:expr) => {{
            let svc = $svc;
            let dsrv = Arc::new(DgramServer::with_config(server_sock.clone(), VecBufSource, svc.clone(), dcfg));
            let ssrv = Arc::new(StreamServer::with_config(listener.clone(), VecBufSource, svc, scfg.clone()));
            let d2 = dsrv.clone();
            tokio::spawn(async move { d2.run().await });
            let s2 = ssrv.clone();
            tokio::spawn(async move { s2.run().await });
            {
                let s5 = ssrv.clone();
                *reconf_hook.borrow_mut() = Some(Box::new(move |c: stream::Config| {
                    let _ = s5.reconfigure(c);
                }));
            }
            // Reconfigure mid-run (same settings): must be harmless.
            if !reconf_during_setup && sim::chance("cfg.reconfigure", 1, 3) {
                let at = sim::draw("cfg.reconfigure_at_ms", 60);
                let s3 = ssrv.clone();
                let cfg = scfg.clone();
                let n = 1 + sim::draw("cfg.reconfigure_n", 3);
                tokio::spawn(async move {
                    for _ in 0..n {
                        tokio::time::sleep(Duration::from_millis(at + 1)).await;
                        sim::stat("fault.reconfigure");
                        sim::sync_clock();
                        RECONF_NS.with(|r| r.borrow_mut().push(sim::now_ns()));
                        ev!("stream server reconfigure()");
                        let _ = s3.reconfigure(cfg.clone());
                    }
                });
            }
            // The stream server is shut down mid-run: what the service had
            // produced by then is still written ("pending responses will be
            // written as long as the client side remains operational").
            // The datagram server is shut down mid-run: "in-flight requests
            // will continue being processed ... pending responses will be
            // written" - a request the service had been called for by then
            // still gets its answer.
            if sim::chance("cfg.dgram_shutdown", 1, 8) {
                let at = 1 + sim::draw("cfg.dgram_shutdown_at_ms", 160);
                let d4 = dsrv.clone();
                tokio::spawn(async move {
                    tokio::time::sleep(Duration::from_millis(at)).await;
                    sim::sync_clock();
                    sim::stat("fault.dgram_server_shutdown");
                    ev!("datagram server shutdown()");
                    DG_SHUTDOWN_NS.with(|c| c.set(Some(sim::now_ns())));
                    let _ = d4.shutdown();
                });
            }
            if !limit_binds && !reconf_during_setup && sim::chance("cfg.shutdown", 1, 6) {
                let at = 1 + sim::draw("cfg.shutdown_at_ms", 160);
                let s4 = ssrv.clone();
                tokio::spawn(async move {
                    tokio::time::sleep(Duration::from_millis(at)).await;
                    sim::sync_clock();
                    sim::stat("fault.stream_server_shutdown");
                    ev!("stream server shutdown()");
                    SHUTDOWN_NS.with(|c| c.set(Some(sim::now_ns())));
                    let _ = s4.shutdown();
                });
            }
            // The datagram server gets a different response size limit
            // mid-run: from then on the new limit counts.
            if sim::chance("cfg.dgram_reconfigure_before_the_loop_runs", 1, 8) {
                // reconfigure() right behind the spawn, before the server's
                // run loop has been polled for the first time: it returned
                // Ok, so the new limit is the one in force from the start.
                let new_limit = *sim::pick("cfg.dgram_new_limit", &[Some(512u16), Some(700), Some(1232), None]);
                let mut ncfg = dgram::Config::new();
                ncfg.set_max_response_size(new_limit);
                ncfg.set_write_timeout(Duration::from_millis(dg_write_timeout_ms));
                sim::stat("fault.dgram_reconfigure_before_the_loop_runs");
                ev!("datagram server reconfigure() before its loop runs: max_response_size {:?}", new_limit);
                if dsrv.reconfigure(ncfg).is_ok() {
                    *dgram_limit_log.lock().unwrap() = vec![(0, new_limit)];
                }
            } else if sim::chance("cfg.dgram_reconfigure", 1, 4) {
                let at = 5 + sim::draw("cfg.dgram_reconfigure_at_ms", 80);
                let new_limit = *sim::pick("cfg.dgram_new_limit", &[Some(512u16), Some(700), Some(1232), None]);
                let d3 = dsrv.clone();
                let led3 = led.clone();
                let mut ncfg = dgram::Config::new();
                ncfg.set_max_response_size(new_limit);
                ncfg.set_write_timeout(Duration::from_millis(dg_write_timeout_ms));
                // (A local task: the ledger is not Send.)
                let _ = &led3;
                let limits = dgram_limit_log.clone();
                tokio::spawn(async move {
                    tokio::time::sleep(Duration::from_millis(at)).await;
                    sim::sync_clock();
                    sim::stat("fault.dgram_reconfigure_new_limit");
                    ev!("datagram server reconfigure(): max_response_size {:?}", new_limit);
                    limits.lock().unwrap().push((sim::now_ns(), new_limit));
                    let _ = d3.reconfigure(ncfg);
                });
            }
            (Box::new(dsrv) as Box<dyn std::any::Any>, Box::new(ssrv) as Box<dyn std::any::Any>)
        }};
    }
    // The mandatory middleware in its relaxed mode (it then lets IQUERY and
    // multi-question requests through to the service; everything it does to
    // responses - size limit, TC, id, QR, RD - stays).
    let relaxed = sim::chance("cfg.mandatory_relaxed", 1, 4);
    if relaxed {
        sim::stat("probe.mandatory_middleware_relaxed");
    }
    let _servers = if use_cookies {
        let mut svc = CookiesMiddlewareSvc::<Vec<u8>, _, ()>::new(SimService, [7u8; 16]);
        if sim::chance("cfg.cookie_deny_list", 1, 3) {
            // The first UDP client must present cookies.
            svc = svc.with_denied_ips(vec![addr(10, 5000).ip()]);
            sim::stat("probe.cookie_deny_list");
        }
        let svc = EdnsMiddlewareSvc::new(svc);
        start!(if relaxed { MandatoryMiddlewareSvc::<Vec<u8>, _, ()>::relaxed(svc) } else { MandatoryMiddlewareSvc::<Vec<u8>, _, ()>::new(svc) })
    } else {
        let svc = EdnsMiddlewareSvc::<Vec<u8>, _, ()>::new(SimService);
        start!(if relaxed { MandatoryMiddlewareSvc::<Vec<u8>, _, ()>::relaxed(svc) } else { MandatoryMiddlewareSvc::<Vec<u8>, _, ()>::new(svc) })
    };

    let exec = Exec::new();
    let n_udp = sim::draw("n_udp_clients", 4) as usize;
    let n_tcp = if limit_binds || reconf_during_setup { 0 } else { sim::draw("n_tcp_clients", 4) as usize };
    let junk: Rc<RefCell<Vec<Vec<u8>>>> = Rc::new(RefCell::new(Vec::new()));
    let mut k = 1u32;
    for c in 0..n_udp {
        let n = 1 + sim::draw("udp.n_reqs", 8) as u32;
        exec.spawn(format!("udp{}", c), udp_client(led.clone(), udp.clone(), server_addr, c, n, k));
        k += n;
    }
    for c in 0..n_tcp {
        let conns = 1 + sim::draw("tcp.n_conns", 2) as u32;
        exec.spawn(format!("tcp{}", c), stream_client(exec.clone(), led.clone(), listener.clone(), 50 + c, conns, k, knobs, hostile));
        k += 40;
    }
    if limit_binds {
        let max = scfg.max_concurrent_connections();
        exec.spawn("crowd-then-late-client".to_string(), crowd_then_late_client(listener.clone(), max, accept_at_max, knobs.idle_timeout_ms));
    }
    if reconf_during_setup {
        let mut ccfg2 = ConnectionConfig::new();
        ccfg2.set_max_queued_responses(knobs.max_queued);
        ccfg2.set_response_write_timeout(Duration::from_millis(knobs.write_timeout_ms));
        ccfg2.set_idle_timeout(Duration::from_millis(30_000));
        let mut scfg2 = stream::Config::new();
        scfg2.set_connection_config(ccfg2);
        let hook = reconf_hook.borrow_mut().take().expect("reconfigure hook");
        exec.spawn("reconfigure-during-setup".to_string(), reconfigure_during_setup(listener.clone(), hook, scfg2));
    }
    if !limit_binds && !reconf_during_setup && sim::chance("setup_failer", 1, 3) {
        // Connections whose server-side set-up fails (a failed handshake),
        // spread over the run.
        let n = 1 + sim::draw("setup_failer.n", 14);
        let l2 = listener.clone();
        exec.spawn("setup-failer".to_string(), async move {
            // (Every third of them is gone before the server even accepts
            // it: accept() itself reports the error.)
            // Some set-ups hang for a while (up to 20 s, far longer than any
            // client's patience) before they fail or go through: meanwhile
            // the server has to go on accepting and serving everybody else.
            let slow = sim::chance("setup_failer.slow", 1, 2);
            let delays: Vec<u64> = (0..16).map(|_| if slow { *sim::pick("setup_failer.delay_ms", &[0u64, 0, 30, 900, 20_000]) } else { 0 }).collect();
            let planner: Arc<dyn Fn(usize) -> ConnectPlan + Send + Sync> = Arc::new(move |i| ConnectPlan {
                fail_setup: i % 3 != 2 && i % 5 != 4,
                accept_error: i % 3 == 2,
                setup_delay_ms: delays[i % 16],
                ..Default::default()
            });
            let c = l2.connector(addr(99, 7000), planner);
            for _ in 0..n {
                let s = c.connect_sim().await;
                sim::sleep_ms(sim::draw("setup_failer.gap_ms", 40)).await;
                drop(s);
            }
        });
    }
    if hostile {
        for c in 0..1 + sim::draw("n_hostile", 2) as usize {
            exec.spawn(format!("hostile{}", c), udp_hostile(udp.clone(), server_addr, c, 1 + sim::draw("hostile.n", 6) as u32, junk.clone()));
        }
    }
    let finished = tokio::time::timeout(Duration::from_secs(1200), exec.run()).await.is_ok();
    sim::sync_clock();
    if sim::over_cap() {
        return;
    }
    if !finished {
        sim::violation(P, "liveness", "clients-never-finished", "clients did not finish within 1200 virtual seconds");
        return;
    }
    // Afterwards: everybody has left (hostile senders, aborted and stalled
    // connections, the crowd), 100 virtual seconds pass - longer than every
    // idle and write timeout -, and one more well-behaved client per
    // transport asks one plain question. Whatever went before, the servers
    // are still there and serve it (no slot, counter or task lost for good).
    if !sim::stopped() && sim::chance("afterwards", 1, 2) {
        sim::stat("probe.afterwards_phase");
        ev!("everybody has left");
        sim::sleep_ms(100_000).await;
        if DG_SHUTDOWN_NS.with(|c| c.get()).is_none() && !late_udp_client(&udp, server_addr, 910_000).await {
            sim::violation(P, "liveness", "datagram-server-serves-nobody-after-the-run".to_string(), "100 s after every client had left, a plain UDP request with EDNS went unanswered five times in a row (10 s each)".to_string());
            return;
        }
        if SHUTDOWN_NS.with(|c| c.get()).is_none() && !late_stream_client(&listener, 74, 920_000).await {
            sim::violation(P, "liveness", "stream-server-serves-nobody-after-the-run".to_string(), "100 s after every client had left, a plain request over a fresh stream connection went unanswered five times in a row (20 s each)".to_string());
            return;
        }
    }
    led.borrow_mut().dgram_limits = dgram_limit_log.lock().unwrap().clone();
    // A response whose send was held up beyond the write timeout may be
    // given up by the server.
    for (dest, id, ms) in server_sock.stalled_sends() {
        if ms >= dg_write_timeout_ms {
            let mut l = led.borrow_mut();
            for s in l.sent.iter_mut().filter(|s| s.udp && s.id == id && addr(10 + s.client as u8, 5000) == dest) {
                s.excused.get_or_insert("send-stalled-beyond-write-timeout");
            }
        }
    }
    // A write of the server that failed (EINTR behind a short write) is a
    // reason to give that connection up: what it still owed there is excused.
    {
        let mut l = led.borrow_mut();
        let hit: Vec<(usize, usize)> = l.links.iter().filter(|(_, _, c)| c.b_write_interrupted()).map(|(a, b, _)| (*a, *b)).collect();
        for s in l.sent.iter_mut().filter(|s| !s.udp) {
            if hit.contains(&(s.client, s.conn)) {
                s.excused.get_or_insert("server-write-failed-connection-given-up");
            }
        }
    }
    check(&led, max_response_size, &junk.borrow());
}

fn txt_tags(v: &dns::View) -> Vec<String> {
    v.recs
        .iter()
        .filter(|r| r.rtype == Rtype::TXT)
        .map(|r| r.rdata.trim_matches('"').split(':').next().unwrap_or("").to_string())
        .collect()
}

fn check(led: &Led, max_response_size: Option<u16>, junk: &[Vec<u8>]) {
    let l = led.borrow();
    for m in &l.misframed {
        if sim::violation(P, "framing", "stray-octets-on-live-connection", m.clone()) {
            return;
        }
    }
    // Responses to hostile senders must at least be well-formed responses.
    for d in junk {
        match dns::view(d) {
            Some(v) if v.qr => {}
            _ => {
                if d.len() >= 12 && dns::parse(d).is_some_and(|p| p.qr) {
                    continue;
                }
                if sim::violation(P, "hostile", "malformed-reply-to-hostile-input", format!("server answered hostile input with {} octets that are not a well-formed response: {:02x?}", d.len(), &d[..d.len().min(40)])) {
                    return;
                }
            }
        }
    }
    // Attribute every received message.
    let mut per_req: BTreeMap<usize, Vec<&Vec<u8>>> = BTreeMap::new();
    for (client, conn, bytes, is_udp) in &l.got {
        let v = match dns::view(bytes) {
            Some(v) => v,
            None => {
                if sim::violation(P, "framing", if *is_udp { "unparseable-datagram" } else { "unparseable-frame" }, format!("client{} conn{} received {} octets that do not parse as a DNS message", client, conn, bytes.len())) {
                    return;
                }
                continue;
            }
        };
        if !v.qr {
            if sim::violation(P, "framing", "qr-clear", format!("client{} received a message with QR=0", client)) {
                return;
            }
        }
        // Which request of *this* client/connection does it answer?
        let idx = l.sent.iter().position(|s| s.client == *client && s.conn == *conn && s.udp == *is_udp && s.id == v.id);
        let idx = match idx {
            Some(i) => i,
            None if l.junk_conns.contains(&(*client, *conn)) => continue,
            None => {
                if sim::violation(
                    P,
                    "attribution",
                    "response-for-no-request-of-this-peer",
                    format!("client{} conn{} received id {} question {:?} which it never asked (misdelivered or invented)", client, conn, v.id, v.questions),
                ) {
                    return;
                }
                continue;
            }
        };
        let s = &l.sent[idx];
        let want_q = format!("{}.svc", s.ask.label());
        // (A header-only error reply - what the cookies middleware sends to a
        // denied or malformed request - needs only the ID, as for clients.)
        let header_only_error = v.questions.is_empty() && v.recs.is_empty() && v.rcode != Rcode::NOERROR;
        let q_ok = header_only_error || (v.questions.len() == 1 && v.questions[0].0.eq_ignore_ascii_case(&want_q) && v.questions[0].1 == Rtype::TXT);
        if (!q_ok || header_only_error) && l.junk_conns.contains(&(*client, *conn)) {
            // The answer to whatever the server made of this peer's own
            // misframed octets; its id coincides with a request's by chance.
            sim::stat("probe.reply_to_misframed_input_with_colliding_id");
            continue;
        }
        if !q_ok && s.excused != Some("hostile-input-on-same-connection") {
            if sim::violation(P, "attribution", "wrong-question", format!("response to k={} id={} carries question {:?}", s.ask.k, s.id, v.questions)) {
                return;
            }
        }
        // Content belongs to this request.
        for t in txt_tags(&v) {
            if !t.starts_with(&format!("k{}r", s.ask.k)) {
                if sim::violation(P, "attribution", "foreign-content", format!("response to k={} carries record tagged {}", s.ask.k, t)) {
                    return;
                }
            }
        }
        // UDP size limit and truncation.
        if *is_udp {
            // The configured limit that counts: the most permissive one
            // in force between the request being sent and the latest moment
            // the service could have answered it.
            let w0 = s.sent_ns;
            let w1 = s.sent_ns + (s.ask.d as u64 + 60) * 1_000_000;
            let mut in_force: Vec<Option<u16>> = Vec::new();
            for (i, (t, v)) in l.dgram_limits.iter().enumerate() {
                let until = l.dgram_limits.get(i + 1).map(|x| x.0).unwrap_or(u64::MAX);
                if *t <= w1 && until > w0 {
                    in_force.push(*v);
                }
            }
            if in_force.is_empty() {
                in_force.push(max_response_size);
            }
            let cfg_limit = if in_force.iter().any(|v| v.is_none()) { None } else { in_force.iter().map(|v| v.unwrap() as usize).max() };
            let limit = match s.edns {
                None => 512usize,
                Some(adv) => {
                    let adv = (adv as usize).max(512);
                    match cfg_limit {
                        Some(c) => adv.min(c.max(512)),
                        None => adv,
                    }
                }
            };
            if bytes.len() > limit {
                let sig = if s.edns.is_none() { "udp-response-exceeds-512-without-edns" } else { "udp-response-exceeds-negotiated-size" };
                if sim::violation(
                    P,
                    "udp-size",
                    sig,
                    format!("response to k={} is {} octets; limit {} (edns={:?}, configured max_response_size={:?})", s.ask.k, bytes.len(), limit, s.edns, max_response_size),
                ) {
                    return;
                }
            }
            let n_txt = v.recs.iter().filter(|r| r.section == 1 + s.ask.p as u8 && r.rtype == Rtype::TXT).count() as u32;
            if s.ask.e == 0 && v.full_rcode == 0 && n_txt < s.ask.n && !v.tc {
                if sim::violation(P, "udp-size", "content-dropped-without-tc", format!("response to k={} has {} of {} records and TC=0", s.ask.k, n_txt, s.ask.n)) {
                    return;
                }
            }
            if v.tc && s.edns.is_some() && v.opt.is_none() {
                if sim::violation(P, "udp-size", "truncated-response-lost-opt", format!("truncated response to k={} has no OPT although the query had one", s.ask.k)) {
                    return;
                }
            }
        }
        if !s.udp && s.ask.e == 0 && v.full_rcode == 0 && !v.tc {
            // Over a stream nothing needs to be left out: every record the
            // service put in arrives (for the fill-to-the-ceiling request:
            // as many as 65535 octets hold, more than 200).
            let n_txt = v.recs.iter().filter(|r| r.section == 1 + s.ask.p as u8 && r.rtype == Rtype::TXT).count() as u32;
            let want_txt = if s.ask.n >= 300 { 200 } else { s.ask.n };
            if n_txt < want_txt {
                if sim::violation(P, "framing", "stream-response-lost-records", format!("response to k={} over a stream has {} of the {} records the service put in (TC=0)", s.ask.k, n_txt, s.ask.n)) {
                    return;
                }
            }
        }
        per_req.entry(idx).or_default().push(bytes);
    }
    // Exactly once.
    for (i, s) in l.sent.iter().enumerate() {
        let got = per_req.get(&i).map(|v| v.len()).unwrap_or(0) as u32;
        // A middleware may answer in the service's place (BADCOOKIE, the
        // cookie deny list, FORMERR): then that one error reply is the
        // response, whatever the service would have produced.
        let short_circuited = got == 1
            && per_req.get(&i).is_some_and(|v| {
                dns::view(v[0]).is_some_and(|x| x.recs.iter().all(|r| r.section != 1) && x.full_rcode != 0)
            })
            && (s.ask.e == 4 || s.ask.e == 7 || s.ask.m > 1 || s.ask.n > 0);
        let want = if short_circuited { 1 } else { s.ask.produces() };
        if got > want {
            if sim::violation(P, "exactly-once", if s.udp { "duplicate-response/udp" } else { "duplicate-response/stream" }, format!("request k={} ({:?}) produced {} responses at the client, the service produced {}", s.ask.k, s.ask, got, want)) {
                return;
            }
        }
        if got < want {
            let sig = match s.excused {
                Some(e) => {
                    if e == "more-in-flight-than-max-queued-responses" {
                        format!("response-lost/{}", e)
                    } else {
                        // The client's own misbehaviour: not demanded.
                        sim::stat("probe.loss_excused_by_client_misbehaviour");
                        continue;
                    }
                }
                None => {
                    // After the datagram server's shutdown only what was in
                    // the service's hands by then is still owed.
                    if s.udp {
                        if let Some(t) = DG_SHUTDOWN_NS.with(|c| c.get()) {
                            let called = CALLED.with(|p| p.borrow().get(&s.ask.k).copied());
                            if !called.is_some_and(|tc| tc + 1_000_000 <= t) {
                                sim::stat("probe.loss_excused_by_shutdown");
                                continue;
                            }
                        }
                    }
                    let shut = SHUTDOWN_NS.with(|c| c.get());
                    match shut {
                        Some(t) if !s.udp => {
                            // Owed all the same: a single response the
                            // service had produced before the shutdown.
                            let produced = PRODUCED.with(|p| p.borrow().get(&s.ask.k).copied());
                            if s.ask.m <= 1 && produced.is_some_and(|tp| tp < t) {
                                "response-lost/stream/produced-before-shutdown".to_string()
                            } else {
                                sim::stat("probe.loss_excused_by_shutdown");
                                continue;
                            }
                        }
                        _ => {
                            // The idle timeout hits connections that still
                            // owe a response (known finding): a service that
                            // is slower than the timeout, or one that asked
                            // for a longer timeout first and had that undone
                            // by a server-level reconfigure().
                            let idle_ns = IDLE_MS.with(|c| c.get()) * 1_000_000;
                            let called = CALLED.with(|p| p.borrow().get(&s.ask.k).copied());
                            // (A reconfigure() issued *before* the service's feedback
                            // counts too: a connection busy writing to a slow
                            // reader takes the command from its channel only
                            // afterwards, i.e. after the feedback took effect.)
                            // (Not one issued a millisecond or more before the
                            // connection existed: a new connection applies the
                            // last command before it reads anything, well ahead
                            // of any feedback from a service.)
                            let undone = called.is_some_and(|t0| RECONF_NS.with(|r| r.borrow().iter().any(|t| *t <= t0 + idle_ns * 3 / 2 && *t + 1_000_000 > s.conn_ns)));
                            if !s.udp && (s.ask.e == 6 || (s.ask.e == 5 && undone)) {
                                "response-lost/stream/request-in-flight-longer-than-the-idle-timeout".to_string()
                            } else {
                                format!("response-lost/{}", if s.udp { "udp" } else { "stream" })
                            }
                        }
                    }
                }
            };
            if sim::violation(
                P,
                "exactly-once",
                sig,
                format!("request k={} ({:?}, sent at {:.3}s by client{} conn{}) got {} of the {} responses the service produced", s.ask.k, s.ask, s.sent_ns as f64 / 1e9, s.client, s.conn, got, want),
            ) {
                return;
            }
        }
        // Whatever cuts a transaction short (the connection going away)
        // loses its tail: what did arrive is responses 0, 1, 2, ... without a
        // gap. A response missing in front of later ones was dropped on its
        // way through the server - inside a transaction responses wait for
        // room in the queue, they are not discarded.
        if !s.udp && s.ask.m > 1 && !s.short && s.ask.e == 0 && got > 0 && got < want {
            let mut idxs = Vec::new();
            for b in &per_req[&i] {
                if let Some(v) = dns::view(b) {
                    if let Some(r) = v.recs.iter().find(|r| r.rtype == Rtype::TXT).and_then(|r| r.rdata.trim_matches('"').split(':').next().map(|t| t.to_string())).and_then(|t| t.split('r').nth(1).and_then(|x| x.split('i').next()).and_then(|x| x.parse::<u32>().ok())) {
                        idxs.push(r);
                    }
                }
            }
            if s.ask.n > 0 && idxs.len() as u32 == got && idxs.iter().enumerate().any(|(pos, r)| *r != pos as u32) {
                if sim::violation(P, "exactly-once", "transaction-response-dropped-ahead-of-later-ones", format!("request k={} ({:?}): of its {} responses those numbered {:?} arrived: one is missing in front of later ones", s.ask.k, s.ask, want, idxs)) {
                    return;
                }
            }
        }
        // Transaction order on streams.
        if !s.udp && want > 1 && got == want {
            let mut order = Vec::new();
            for b in &per_req[&i] {
                if let Some(v) = dns::view(b) {
                    if let Some(t) = txt_tags(&v).first() {
                        if let Some(r) = t.split('r').nth(1).and_then(|x| x.split('i').next()).and_then(|x| x.parse::<u32>().ok()) {
                            order.push(r);
                        }
                    }
                }
            }
            let mut sorted = order.clone();
            sorted.sort();
            if order != sorted {
                if sim::violation(P, "exactly-once", "transaction-responses-reordered", format!("request k={} responses arrived in order {:?}", s.ask.k, order)) {
                    return;
                }
            }
        }
    }
    sim::stat_add("counter.requests", l.sent.len() as u64);
    sim::stat_add("counter.responses", l.got.len() as u64);
}
