//! End to end: the library's client transports (optionally under the TSIG
//! client transport) talk to the library's own servers (mandatory + TSIG +
//! XFR middleware over a stub service and a real primary zone) through a
//! simulated network with an in-path middlebox. Registered twice: as
//! `tsig_e2e` (C11: honest exchanges verify, tampering and broken sequences
//! are rejected) and as `xfr_e2e` (C10: a transfer over real transports
//! reproduces the zone or fails cleanly).
//!
//! Real: net::client::{dgram, stream, multi_stream, dgram_stream, tsig},
//! net::server::{DgramServer, StreamServer, Connection}, middleware
//! {mandatory, tsig, xfr}, tsig::{ClientTransaction, ClientSequence,
//! ServerTransaction, ServerSequence}, XfrResponseInterpreter, ZoneUpdater,
//! the zone tree. Stub: the network and the middlebox, the bottom query
//! service, the XFR data provider, the callers.

use super::tsig::{corrupt_in_transit, same_signed_content, strip_tsig};
use super::xfr::{build_primary_with, serial_of, soa_spec, walk_str, Primary};
use super::xfr_server::Provider;
use super::zonestore::{build_direct, content_as_walk, stored_name, walk_zone, Content, APEX};
use crate::core::exec::{step, Exec};
use crate::core::net::{self, addr, ConnectPlan, DgConnectPlan, DgSock, DgramFaults, PipeCfg, SimConnector, SimDgConnector, SimListener, SimStream, UdpNet};
use crate::core::runner::{Scenario, Tier};
use crate::core::sim;
use crate::dns;
use bytes::Bytes;
use domain::base::iana::{Class, Rcode};
use domain::base::{Message, MessageBuilder, Name, Rtype, Ttl};
use domain::net::client::request::{Error as ClientError, GetResponse, GetResponseMulti, RequestMessage, RequestMessageMulti, SendRequest, SendRequestMulti};
use domain::net::client::{dgram, dgram_stream, multi_stream, stream, tsig as ctsig};
use domain::net::server::buf::VecBufSource;
use domain::net::server::dgram::DgramServer;
use domain::net::server::message::Request;
use domain::net::server::middleware::mandatory::MandatoryMiddlewareSvc;
use domain::net::server::middleware::tsig::TsigMiddlewareSvc;
use domain::net::server::middleware::xfr::XfrMiddlewareSvc;
use domain::net::server::service::{CallResult, Service, ServiceResult};
use domain::net::server::stream::StreamServer;
use domain::net::server::util::mk_builder_for_target;
use domain::net::xfr::protocol::XfrResponseInterpreter;
use domain::rdata::Txt;
use domain::tsig::{Algorithm, Key, KeyName};
use domain::zonetree::update::ZoneUpdater;
use std::cell::RefCell;
use std::collections::BTreeMap;
use std::future::Future;
use std::pin::Pin;
use std::rc::Rc;
use std::str::FromStr;
use std::sync::Arc;
use std::time::Duration;
use tokio::io::{AsyncReadExt, AsyncWriteExt};

type Tk = Arc<Key>;

// ------------------------------------------------------------ query service

/// Answers `q<k>-n<records>-s<size>.e2e. TXT` with n records of about s octets.
#[derive(Clone)]
struct QuerySvc;

type QStream = futures_util::stream::Once<std::future::Ready<ServiceResult<Vec<u8>>>>;

fn parse_label(label: &str) -> Option<(u32, u32, u32)> {
    let mut it = label.split('-');
    let k = it.next()?.strip_prefix('q')?.parse().ok()?;
    let n = it.next()?.strip_prefix('n')?.parse().ok()?;
    let s = it.next()?.strip_prefix('s')?.parse().ok()?;
    Some((k, n, s))
}

impl<M: Clone + Default + Send + Sync + 'static> Service<Vec<u8>, M> for QuerySvc {
    type Target = Vec<u8>;
    type Stream = QStream;
    type Future = std::future::Ready<QStream>;

    fn call(&self, request: Request<Vec<u8>, M>) -> Self::Future {
        let msg = request.message();
        let builder = mk_builder_for_target::<Vec<u8>>();
        let asked = msg.sole_question().ok().and_then(|q| {
            let name = format!("{}", q.qname());
            parse_label(name.split('.').next().unwrap_or("")).map(|a| (q, a))
        });
        let item: ServiceResult<Vec<u8>> = match asked {
            Some((q, (k, n, s))) => {
                let mut ab = builder.start_answer(msg, Rcode::NOERROR).expect("start_answer");
                for i in 0..n {
                    let mut text = format!("q{}i{}:", k, i).into_bytes();
                    while (text.len() as u32) < s.clamp(1, 255) {
                        text.push(b'x');
                    }
                    text.truncate(255);
                    let txt = Txt::<Vec<u8>>::build_from_slice(&text).expect("txt");
                    if ab.push((q.qname(), Class::IN, Ttl::from_secs(60), txt)).is_err() {
                        break;
                    }
                }
                sim::stat("counter.service_calls");
                Ok(CallResult::new(ab.additional()))
            }
            None => {
                let ab = builder.start_answer(msg, Rcode::REFUSED).expect("start_answer");
                Ok(CallResult::new(ab.additional()))
            }
        };
        std::future::ready(futures_util::stream::once(std::future::ready(item)))
    }
}

// ------------------------------------------------------------------ ledger

#[derive(Default, Debug)]
struct Track {
    /// Loss, duplication, reordering, long delay or a cut that touched this
    /// exchange (either direction).
    net_faults: u32,
    /// Messages of this exchange corrupted in transit (either direction).
    tampered: u32,
    /// Request ids the middlebox saw for this exchange.
    ids: Vec<u16>,
    /// Responses forwarded unmodified: (id, message without its TSIG).
    clean: Vec<(u16, Vec<u8>)>,
    /// Every response message the server sent, in order (without TSIG).
    genuine: Vec<Vec<u8>>,
    /// Faults that disturb the order or completeness of the response
    /// sequence (drop, duplicate, swap), and requests duplicated.
    seq_faults: u32,
    /// Requests the middlebox forwarded twice.
    req_dups: u32,
}

#[derive(Debug)]
enum Outcome {
    Ok(Vec<u8>),
    Err(String),
}

#[derive(Default)]
struct Ledger {
    tracks: BTreeMap<String, Track>,
    results: Vec<(String, Outcome)>,
    any_tamper: u32,
    any_fault: u32,
}

type Led = Rc<RefCell<Ledger>>;

fn exchange_key(bytes: &[u8]) -> Option<String> {
    let m = Message::from_octets(bytes).ok()?;
    let q = m.first_question()?;
    if q.qtype() == Rtype::AXFR || q.qtype() == Rtype::IXFR {
        return Some("xfr".to_string());
    }
    Some(format!("{}.", format!("{}", q.qname()).trim_end_matches('.')).to_ascii_lowercase())
}

// ---------------------------------------------------------------- middlebox

#[derive(Clone, Copy, PartialEq, Debug)]
enum Mode {
    /// The network delivers everything unchanged.
    Quiet,
    /// Loss, duplication, delay, reordering, connection cuts.
    Lossy,
    /// The above plus corruption of messages in transit.
    Hostile,
    /// Only connection cuts and delays (for unsigned runs).
    CutsOnly,
}

#[derive(Debug, PartialEq)]
enum Fate {
    Pass,
    Drop,
    Dup,
    Hold,
    Tamper,
    Cut,
    Delay(u64),
}

thread_local! {
    /// Recovery phase: the network has calmed down (everything passes).
    static CALM: std::cell::Cell<bool> = const { std::cell::Cell::new(false) };
}

fn draw_fate(mode: Mode, stream: bool) -> Fate {
    let mode = if CALM.with(|c| c.get()) { Mode::Quiet } else { mode };
    match mode {
        Mode::Quiet => Fate::Pass,
        Mode::CutsOnly => match sim::draw("mb.fate", 24) {
            0 if stream => Fate::Cut,
            1 => Fate::Delay(1 + sim::draw("mb.delay_ms", 200)),
            _ => Fate::Pass,
        },
        Mode::Lossy | Mode::Hostile => match sim::draw("mb.fate", 24) {
            0 | 1 => Fate::Drop,
            2 => Fate::Dup,
            3 => Fate::Hold,
            4 if stream => Fate::Cut,
            5 => Fate::Delay(1 + sim::draw("mb.delay_ms", 200)),
            6 if !stream => Fate::Delay(900 + sim::draw("mb.long_delay_ms", 400)),
            7 | 8 | 9 if mode == Mode::Hostile => Fate::Tamper,
            _ => Fate::Pass,
        },
    }
}

async fn dgram_middlebox(led: Led, sock: DgSock, server: std::net::SocketAddr, mode: Mode) {
    let mut by_id: BTreeMap<u16, (std::net::SocketAddr, String)> = BTreeMap::new();
    let mut held: Option<(std::net::SocketAddr, Vec<u8>)> = None;
    loop {
        let (data, from) = sock.recv_from().await;
        sim::sync_clock();
        if data.len() < 12 {
            continue;
        }
        let id = u16::from_be_bytes([data[0], data[1]]);
        let (dest, key, is_resp) = if from == server {
            match by_id.get(&id) {
                Some((c, k)) => (*c, k.clone(), true),
                None => continue,
            }
        } else {
            let key = match exchange_key(&data) {
                Some(k) => k,
                None => continue,
            };
            by_id.insert(id, (from, key.clone()));
            led.borrow_mut().tracks.entry(key.clone()).or_default().ids.push(id);
            (server, key, false)
        };
        let fate = draw_fate(mode, false);
        ev!("mb dgram {} {} id={} len={} fate={:?}", if is_resp { "response" } else { "request" }, key, id, data.len(), fate);
        let mut l = led.borrow_mut();
        if is_resp {
            if let Some((body, _)) = strip_tsig(&data) {
                l.tracks.entry(key.clone()).or_default().genuine.push(body);
            }
        }
        let note_clean = |l: &mut Ledger, data: &[u8]| {
            if is_resp {
                if let Some((body, _)) = strip_tsig(data) {
                    l.tracks.entry(key.clone()).or_default().clean.push((id, body));
                }
            }
        };
        match fate {
            Fate::Pass => {
                note_clean(&mut l, &data);
                sock.send_exact(dest, data, 1);
            }
            Fate::Delay(ms) => {
                if ms >= 900 {
                    sim::stat("fault.dgram_delayed_beyond_read_timeout");
                    l.tracks.entry(key.clone()).or_default().net_faults += 1;
                    l.any_fault += 1;
                }
                note_clean(&mut l, &data);
                sock.send_exact(dest, data, ms);
            }
            Fate::Drop | Fate::Cut => {
                sim::stat("fault.dgram_lost");
                l.tracks.entry(key.clone()).or_default().net_faults += 1;
                l.any_fault += 1;
            }
            Fate::Dup => {
                sim::stat("fault.dgram_duplicated");
                l.tracks.entry(key.clone()).or_default().net_faults += 1;
                l.any_fault += 1;
                note_clean(&mut l, &data);
                sock.send_exact(dest, data.clone(), 1);
                sock.send_exact(dest, data, 1 + sim::draw("mb.dup_gap_ms", 40));
            }
            Fate::Hold => {
                // Reordering: goes out after the next datagram.
                sim::stat("fault.dgram_reordered");
                l.tracks.entry(key.clone()).or_default().net_faults += 1;
                l.any_fault += 1;
                note_clean(&mut l, &data);
                if let Some((d0, b0)) = held.replace((dest, data)) {
                    sock.send_exact(d0, b0, 1);
                }
                continue;
            }
            Fate::Tamper => {
                let (bad, what) = corrupt_in_transit(&data);
                if same_signed_content(&bad, &data) {
                    note_clean(&mut l, &data);
                } else {
                    sim::stat(what);
                    sim::stat("fault.message_corrupted_in_transit");
                    l.tracks.entry(key.clone()).or_default().tampered += 1;
                    l.any_tamper += 1;
                    l.any_fault += 1;
                }
                sock.send_exact(dest, bad, 1);
            }
        }
        drop(l);
        if let Some((d0, b0)) = held.take() {
            sock.send_exact(d0, b0, 2);
        }
    }
}

async fn read_frame<R: tokio::io::AsyncRead + Unpin>(r: &mut R) -> Option<Vec<u8>> {
    let mut len = [0u8; 2];
    r.read_exact(&mut len).await.ok()?;
    let mut body = vec![0u8; u16::from_be_bytes(len) as usize];
    r.read_exact(&mut body).await.ok()?;
    Some(body)
}

async fn write_frame<W: tokio::io::AsyncWrite + Unpin>(w: &mut W, body: &[u8]) -> bool {
    let mut f = (body.len() as u16).to_be_bytes().to_vec();
    f.extend_from_slice(body);
    w.write_all(&f).await.is_ok() && w.flush().await.is_ok()
}

thread_local! {
    /// Gap between two transfer messages on their way to the client (ms).
    static PACE_MS: std::cell::Cell<u64> = const { std::cell::Cell::new(0) };
    /// The far end closes its side of the transfer connection right behind
    /// the last message of a (full) transfer: an orderly end, everything has
    /// been delivered before it.
    static CLOSE_BEHIND_END: std::cell::Cell<bool> = const { std::cell::Cell::new(false) };
}

thread_local! {
    /// The transfer reaches the client in another (legal) packaging than the
    /// server chose: the same records in the same order, cut into messages at
    /// drawn points, the question only in the first message (RFC 5936
    /// section 2.2.2 lets a server leave it out of the following ones).
    static REPACK: std::cell::Cell<bool> = const { std::cell::Cell::new(false) };
}

/// Re-package the messages of a complete full transfer.
fn repackage(frames: &[Vec<u8>]) -> Option<Vec<Vec<u8>>> {
    use domain::base::ParsedName;
    use domain::rdata::AllRecordData;
    let first = Message::from_octets(frames.first()?.as_slice()).ok()?;
    let question = first.first_question()?;
    let mut recs = Vec::new();
    let msgs: Vec<Message<&[u8]>> = frames.iter().filter_map(|f| Message::from_octets(f.as_slice()).ok()).collect();
    for m in &msgs {
        for r in m.answer().ok()? {
            recs.push(r.ok()?.into_record::<AllRecordData<_, ParsedName<_>>>().ok()??);
        }
    }
    let mut out = Vec::new();
    let mut i = 0;
    while i < recs.len() {
        let mut mb = MessageBuilder::new_vec();
        *mb.header_mut() = first.header();
        let mut qb = mb.question();
        if out.is_empty() {
            qb.push(&question).ok()?;
        }
        let mut ab = qb.answer();
        let left = recs.len() - i;
        let k = match sim::draw("repack.cut", 5) {
            0 => 1,
            1 => 2,
            2 => left.saturating_sub(1).max(1),
            3 => left,
            _ => 1 + sim::draw("repack.n", left.min(40) as u64) as usize,
        };
        let mut n = 0;
        while n < k && i < recs.len() && ab.as_slice().len() < 60_000 {
            ab.push(recs[i].clone()).ok()?;
            i += 1;
            n += 1;
        }
        out.push(ab.into_message().into_octets());
    }
    Some(out)
}

/// Is this the closing message of an AXFR (ends with the SOA; the opening
/// message alone holds the SOA first)?
fn ends_axfr(body: &[u8], frames_before: usize) -> bool {
    match dns::view(body) {
        Some(v) => {
            let ans: Vec<_> = v.recs.iter().filter(|r| r.section == 1).collect();
            ans.last().is_some_and(|r| r.rtype == Rtype::SOA) && (frames_before > 0 || ans.len() > 1)
        }
        None => false,
    }
}

/// One direction of a proxied stream connection.
#[allow(clippy::too_many_arguments)]
async fn pump(led: Led, mut rd: tokio::io::ReadHalf<SimStream>, mut wr: tokio::io::WriteHalf<SimStream>, ids: Rc<RefCell<BTreeMap<u16, String>>>, cut: Rc<RefCell<bool>>, to_client: bool, mode: Mode, conn: usize) {
    let mut held: Option<Vec<u8>> = None;
    let mut xfr_frames = 0usize;
    let mut repack_buf: Vec<Vec<u8>> = Vec::new();
    loop {
        if *cut.borrow() {
            break;
        }
        let body = match read_frame(&mut rd).await {
            Some(b) => b,
            None => break,
        };
        sim::sync_clock();
        if *cut.borrow() {
            break;
        }
        if body.len() < 12 {
            if !write_frame(&mut wr, &body).await {
                break;
            }
            continue;
        }
        let id = u16::from_be_bytes([body[0], body[1]]);
        let key = if to_client {
            match ids.borrow().get(&id) {
                Some(k) => k.clone(),
                None => "unknown".to_string(),
            }
        } else {
            let k = exchange_key(&body).unwrap_or_else(|| "unknown".to_string());
            ids.borrow_mut().insert(id, k.clone());
            led.borrow_mut().tracks.entry(k.clone()).or_default().ids.push(id);
            k
        };
        if to_client && key == "xfr" && REPACK.with(|c| c.get()) {
            // Collect the whole transfer, then hand it on in a packaging of
            // its own.
            let done = ends_axfr(&body, xfr_frames) || dns::view(&body).is_none_or(|v| v.full_rcode != 0);
            xfr_frames += 1;
            repack_buf.push(body);
            if done {
                let frames = std::mem::take(&mut repack_buf);
                let msgs = repackage(&frames).unwrap_or(frames);
                sim::stat("probe.transfer_repackaged");
                ev!("mb conn{} hands the transfer on in {} messages of {:?} octets", conn, msgs.len(), msgs.iter().map(|m| m.len()).collect::<Vec<_>>());
                for m in msgs {
                    if !write_frame(&mut wr, &m).await {
                        return;
                    }
                }
            }
            continue;
        }
        let fate = draw_fate(mode, true);
        ev!("mb conn{} {} {} id={} len={} fate={:?}", conn, if to_client { "response" } else { "request" }, key, id, body.len(), fate);
        let stripped = strip_tsig(&body).map(|x| x.0);
        {
            let mut l = led.borrow_mut();
            let t = l.tracks.entry(key.clone()).or_default();
            if to_client {
                if let Some(b) = &stripped {
                    t.genuine.push(b.clone());
                }
            }
            match fate {
                Fate::Pass | Fate::Delay(_) => {}
                Fate::Tamper => {}
                Fate::Drop | Fate::Dup | Fate::Hold => {
                    t.net_faults += 1;
                    t.seq_faults += 1;
                    if fate == Fate::Dup && !to_client {
                        t.req_dups += 1;
                    }
                    l.any_fault += 1;
                }
                Fate::Cut => {
                    t.net_faults += 1;
                    l.any_fault += 1;
                }
            }
        }
        let note_clean = |led: &Led| {
            if to_client {
                if let Some(b) = &stripped {
                    led.borrow_mut().tracks.entry(key.clone()).or_default().clean.push((id, b.clone()));
                }
            }
        };
        // A slow link: the messages of a transfer trickle in one by one, a
        // few milliseconds apart (in order, nothing lost - not a fault).
        let pace = PACE_MS.with(|c| c.get());
        if to_client && pace > 0 && key == "xfr" {
            sim::sleep_ms(pace).await;
        }
        let close_behind = to_client && key == "xfr" && CLOSE_BEHIND_END.with(|c| c.get()) && fate == Fate::Pass && ends_axfr(&body, xfr_frames);
        if to_client && key == "xfr" {
            xfr_frames += 1;
        }
        let mut out: Vec<Vec<u8>> = Vec::new();
        match fate {
            Fate::Pass => {
                note_clean(&led);
                out.push(body);
            }
            Fate::Delay(ms) => {
                note_clean(&led);
                sim::sleep_ms(ms).await;
                out.push(body);
            }
            Fate::Drop => sim::stat("fault.frame_dropped"),
            Fate::Dup => {
                sim::stat("fault.frame_duplicated");
                note_clean(&led);
                out.push(body.clone());
                out.push(body);
            }
            Fate::Hold => {
                sim::stat("fault.frame_reordered");
                note_clean(&led);
                if let Some(h) = held.replace(body) {
                    out.push(h);
                }
            }
            Fate::Tamper => {
                let (bad, what) = corrupt_in_transit(&body);
                if same_signed_content(&bad, &body) {
                    note_clean(&led);
                } else {
                    sim::stat(what);
                    sim::stat("fault.message_corrupted_in_transit");
                    let mut l = led.borrow_mut();
                    l.tracks.entry(key.clone()).or_default().tampered += 1;
                    l.any_tamper += 1;
                    l.any_fault += 1;
                }
                out.push(bad);
            }
            Fate::Cut => {
                sim::stat("fault.connection_cut");
                // Everything in flight on this connection is affected.
                let keys: Vec<String> = ids.borrow().values().cloned().collect();
                let mut l = led.borrow_mut();
                for k in keys {
                    l.tracks.entry(k).or_default().net_faults += 1;
                }
                *cut.borrow_mut() = true;
                break;
            }
        }
        if fate != Fate::Hold {
            if let Some(h) = held.take() {
                out.push(h);
            }
        }
        for f in out {
            if !write_frame(&mut wr, &f).await {
                return;
            }
        }
        if close_behind {
            sim::stat("fault.connection_closed_right_behind_the_transfer");
            ev!("mb conn{} closes its side right behind the end of the transfer", conn);
            break;
        }
    }
    if let Some(h) = held.take() {
        let _ = write_frame(&mut wr, &h).await;
    }
    let _ = wr.shutdown().await;
}

async fn stream_middlebox(exec: Exec, led: Led, mid: SimListener, upstream: SimConnector, mode: Mode) {
    let mut conn = 0usize;
    while let Some(acc) = mid.accept().await {
        let up = match upstream.connect_sim().await {
            Ok(s) => s,
            Err(_) => continue,
        };
        let ids = Rc::new(RefCell::new(BTreeMap::new()));
        let cut = Rc::new(RefCell::new(false));
        let (crd, cwr) = tokio::io::split(acc.stream);
        let (srd, swr) = tokio::io::split(up);
        exec.spawn(format!("mb.conn{}.c2s", conn), pump(led.clone(), crd, swr, ids.clone(), cut.clone(), false, mode, conn));
        exec.spawn(format!("mb.conn{}.s2c", conn), pump(led.clone(), srd, cwr, ids, cut, true, mode, conn));
        conn += 1;
    }
}

// ----------------------------------------------------------------- scenario

pub struct E2eScn {
    pub prop: &'static str,
    pub name: &'static str,
}

impl Scenario for E2eScn {
    fn name(&self) -> &'static str {
        self.name
    }
    fn property(&self) -> &'static str {
        self.prop
    }
    fn max_vtime(&self) -> Duration {
        Duration::from_secs(3600)
    }
    fn event_cap(&self) -> u64 {
        60_000
    }
    fn components(&self) -> (Vec<&'static str>, Vec<&'static str>) {
        (
            vec![
                "net::client::tsig::Connection over net::client::{dgram, stream, multi_stream, dgram_stream}",
                "net::server::{DgramServer, StreamServer, Connection} with MandatoryMiddlewareSvc(TsigMiddlewareSvc(XfrMiddlewareSvc(..)))",
                "tsig::{ClientTransaction, ClientSequence, ServerTransaction, ServerSequence} (through the transports)",
                "net::xfr::protocol::XfrResponseInterpreter + zonetree::update::ZoneUpdater on the receiving side; the zone tree on both sides",
            ],
            vec![
                "SimNet and the in-path middlebox (datagram and stream): loss, duplication, reordering, delay, connection cuts, corruption in transit",
                "bottom query service, XFR data provider (zone + journal), callers",
                "ledger of what the server sent and what was forwarded unmodified",
            ],
        )
    }
    fn rule(&self) -> &'static str {
        "per run: a key (4 HMAC algorithms) or no TSIG; a client transport kind (datagram, stream, multiplexed stream, datagram+stream with answers beyond 512 octets); a network mode (quiet / lossy / hostile / cuts only); 1-3 callers issue 1-4 queries each, then one AXFR or IXFR (journal present or withheld) runs over a stream connection into the interpreter and updater of a secondary. Oracles: a response handed to a caller is octet-identical (TSIG removed) to a response the server sent for that exchange and that was forwarded unmodified with that id; a signed transfer that ends cleanly handed on exactly the messages the server sent, in order, all of them, and the secondary (which applies a signed transfer only after its verified end) equals the primary's version; a failed transfer leaves a complete version; without any fault every exchange succeeds; without corruption no single exchange fails authentication."
    }
    fn assumptions(&self) -> Vec<&'static str> {
        vec![
            "the AXFR zone walk runs on a real tokio blocking thread; the transfer phase runs alone (after the query phase) so that nothing else is scheduled while it runs",
            "client and server share one clock here; TSIG time checks under skew are covered by the tsig scenario",
            "unsigned runs only get cuts and delays: without TSIG a receiver cannot detect a removed or altered message of a transfer",
        ]
    }
    fn nontrivial(&self, stats: &BTreeMap<&'static str, u64>) -> bool {
        stats.get("counter.exchanges_completed").copied().unwrap_or(0) > 0
    }
    fn run(&self, tier: Tier) -> Pin<Box<dyn Future<Output = ()>>> {
        Box::pin(run(self.prop, tier))
    }
}

#[derive(Clone, Copy, Debug, PartialEq)]
enum Kind {
    Dgram,
    Stream,
    Multi,
    DgramStream,
}

thread_local! {
    static SMALL_WINDOW: std::cell::Cell<bool> = const { std::cell::Cell::new(false) };
}

fn quiet_planner(segment_ok: bool) -> Arc<dyn Fn(usize) -> ConnectPlan + Send + Sync> {
    let window = if SMALL_WINDOW.with(|c| c.get()) { 32 * 1024 } else { 1 << 20 };
    Arc::new(move |_i| ConnectPlan {
        client_cfg: PipeCfg {
            segment: segment_ok && sim::chance("net.segment", 1, 3),
            window,
            ..Default::default()
        },
        server_cfg: PipeCfg {
            segment: segment_ok && sim::chance("net.segment", 1, 3),
            window,
            ..Default::default()
        },
        ..Default::default()
    })
}

/// `got` is `sent`, possibly followed by left-over octets beyond the end of
/// the message proper.
fn same_message(sent: &[u8], got: &[u8]) -> bool {
    got.len() >= sent.len() && got[..sent.len()] == sent[..]
}

fn is_auth_error(e: &str) -> bool {
    e.contains("Authentication") || e.contains("authentication")
}

async fn run(prop: &'static str, _tier: Tier) {
    // One run in ten transfers a zone that needs more than one 64 KiB
    // message (fewer than 100 RRsets, so that the server's zone walk never
    // has to wait for its consumer).
    let bulky = sim::chance("cfg.bulky", 1, 10);
    // One run in fifteen the primary's last change is a big one: 12-15
    // RRsets of about 60 KiB, a response message apiece - more messages in
    // one difference sequence than the server's response queue holds (10) -
    // over links with small windows, so that a receiver who looks away makes
    // the server wait.
    let huge = if !bulky && sim::chance("cfg.huge_last_step", 1, 15) { 12 + sim::draw("cfg.huge_n", 4) as usize } else { 0 };
    super::xfr::HUGE_LAST_STEP.with(|c| c.set(huge));
    SMALL_WINDOW.with(|c| c.set(huge > 0));
    if huge > 0 {
        sim::stat("probe.difference_sequence_of_more_messages_than_the_response_queue_holds");
    }
    let Primary { zone, contents, steps, .. } = match build_primary_with(if bulky { 70 + sim::draw("cfg.bulk_n", 15) as usize } else { 0 }).await {
        Some(p) => p,
        None => return,
    };
    let j = contents.len() - 1;
    let mut journal = Vec::new();
    for (k, st) in steps.iter().enumerate() {
        match &st.raw_diff {
            Some(d) => journal.push((serial_of(&contents[k]).unwrap(), d.clone())),
            None => return, // reported by the xfr scenario's diff law
        }
    }
    // ---- per-run configuration
    let signed = sim::chance("cfg.signed", 3, 4);
    let alg = *sim::pick("cfg.alg", &[Algorithm::Sha256, Algorithm::Sha1, Algorithm::Sha384, Algorithm::Sha512]);
    let secret: Vec<u8> = (0..16 + sim::draw("key.secret_len", 48)).map(|i| (i as u8).wrapping_mul(29).wrapping_add(7)).collect();
    let key: Tk = Arc::new(Key::new(alg, &secret, KeyName::from_str("e2e-key.example.").unwrap(), None, None).expect("key"));
    // One signed run in eight the callers hold a key the server does not
    // share: the same name with another secret, or another name. Whatever
    // the network does, none of their exchanges comes back as a success.
    let wrong_key = signed && sim::chance("cfg.client_has_the_wrong_key", 1, 8);
    let ckey: Tk = if wrong_key {
        sim::stat("probe.client_key_not_shared_with_the_server");
        let mut other = secret.clone();
        other[0] ^= 0x55;
        if sim::chance("cfg.wrong_key_name", 1, 2) {
            Arc::new(Key::new(alg, &secret, KeyName::from_str("another-key.example.").unwrap(), None, None).expect("key"))
        } else {
            Arc::new(Key::new(alg, &other, KeyName::from_str("e2e-key.example.").unwrap(), None, None).expect("key"))
        }
    } else {
        key.clone()
    };
    let mode = if signed {
        *sim::pick("cfg.mode", &[Mode::Quiet, Mode::Lossy, Mode::Lossy, Mode::Hostile, Mode::Hostile])
    } else {
        *sim::pick("cfg.mode_unsigned", &[Mode::Quiet, Mode::CutsOnly])
    };
    let kind = *sim::pick("cfg.kind", &[Kind::Dgram, Kind::Stream, Kind::Multi, Kind::DgramStream]);
    ev!("cfg signed={} alg={:?} mode={:?} kind={:?}", signed, alg, mode, kind);

    // ---- the servers (real)
    let udp = UdpNet::new();
    let server_addr = addr(1, 53);
    let mid_addr = addr(2, 53);
    let server_sock = udp.bind(server_addr);
    let srv_listener = net::listener("srv");
    let have_journal = sim::chance("cfg.journal", 3, 4);
    let provider = Provider {
        zone: zone.clone(),
        journal: Arc::new(journal),
        have_journal,
        // (Only where the transfer's fidelity is the subject: the known C10
        // finding it runs into is not a TSIG matter.)
        compat: sim::chance("cfg.compat_mode", 1, 6) && !bulky && prop == "C10",
    };
    let compat_mode = provider.compat;
    let xfr_svc = XfrMiddlewareSvc::<Vec<u8>, QuerySvc, Option<Tk>, Provider>::new(QuerySvc, provider, 1);
    let tsig_svc = TsigMiddlewareSvc::<Vec<u8>, _, Tk, ()>::new(xfr_svc, key.clone());
    let svc = Arc::new(MandatoryMiddlewareSvc::<Vec<u8>, _, ()>::new(tsig_svc));
    let dsrv = Arc::new(DgramServer::new(server_sock.clone(), VecBufSource, svc.clone()));
    let ssrv = Arc::new(StreamServer::new(srv_listener.clone(), VecBufSource, svc));
    {
        let d = dsrv.clone();
        tokio::spawn(async move { d.run().await });
        let s = ssrv.clone();
        tokio::spawn(async move { s.run().await });
    }

    // ---- the middlebox
    let exec = Exec::new();
    let led: Led = Rc::new(RefCell::new(Ledger::default()));
    let mid_sock = udp.bind(mid_addr);
    exec.spawn("mb.dgram".to_string(), dgram_middlebox(led.clone(), mid_sock, server_addr, mode));
    let mid_listener = net::listener("mid");
    exec.spawn("mb.stream".to_string(), stream_middlebox(exec.clone(), led.clone(), mid_listener.clone(), srv_listener.connector(addr(2, 30_000), quiet_planner(!bulky)), mode));

    // ---- the client transports (real)
    let mut dg_cfg = dgram::Config::new();
    dg_cfg.set_read_timeout(Duration::from_millis(1000));
    dg_cfg.set_max_retries(*sim::pick("cfg.dg_retries", &[3u8, 1, 5]));
    let mut st_cfg = stream::Config::new();
    st_cfg.set_response_timeout(Duration::from_millis(2000));
    // (A bare stream connection that closes itself when idle is documented
    // behaviour; only the reconnecting transports get a short idle timeout.)
    let idle_ms = *sim::pick("cfg.idle_ms", &[10_000u64, 200]);
    st_cfg.set_idle_timeout(Duration::from_millis(if kind == Kind::Stream { 60_000 } else { idle_ms }));
    let mut ms_cfg = multi_stream::Config::from(st_cfg.clone());
    ms_cfg.set_response_timeout(Duration::from_millis(6000));
    let dg_planner: Arc<dyn Fn(usize) -> DgConnectPlan + Send + Sync> = Arc::new(|_i| DgConnectPlan::default());
    let mk_dg = || SimDgConnector::new(&udp, 10, mid_addr, DgramFaults::default(), dg_planner.clone());
    let mk_st = || mid_listener.connector(addr(10, 40_000), quiet_planner(!bulky));

    type Plain = RequestMessage<Vec<u8>>;
    type PlainMulti = RequestMessageMulti<Vec<u8>>;
    type Signed = ctsig::RequestMessage<Plain, Tk>;
    type SignedMulti = ctsig::RequestMessage<PlainMulti, Tk>;
    let conn: Rc<dyn SendRequest<Plain>> = match (kind, signed) {
        (Kind::Dgram, true) => Rc::new(ctsig::Connection::new(ckey.clone(), dgram::Connection::with_config(mk_dg(), dg_cfg.clone()))),
        (Kind::Dgram, false) => Rc::new(dgram::Connection::with_config(mk_dg(), dg_cfg.clone())),
        (Kind::Stream, true) => {
            let s = match mk_st().connect_sim().await {
                Ok(s) => s,
                Err(_) => return,
            };
            let (c, t) = stream::Connection::<Signed, SignedMulti>::with_config(s, st_cfg.clone());
            tokio::spawn(t.run());
            Rc::new(ctsig::Connection::new(ckey.clone(), c))
        }
        (Kind::Stream, false) => {
            let s = match mk_st().connect_sim().await {
                Ok(s) => s,
                Err(_) => return,
            };
            let (c, t) = stream::Connection::<Plain, PlainMulti>::with_config(s, st_cfg.clone());
            tokio::spawn(t.run());
            Rc::new(c)
        }
        (Kind::Multi, true) => {
            let (c, t) = multi_stream::Connection::<Signed>::with_config(mk_st(), ms_cfg.clone());
            tokio::spawn(t.run());
            Rc::new(ctsig::Connection::new(ckey.clone(), c))
        }
        (Kind::Multi, false) => {
            let (c, t) = multi_stream::Connection::<Plain>::with_config(mk_st(), ms_cfg.clone());
            tokio::spawn(t.run());
            Rc::new(c)
        }
        (Kind::DgramStream, true) => {
            let cfg = dgram_stream::Config::from_parts(dg_cfg.clone(), ms_cfg.clone());
            let (c, t) = dgram_stream::Connection::<_, Signed>::with_config(mk_dg(), mk_st(), cfg);
            tokio::spawn(t.run());
            Rc::new(ctsig::Connection::new(ckey.clone(), c))
        }
        (Kind::DgramStream, false) => {
            let cfg = dgram_stream::Config::from_parts(dg_cfg.clone(), ms_cfg.clone());
            let (c, t) = dgram_stream::Connection::<_, Plain>::with_config(mk_dg(), mk_st(), cfg);
            tokio::spawn(t.run());
            Rc::new(c)
        }
    };

    // ---- phase 1: queries
    let n_callers = 1 + sim::draw("callers", 3) as usize;
    let mut handles = Vec::new();
    let mut k = 0u32;
    for c in 0..n_callers {
        let n = 1 + sim::draw("caller.n", 4) as u32;
        let ks: Vec<u32> = (k..k + n).collect();
        k += n;
        let conn = conn.clone();
        let led2 = led.clone();
        handles.push(exec.spawn(format!("caller{}", c), async move {
            for k in ks {
                if sim::chance("caller.gap", 1, 3) {
                    sim::sleep_ms(1 + sim::draw("caller.gap_ms", 300)).await;
                } else {
                    step().await;
                }
                // Beyond 512 octets only where a stream can take over.
                let (n, s) = if kind != Kind::Dgram && sim::chance("ask.big", 1, 3) { (3 + sim::draw("ask.n_big", 4) as u32, 200) } else { (1 + sim::draw("ask.n", 2) as u32, 10 + sim::draw("ask.s", 60) as u32) };
                let qname = format!("q{}-n{}-s{}.e2e.", k, n, s);
                let mut mb = MessageBuilder::new_vec();
                mb.header_mut().set_rd(true);
                let mut q = mb.question();
                q.push((Name::<Vec<u8>>::from_chars(qname.chars()).unwrap(), Rtype::TXT)).unwrap();
                let req = RequestMessage::new(q.into_message()).expect("request");
                ev!("caller asks {}", qname);
                let mut r = conn.send_request(req);
                let out = match r.get_response().await {
                    Ok(m) => Outcome::Ok(m.as_slice().to_vec()),
                    Err(e) => Outcome::Err(format!("{:?}", e)),
                };
                sim::sync_clock();
                ev!("caller {} -> {}", qname, match &out {
                    Outcome::Ok(b) => format!("Ok({} octets)", b.len()),
                    Outcome::Err(e) => format!("Err({})", e.chars().take(80).collect::<String>()),
                });
                sim::stat("counter.exchanges_completed");
                led2.borrow_mut().results.push((qname.to_ascii_lowercase(), out));
            }
        }));
    }
    let ex2 = exec.clone();
    let phase1 = async move {
        let done = async {
            for h in handles {
                h.join().await;
            }
        };
        tokio::select! {
            biased;
            _ = done => {}
            _ = ex2.run() => {}
        }
    };
    if tokio::time::timeout(Duration::from_secs(1800), phase1).await.is_err() {
        sim::violation(prop, "completion", "query-never-completed".to_string(), "a query did not complete within 1800 virtual seconds".to_string());
        return;
    }
    sim::sync_clock();
    if sim::over_cap() || sim::stopped() {
        return;
    }
    if wrong_key {
        for (key, out) in &led.borrow().results {
            if let Outcome::Ok(bytes) = out {
                sim::violation(prop, "soundness", "exchange-succeeded-with-a-key-the-server-does-not-share".to_string(), format!("{}: the caller signs with a key the server does not hold, and got {} octets back as a verified response", key, bytes.len()));
                return;
            }
        }
        return;
    }
    if !check_queries(prop, &led, mode) {
        return;
    }

    // ---- recovery: the network calms down (everything passes unchanged from
    // now on), two minutes go by - longer than every timeout, idle timer and
    // back-off -, and the callers' transport is asked one or two more
    // questions: whatever loss, cuts and corruption went before, these
    // exchanges succeed. (Not over the bare stream connection, which has no
    // way back once it is broken or has closed itself.)
    CALM.with(|c| c.set(false));
    if mode != Mode::Quiet && kind != Kind::Stream && sim::chance("recovery_phase", 1, 2) {
        sim::stat("probe.recovery_phase");
        CALM.with(|c| c.set(true));
        ev!("the network calms down");
        sim::sleep_ms(120_000).await;
        let n = 1 + sim::draw("recovery.n", 2) as u32;
        let conn2 = conn.clone();
        let led2 = led.clone();
        let first_k = k;
        let h = exec.spawn("recovery".to_string(), async move {
            let mut failed: Option<(String, String)> = None;
            for k in first_k..first_k + n {
                let qname = format!("q{}-n1-s20.e2e.", k);
                let mut mb = MessageBuilder::new_vec();
                mb.header_mut().set_rd(true);
                let mut q = mb.question();
                q.push((Name::<Vec<u8>>::from_chars(qname.chars()).unwrap(), Rtype::TXT)).unwrap();
                let req = RequestMessage::new(q.into_message()).expect("request");
                ev!("caller asks {} (recovery)", qname);
                let mut r = conn2.send_request(req);
                match r.get_response().await {
                    Ok(m) => led2.borrow_mut().results.push((qname.to_ascii_lowercase(), Outcome::Ok(m.as_slice().to_vec()))),
                    Err(e) => {
                        failed = Some((qname, format!("{:?}", e)));
                        break;
                    }
                }
                sim::sync_clock();
                sim::sleep_ms(2000).await;
            }
            failed
        });
        let ex3 = exec.clone();
        let rec = async move {
            tokio::select! {
                biased;
                r = h.join() => r,
                _ = ex3.run() => None,
            }
        };
        match tokio::time::timeout(Duration::from_secs(1800), rec).await {
            Err(_) => {
                sim::violation(prop, "completion", "query-never-completed".to_string(), "a query of the recovery phase did not complete within 1800 virtual seconds".to_string());
                return;
            }
            Ok(Some(Some((qname, e)))) => {
                sim::violation(prop, "honest", format!("exchange-failed-long-after-the-network-calmed-down/{}", e.split(['(', ' ']).next().unwrap_or("")), format!("{}: {} although the network had delivered everything unchanged for two minutes", qname, e));
                return;
            }
            Ok(_) => {}
        }
        sim::sync_clock();
        CALM.with(|c| c.set(false));
        if sim::over_cap() || sim::stopped() {
            return;
        }
        if !check_queries(prop, &led, mode) {
            return;
        }
    }

    // ---- phase 2: one zone transfer over its own stream connection
    if !sim::chance("xfr", 3, 4) {
        return;
    }
    let i = sim::draw("xfr.from", (j + 1) as u64) as usize;
    let ixfr = i < j && sim::chance("xfr.ixfr", 2, 3);
    let sec_content: Content = if !ixfr && sim::chance("xfr.empty_secondary", 1, 3) { Content::new() } else { contents[i].clone() };
    let secondary = match build_direct(&sec_content) {
        Ok(z) => z,
        Err(e) => {
            sim::harness_error(format!("secondary: {}", e));
            return;
        }
    };
    let mut mb = MessageBuilder::new_vec();
    let mut q = mb.question();
    q.push((stored_name(APEX), if ixfr { Rtype::IXFR } else { Rtype::AXFR })).unwrap();
    let mut au = q.authority();
    if ixfr {
        let soa = soa_spec(serial_of(&sec_content).unwrap()).record();
        au.push((soa.owner(), Class::IN, Ttl::from_secs(3600), soa.data())).unwrap();
    }
    let req_msg: Message<Vec<u8>> = au.into_message();
    mb = MessageBuilder::new_vec();
    let _ = &mb;
    let req = match RequestMessageMulti::new(req_msg) {
        Ok(r) => r,
        Err(e) => {
            sim::harness_error(format!("xfr request: {:?}", e));
            return;
        }
    };
    let s = match mk_st().connect_sim().await {
        Ok(s) => s,
        Err(_) => return,
    };
    // Now and then the caller first starts the same transfer, takes a
    // message or two, loses interest (drops the request) and a little later
    // asks again over the same connection, while the server is still sending
    // the rest of the first one: the second transfer is one of its own.
    PACE_MS.with(|c| c.set(*sim::pick("xfr.pace_ms", &[0u64, 0, 2, 10])));
    // A secondary asks for the SOA first and for the transfer right behind
    // it, on the same connection, without waiting for the first answer; and
    // the link is slow: the messages of the transfer come 2.5 s apart - more
    // than the timeout for plain requests (2 s), less than the one between
    // the messages of a transfer (3 s).
    let soa_first = !bulky && sim::chance("xfr.soa_query_first_on_the_same_connection", 1, 4);
    if soa_first {
        sim::stat("probe.soa_query_pipelined_ahead_of_the_transfer");
        if sim::chance("xfr.slow_link", 1, 2) {
            PACE_MS.with(|c| c.set(2500));
            sim::stat("probe.transfer_messages_2500ms_apart");
        }
    }

    // (Not with an IXFR in the server's one-record-per-message packaging: the
    // stream client takes its first message for the whole response - the
    // known finding - and lets go of the id while the rest is still coming.)
    let abandon_after = if !soa_first && sim::chance("xfr.abandon_first", 1, 4) && !(compat_mode && ixfr) { 1 + sim::draw("xfr.abandon_after", 2) } else { 0 };
    let abandon_pause_ms = *sim::pick("xfr.abandon_pause_ms", &[0u64, 1, 20, 150]);
    CLOSE_BEHIND_END.with(|c| c.set(!ixfr && abandon_after == 0 && sim::chance("xfr.close_behind_end", 1, 4)));
    REPACK.with(|c| c.set(!ixfr && !signed && abandon_after == 0 && mode == Mode::Quiet && !CLOSE_BEHIND_END.with(|c| c.get()) && sim::chance("xfr.repackaged", 2, 3)));
    let mut xst_cfg = stream::Config::new();
    xst_cfg.set_response_timeout(Duration::from_millis(2000));
    // A caller may be slow to collect the messages of a transfer (it applies
    // them as it goes): once per transfer it may look away for six seconds.
    // (The timeout between two messages is then a long one.)
    let slow_caller_at = if sim::chance("xfr.slow_caller", 1, 5) || (huge > 0 && sim::chance("xfr.slow_caller_huge", 2, 3)) { Some(1 + sim::draw("xfr.slow_caller_at", 5) as usize) } else { None };
    xst_cfg.set_streaming_response_timeout(Duration::from_millis(if slow_caller_at.is_some() { 19_000 } else { 3000 }));
    // A connection with a transfer in progress is not idle, however short
    // the idle timeout (0: close as soon as nothing is outstanding).
    // (Between an abandoned request and the next one the connection may be
    // idle for a moment: then the timeout is a long one.)
    let idle_ms = *sim::pick("xfr.idle_timeout_ms", &[10_000u64, 0, 1, 100]);
    xst_cfg.set_idle_timeout(Duration::from_millis(if abandon_after > 0 { 10_000 } else { idle_ms }));
    // (The connection object lives in the closure: it outlives the requests.)
    type Getter = Box<dyn GetResponseMulti + Send + Sync>;
    type SingleGetter = Box<dyn GetResponse + Send + Sync>;
    let (send, send_single): (Box<dyn Fn(PlainMulti) -> Getter>, Box<dyn Fn(Plain) -> SingleGetter>) = if signed {
        let (c, t) = stream::Connection::<Signed, SignedMulti>::with_config(s, xst_cfg);
        tokio::spawn(t.run());
        let tc = Arc::new(ctsig::Connection::new(key.clone(), c));
        let tc2 = tc.clone();
        (Box::new(move |r| SendRequestMulti::send_request(&*tc, r)), Box::new(move |r| SendRequest::send_request(&*tc2, r)))
    } else {
        let (c, t) = stream::Connection::<Plain, PlainMulti>::with_config(s, xst_cfg);
        tokio::spawn(t.run());
        let c2 = c.clone();
        (Box::new(move |r| SendRequestMulti::send_request(&c, r)), Box::new(move |r| SendRequest::send_request(&c2, r)))
    };
    ev!("transfer {} {} -> {} (journal {})", if ixfr { "IXFR" } else { "AXFR" }, i, j, have_journal);
    sim::stat(if ixfr { "probe.ixfr_over_transport" } else { "probe.axfr_over_transport" });
    if bulky && !ixfr {
        sim::stat("probe.axfr_beyond_one_64k_message");
    }
    let mut complete: Vec<Content> = vec![sec_content.clone()];
    if ixfr {
        for c in contents.iter().take(j + 1).skip(i + 1) {
            complete.push(c.clone());
        }
    } else {
        complete.push(contents[j].clone());
    }
    let mut interpreter = XfrResponseInterpreter::new();
    let mut updater: ZoneUpdater = ZoneUpdater::new(secondary.clone()).await.expect("updater");
    let mut delivered: Vec<Vec<u8>> = Vec::new();
    // Messages handed to the caller after one was rejected as unauthentic.
    let mut after_rejection: Vec<Vec<u8>> = Vec::new();
    let ex3 = exec.clone();
    let led3 = led.clone();
    // A signed transfer is only authentic once its end has been verified
    // (unsigned messages inside a sequence are legal and are handed on
    // before anything vouches for them; a stripped TSIG on the last message
    // only shows in the final check). A careful receiver therefore applies
    // nothing before the clean end; unsigned runs apply as they go.
    let careful = signed;
    let mut buffered = Vec::new();
    let transfer = async {
        if abandon_after > 0 {
            sim::stat("probe.transfer_abandoned_then_asked_again");
            let mut first = send(req.clone());
            let mut midway = true;
            for _ in 0..abandon_after {
                match first.get_response().await {
                    Ok(Some(_)) => {}
                    _ => {
                        midway = false;
                        break;
                    }
                }
            }
            if midway {
                sim::stat("probe.transfer_abandoned_midway");
            }
            ev!("first transfer request abandoned");
            drop(first);
            if abandon_pause_ms > 0 {
                sim::sleep_ms(abandon_pause_ms).await;
            } else {
                step().await;
            }
        }
        // The SOA query goes first and is still outstanding when the
        // transfer is asked for.
        // (Kept to the end of the transfer: a request object that is
        // dropped would let go of its place on the connection.)
        let mut _soa_query: Option<SingleGetter> = None;
        if soa_first {
            let mut q = MessageBuilder::new_vec().question();
            q.push((Name::<Vec<u8>>::from_chars("q9999-n1-s20.e2e.".chars()).unwrap(), Rtype::TXT)).unwrap();
            let mut g = send_single(RequestMessage::new(q.into_message()).expect("request"));
            let _ = tokio::time::timeout(Duration::ZERO, g.get_response()).await;
            _soa_query = Some(g);
        }
        let mut getter = send(req);
        // (clean end?, error text, updater/interpreter complaint)
        let mut apply_err: Option<String> = None;
        let end: Result<(), String> = loop {
            match getter.get_response().await {
                Ok(Some(msg)) => {
                    sim::sync_clock();
                    delivered.push(msg.as_slice().to_vec());
                    ev!("transfer message #{} ({} octets)", delivered.len(), msg.as_slice().len());
                    if slow_caller_at == Some(delivered.len()) {
                        sim::stat("probe.caller_looks_away_mid_transfer");
                        sim::sleep_ms(6_000).await;
                    }
                    if apply_err.is_some() {
                        continue;
                    }
                    let m = match Message::from_octets(Bytes::copy_from_slice(msg.as_slice())) {
                        Ok(m) => m,
                        Err(_) => {
                            apply_err = Some("short message".into());
                            continue;
                        }
                    };
                    match interpreter.interpret_response(m) {
                        Ok(it) => {
                            for u in it {
                                match u {
                                    Ok(u) => {
                                        if careful {
                                            buffered.push(u);
                                        } else if let Err(e) = updater.apply(u).await {
                                            apply_err = Some(format!("updater: {}", e));
                                            break;
                                        }
                                    }
                                    Err(e) => {
                                        apply_err = Some(format!("iteration: {:?}", e));
                                        break;
                                    }
                                }
                            }
                        }
                        Err(e) => apply_err = Some(format!("interpreter: {}", e)),
                    }
                    if delivered.len() > 5000 {
                        break Err("endless response stream".to_string());
                    }
                }
                Ok(None) => break Ok(()),
                Err(e) => {
                    // A caller may go on asking after a message was rejected
                    // (it must not get unauthenticated data that way): what
                    // comes afterwards is kept for the oracle.
                    let text = format!("{:?}", e);
                    if signed && is_auth_error(&text) && sim::chance("xfr.ask_again_after_rejection", 1, 2) {
                        sim::stat("probe.asked_again_after_a_rejected_message");
                        for _ in 0..3 {
                            match tokio::time::timeout(Duration::from_secs(5), getter.get_response()).await {
                                Ok(Ok(Some(msg))) => after_rejection.push(msg.as_slice().to_vec()),
                                _ => break,
                            }
                        }
                    }
                    break Err(text);
                }
            }
        };
        if careful && end.is_ok() && apply_err.is_none() {
            for u in buffered.drain(..) {
                if let Err(e) = updater.apply(u).await {
                    apply_err = Some(format!("updater: {}", e));
                    break;
                }
            }
        }
        (end, apply_err)
    };
    let driven = async {
        tokio::select! {
            biased;
            r = transfer => Some(r),
            _ = ex3.run() => None,
        }
    };
    let (end, apply_err) = match tokio::time::timeout(Duration::from_secs(1800), driven).await {
        Ok(Some(r)) => r,
        _ => {
            sim::violation(prop, "completion", "transfer-never-completed".to_string(), "the transfer neither finished nor failed within 1800 virtual seconds".to_string());
            return;
        }
    };
    sim::sync_clock();
    let finished = interpreter.is_finished();
    drop(updater);
    if sim::over_cap() || sim::stopped() {
        return;
    }
    sim::stat("counter.exchanges_completed");
    ev!("transfer end {:?} apply_err {:?} finished {} delivered {}", end, apply_err, finished, delivered.len());
    let l = led3.borrow();
    let empty = Track::default();
    let t = l.tracks.get("xfr").unwrap_or(&empty);
    let seen = walk_str(&walk_zone(secondary.read().as_ref()));
    let label = if ixfr { "ixfr" } else { "axfr" };
    // (0) nothing unauthenticated comes out after a rejection either: a
    // message handed on then must be one the server sent, unmodified.
    // (An *unsigned* message may legally follow inside a sequence and is
    // handed on as it comes - nothing vouches for it until the verified end.
    // A message that carries a TSIG record has to be verified, which takes
    // the record out: one that comes out with the record still in it, or
    // that no unmodified server message matches, was let through unchecked.)
    for d in &after_rejection {
        let v = dns::view(d);
        let has_tsig = v.as_ref().is_some_and(|v| v.recs.iter().any(|r| r.rtype == Rtype::TSIG));
        let unsigned_genuine = t.genuine.iter().any(|g| same_message(g, d)) || t.clean.iter().any(|(_, b)| same_message(b, d));
        if has_tsig {
            sim::violation(prop, "soundness", format!("message-accepted-after-a-rejected-one/{}", label), format!("after a message of the signed transfer had been rejected, get_response() handed out {} octets with their TSIG record still attached: not verified", d.len()));
            return;
        }
        let _ = unsigned_genuine;
    }
    // (1) a transfer that ended cleanly handed on what the server sent, in
    // order. (Before the end is verified, messages that looked unsigned have
    // been handed on without anything vouching for them.)
    if signed && end.is_ok() {
        let dup_req = t.ids.len() > 1 || t.req_dups > 0;
        for (n, d) in delivered.iter().enumerate() {
            let ok = if dup_req || t.seq_faults == 0 && t.tampered == 0 { t.genuine.iter().any(|g| same_message(g, d)) } else { t.genuine.get(n).is_some_and(|g| same_message(g, d)) };
            if !ok {
                sim::violation(
                    prop,
                    "soundness",
                    format!("transfer-message-accepted-out-of-sequence/{}", label),
                    format!("message #{} handed to the caller is not message #{} of what the server sent ({} sent; sequence faults {}, corrupted {})", n + 1, n + 1, t.genuine.len(), t.seq_faults, t.tampered),
                );
                return;
            }
        }
    }
    match (&end, &apply_err, finished) {
        (Ok(()), None, true) => {
            // (2) a clean end: everything arrived and the zone is the primary's.
            if signed && t.ids.len() <= 1 && t.req_dups == 0 && delivered.len() != t.genuine.len() {
                sim::violation(prop, "soundness", format!("clean-end-of-incomplete-transfer/{}", label), format!("the transfer ended cleanly after {} of the {} messages the server sent", delivered.len(), t.genuine.len()));
                return;
            }
            let want = walk_str(&content_as_walk(&contents[j]));
            if seen != want && !(ixfr && serial_of(&sec_content) == serial_of(&contents[j])) {
                let extra: Vec<_> = seen.iter().filter(|x| !want.contains(x)).collect();
                let missing: Vec<_> = want.iter().filter(|x| !seen.contains(x)).collect();
                sim::violation(prop, "fidelity", format!("secondary-differs-after-transfer/{}", label), format!("{} {}->{} over the stream transport finished (mode {:?}, signed {}), but the secondary differs: unexpected {:?}; missing {:?}", label, i, j, mode, signed, extra, missing));
                return;
            }
        }
        _ => {
            // The server's backward compatible packaging (one record per
            // message) of an IXFR runs into the known finding of the xfr
            // scenario: the interpreter takes the first message, which holds
            // only the SOA, for the whole response.
            if compat_mode && ixfr && apply_err.as_deref().is_some_and(|e| e.contains("SingleSoaIxfrTcpRetrySignal")) {
                sim::violation(
                    prop,
                    "fidelity",
                    "ixfr-first-message-with-only-the-soa-taken-as-whole-response".to_string(),
                    format!("the library's own XFR server in compatibility mode answers an IXFR with one record per message; the stream client / interpreter took the first message (the SOA alone) for the whole response: {} message(s) handed on, {:?}", delivered.len(), apply_err),
                );
                return;
            }
            // (3) not finished: nothing partial is visible.
            if mode == Mode::Quiet && !(ixfr && i == j) {
                sim::violation(prop, "honest", format!("transfer-failed-without-any-fault/{}", label), format!("end {:?}, apply error {:?}, interpreter finished {}", end, apply_err, finished));
                return;
            }
            if let Err(e) = &end {
                if signed && is_auth_error(e) && l.any_tamper == 0 && t.seq_faults == 0 && t.ids.len() <= 1 && t.req_dups == 0 {
                    sim::violation(prop, "honest", format!("transfer-authentication-error-without-tampering/{}", label), format!("{} (network faults on this exchange: {})", e, t.net_faults));
                    return;
                }
            }
            let ok = complete.iter().any(|c| walk_str(&content_as_walk(c)) == seen);
            if !ok {
                sim::violation(prop, "atomicity", format!("partial-version-left-after-failed-transfer/{}", label), format!("after the failed transfer (end {:?}, apply error {:?}) the secondary holds {} rrsets that match no complete version", end, apply_err, seen.len()));
            }
        }
    }
}

/// Oracle for the query phase. Returns false if a violation stopped the run.
fn check_queries(prop: &'static str, led: &Led, mode: Mode) -> bool {
    let l = led.borrow();
    let empty = Track::default();
    for (key, out) in &l.results {
        let t = l.tracks.get(key).unwrap_or(&empty);
        match out {
            Outcome::Ok(bytes) => {
                let id = u16::from_be_bytes([bytes[0], bytes[1]]);
                // (The verifier leaves the octets of the removed TSIG record
                // behind the message - the known C11 finding reported by the
                // tsig scenario - so compare what the message parses to.)
                let exact = t.clean.iter().any(|(i, b)| *i == id && same_message(b, bytes));
                if !exact {
                    let sent = t.genuine.iter().any(|b| bytes.len() >= b.len() && b[2..] == bytes[2..b.len()]);
                    if std::env::var("DSIM_DEBUG_E2E").is_ok() {
                        eprintln!("got     {:02x?}", bytes);
                        for (i, b) in &t.clean {
                            eprintln!("clean {} {:02x?}", i, b);
                        }
                    }
                    sim::violation(
                        prop,
                        "soundness",
                        if sent { "accepted-response-not-forwarded-unmodified".to_string() } else { "accepted-response-the-server-never-sent".to_string() },
                        format!("{}: the caller got {} octets (id {}) that {}; corrupted in transit for this exchange: {}", key, bytes.len(), id, if sent { "the server sent, but no unmodified copy with this id reached the client" } else { "match no response the server sent" }, t.tampered),
                    );
                    return false;
                }
                // And it answers the question with the service's content.
                let v = match dns::view(bytes) {
                    Some(v) => v,
                    None => {
                        sim::violation(prop, "soundness", "accepted-unparseable-response".to_string(), format!("{}: the response handed to the caller does not parse", key));
                        return false;
                    }
                };
                let q_ok = v.questions.len() == 1 && format!("{}.", v.questions[0].0.trim_end_matches('.')).eq_ignore_ascii_case(key);
                if !q_ok {
                    sim::violation(prop, "soundness", "wrong-question".to_string(), format!("{}: response carries question {:?}", key, v.questions));
                    return false;
                }
            }
            Outcome::Err(e) => {
                if mode == Mode::Quiet {
                    sim::violation(prop, "honest", format!("exchange-failed-without-any-fault/{}", e.split(['(', ' ']).next().unwrap_or("")), format!("{}: {} on a network that delivered everything unchanged", key, e));
                    return false;
                }
                let mut ids = t.ids.clone();
                ids.sort_unstable();
                let n_ids = ids.len();
                ids.dedup();
                let id_reused = ids.len() != n_ids;
                if is_auth_error(e) && l.any_tamper == 0 && !id_reused {
                    sim::violation(
                        prop,
                        "honest",
                        "authentication-error-without-tampering".to_string(),
                        format!("{}: {} although no message of the whole run was modified in transit (loss/duplication/delay faults on this exchange: {}, attempts seen: {})", key, e, t.net_faults, t.ids.len()),
                    );
                    return false;
                }
                if t.net_faults == 0 && t.tampered == 0 && l.any_fault == 0 {
                    sim::violation(prop, "honest", "exchange-failed-without-any-fault".to_string(), format!("{}: {}", key, e));
                    return false;
                }
            }
        }
    }
    true
}

#[allow(dead_code)]
fn _unused(_: ClientError, _: &dyn GetResponse) {}
