//! A signed DNS hierarchy (`.` -> `tld.` -> `zone.tld.`, plus the insecure
//! delegation `unsigned.tld.`) built with the library's own signer and
//! denial generators, and an authoritative responder over it that plays a
//! full resolver for the validator (RFC 4035 section 3.1.3 answers with
//! RRSIGs and NSEC / NSEC3 / wildcard proofs).

use bytes::Bytes;
use domain::base::iana::{Class, Nsec3HashAlgorithm, Rcode};
use domain::base::name::Name;
use domain::base::{CanonicalOrd, MessageBuilder, Record, Rtype, Ttl};
use domain::crypto::sign::KeyPair;
use domain::dnssec::sign::denial::config::DenialConfig;
use domain::dnssec::sign::denial::nsec::GenerateNsecConfig;
use domain::dnssec::sign::denial::nsec3::GenerateNsec3Config;
use domain::dnssec::sign::keys::SigningKey;
use domain::dnssec::sign::records::{Rrset, SortedRecords};
use domain::dnssec::sign::signatures::rrsigs::sign_rrset;
use domain::dnssec::sign::traits::SignableZoneInPlace;
use domain::dnssec::sign::SigningConfig;
use domain::rdata::dnssec::Timestamp;
use domain::rdata::nsec3::{Nsec3Salt, Nsec3param};
use domain::rdata::{Dnskey, ZoneRecordData};
use domain::zonefile::inplace::{Entry, Zonefile};
use std::collections::BTreeMap;

pub type SName = Name<Bytes>;
pub type SData = ZoneRecordData<Bytes, SName>;
pub type SRec = Record<SName, SData>;

pub fn sname(s: &str) -> SName {
    Name::<Bytes>::from_chars(s.chars()).unwrap_or_else(|e| panic!("bad name {:?}: {}", s, e))
}

pub fn lname(n: &impl std::fmt::Display) -> String {
    let s = format!("{}", n).to_ascii_lowercase();
    if s.ends_with('.') {
        s
    } else {
        format!("{}.", s)
    }
}

fn parse_records(origin: &str, text: &str) -> Vec<SRec> {
    let mut zf = Zonefile::new();
    zf.set_origin(sname(origin));
    zf.extend_from_slice(text.as_bytes());
    zf.extend_from_slice(b"\n");
    let mut out = Vec::new();
    loop {
        match zf.next_entry() {
            Ok(Some(Entry::Record(r))) => {
                use domain::base::name::FlattenInto;
                out.push(r.flatten_into());
            }
            Ok(Some(_)) => {}
            Ok(None) => break,
            Err(e) => panic!("zone text for {} does not parse: {}", origin, e),
        }
    }
    out
}

#[derive(Clone, Copy, Debug, PartialEq)]
pub enum Denial {
    Nsec,
    Nsec3 { iterations: u16, salt: bool, opt_out: bool },
}

pub struct ZoneData {
    pub apex: String,
    pub signed: bool,
    pub denial: Denial,
    /// (owner lower-case, rtype) -> records (RRSIGs keyed by covered type
    /// in `sigs`).
    pub rrsets: BTreeMap<(String, Rtype), Vec<SRec>>,
    pub sigs: BTreeMap<(String, Rtype), Vec<SRec>>,
    /// Owners of NSEC records in canonical order / NSEC3 hashed owners.
    pub nsec_owners: Vec<SName>,
    /// For NSEC3: (hash label lower-case base32hex, owner name of the RR).
    pub nsec3_owners: Vec<(String, SName)>,
    pub nsec3_salt: Vec<u8>,
    pub nsec3_iterations: u16,
    pub dnskey: Option<Dnskey<Vec<u8>>>,
    pub key_tag: u16,
    /// An additional, expired RRSIG per signed RRset (as left over from an
    /// earlier signing period), same key.
    pub stale_sigs: BTreeMap<(String, Rtype), SRec>,
}

pub struct World {
    pub zones: Vec<ZoneData>, // root first, deepest last
    /// A root zone signed by an attacker's key whose key tag and algorithm
    /// equal those of the configured trust anchor (the 16-bit tag is easy to
    /// hit by choosing the flags field), holding forged data.
    pub evil_root: Option<ZoneData>,
    pub trust_anchor_text: String,
    /// The same anchor given as a DS record of the root key.
    pub trust_anchor_ds_text: String,
    /// `island.tld.` is a signed zone whose delegation carries no DS: an
    /// island of security. A validator that has this DNSKEY among its trust
    /// anchors (next to the root's) finds its data secure - the innermost
    /// anchor counts -, one that has not finds it insecure.
    pub island_anchor_text: String,
    pub inception: u32,
    pub expiration: u32,
    /// The RRSIG over `zone.tld. DS` (in the tld zone) expires earlier than
    /// every other signature: the chain to anything in zone.tld ends then.
    pub ds_expiration: u32,
    /// For every RRset of the tld and zone.tld zones a cryptographically
    /// correct RRSIG made by `evil.tld.` - a securely delegated sibling zone
    /// that is no ancestor of those names - with itself as signer name.
    pub foreign_sigs: BTreeMap<(String, Rtype), SRec>,
    /// An NSEC3 record of `evil.tld.` - a securely delegated zone whose owner
    /// may sign what it likes - whose owner label is not a Base32hex string,
    /// with its (cryptographically correct) RRSIG.
    pub hostile_nsec3: Vec<SRec>,
}

/// A zone-signing key (flags 256) for a zone that keeps a separate
/// key-signing key.
fn make_zsk(owner: &str) -> (SigningKey<Bytes, KeyPair>, Dnskey<Vec<u8>>) {
    let (secret, dnskey) = domain::crypto::sign::generate(&domain::crypto::sign::GenerateParams::EcdsaP256Sha256, 256).expect("generate key");
    let pair = KeyPair::from_bytes(&secret, &dnskey).expect("keypair");
    (SigningKey::new(sname(owner), 256, pair), dnskey)
}

fn make_key(owner: &str, _seed_byte: u8) -> (SigningKey<Bytes, KeyPair>, Dnskey<Vec<u8>>) {
    // The validator only supports RSA and ECDSA P-256 below a DS (Ed25519
    // delegations are treated as insecure), so the hierarchy uses P-256.
    // ring draws key and nonces from the OS: key material differs from
    // process to process, which no logged event depends on.
    let (secret, dnskey) = domain::crypto::sign::generate(&domain::crypto::sign::GenerateParams::EcdsaP256Sha256, 257).expect("generate key");
    let pair = KeyPair::from_bytes(&secret, &dnskey).expect("keypair");
    (SigningKey::new(sname(owner), 257, pair), dnskey)
}

/// A fresh key for `owner` whose key tag equals `tag`: the tag is a 16-bit
/// checksum over the DNSKEY rdata, which includes the 16-bit flags field, so
/// a suitable value of the flags (ZONE bit kept, REVOKE clear) exists for
/// about every other key.
fn make_key_with_tag(owner: &str, tag: u16) -> Option<(SigningKey<Bytes, KeyPair>, Dnskey<Vec<u8>>)> {
    for _ in 0..64 {
        let (secret, dnskey) = domain::crypto::sign::generate(&domain::crypto::sign::GenerateParams::EcdsaP256Sha256, 257).expect("generate key");
        for flags in (0x0100u16..=0xFFFF).filter(|f| f & 0x0100 != 0 && f & 0x0080 == 0) {
            let cand: Dnskey<Vec<u8>> = Dnskey::new(flags, dnskey.protocol(), dnskey.algorithm(), dnskey.public_key().clone()).expect("dnskey");
            if cand.key_tag() == tag {
                // (The key pair carries the flags: RRSIG key tags are
                // derived from the pair's own DNSKEY.)
                let pair = KeyPair::from_bytes(&secret, &cand).expect("keypair");
                return Some((SigningKey::new(sname(owner), flags, pair), cand));
            }
        }
    }
    None
}

fn ds_text(owner: &str, dnskey: &Dnskey<Vec<u8>>) -> String {
    // RFC 4034 section 5.1.4: SHA-256 over canonical owner | DNSKEY RDATA.
    let mut buf: Vec<u8> = Vec::new();
    for l in owner.trim_end_matches('.').split('.').filter(|l| !l.is_empty()) {
        buf.push(l.len() as u8);
        buf.extend(l.to_ascii_lowercase().as_bytes());
    }
    buf.push(0);
    buf.extend(dnskey.flags().to_be_bytes());
    buf.push(dnskey.protocol());
    buf.push(dnskey.algorithm().to_int());
    buf.extend(dnskey.public_key());
    let d = ring::digest::digest(&ring::digest::SHA256, &buf);
    let hex: String = d.as_ref().iter().map(|b| format!("{:02X}", b)).collect();
    format!("{} {} 2 {}", dnskey.key_tag(), dnskey.algorithm().to_int(), hex)
}

fn build_zone(apex: &str, text: &str, key: Option<&(SigningKey<Bytes, KeyPair>, Dnskey<Vec<u8>>)>, denial: Denial, inception: u32, expiration: u32) -> ZoneData {
    build_zone_split(apex, text, key, None, denial, inception, expiration)
}

/// `ksk`: a separate key-signing key - it is in the DNSKEY RRset next to
/// `key` (which then signs everything but that RRset), signs the DNSKEY
/// RRset, and is what the parent's DS record refers to.
fn build_zone_split(apex: &str, text: &str, key: Option<&(SigningKey<Bytes, KeyPair>, Dnskey<Vec<u8>>)>, ksk: Option<&(SigningKey<Bytes, KeyPair>, Dnskey<Vec<u8>>)>, denial: Denial, inception: u32, expiration: u32) -> ZoneData {
    let mut recs = parse_records(apex, text);
    let apex_name = sname(apex);
    let mut zd = ZoneData {
        apex: lname(&apex_name),
        signed: key.is_some(),
        denial,
        rrsets: BTreeMap::new(),
        sigs: BTreeMap::new(),
        nsec_owners: Vec::new(),
        nsec3_owners: Vec::new(),
        nsec3_salt: Vec::new(),
        nsec3_iterations: 0,
        dnskey: key.map(|k| k.1.clone()),
        key_tag: key.map(|k| k.1.key_tag()).unwrap_or(0),
        stale_sigs: BTreeMap::new(),
    };
    if let Some((skey, dnskey)) = key {
        // Apex DNSKEY RRset.
        let dk: Dnskey<Bytes> = Dnskey::new(dnskey.flags(), dnskey.protocol(), dnskey.algorithm(), Bytes::copy_from_slice(dnskey.public_key())).unwrap();
        recs.push(Record::new(apex_name.clone(), Class::IN, Ttl::from_secs(3600), ZoneRecordData::Dnskey(dk)));
        if let Some((_, kdk)) = ksk {
            let dk: Dnskey<Bytes> = Dnskey::new(kdk.flags(), kdk.protocol(), kdk.algorithm(), Bytes::copy_from_slice(kdk.public_key())).unwrap();
            recs.push(Record::new(apex_name.clone(), Class::IN, Ttl::from_secs(3600), ZoneRecordData::Dnskey(dk)));
        }
        let mut sorted: SortedRecords<SName, SData> = SortedRecords::new();
        for r in recs {
            let _ = sorted.insert(r);
        }
        let den = match denial {
            Denial::Nsec => DenialConfig::Nsec(GenerateNsecConfig::new()),
            Denial::Nsec3 { iterations, salt, opt_out } => {
                let salt_bytes: Vec<u8> = if salt { vec![0xAB, 0xCD] } else { vec![] };
                zd.nsec3_salt = salt_bytes.clone();
                zd.nsec3_iterations = iterations;
                let params = Nsec3param::new(Nsec3HashAlgorithm::SHA1, if opt_out { 1 } else { 0 }, iterations, Nsec3Salt::from_octets(Bytes::from(salt_bytes)).unwrap());
                let mut cfg = GenerateNsec3Config::new(params);
                if opt_out {
                    cfg = cfg.with_opt_out();
                }
                DenialConfig::Nsec3(cfg)
            }
        };
        let cfg = SigningConfig::new(den, Timestamp::from(inception), Timestamp::from(expiration));
        sorted.sign_zone(&apex_name, &cfg, &[skey]).expect("sign_zone");
        // sign_zone leaves the apex DNSKEY RRset unsigned: sign it here.
        let all: Vec<SRec> = sorted.iter().cloned().collect();
        let dnskeys: Vec<SRec> = all.iter().filter(|r| r.rtype() == Rtype::DNSKEY && r.owner() == &apex_name).cloned().collect();
        let rrset = Rrset::new_from_owned(&dnskeys).expect("dnskey rrset");
        // (By the key-signing key where there is one.)
        let sig = sign_rrset(ksk.map(|k| &k.0).unwrap_or(skey), &rrset, Timestamp::from(inception), Timestamp::from(expiration)).expect("sign dnskey");
        let sig_rec: SRec = Record::new(sig.owner().clone(), sig.class(), sig.ttl(), ZoneRecordData::Rrsig(sig.data().clone()));
        index(&mut zd, all.into_iter().chain(std::iter::once(sig_rec)));
        // Stale signatures from "the previous signing period".
        let keys: Vec<(String, Rtype)> = zd.sigs.keys().cloned().collect();
        for (o, t) in keys {
            if let Some(recs) = zd.rrsets.get(&(o.clone(), t)) {
                if let Some(rrset) = Rrset::new_from_owned(recs).ok() {
                    if let Ok(sig) = sign_rrset(skey, &rrset, Timestamp::from(inception - 60 * 86_400), Timestamp::from(inception - 30 * 86_400)) {
                        let rec: SRec = Record::new(sig.owner().clone(), sig.class(), sig.ttl(), ZoneRecordData::Rrsig(sig.data().clone()));
                        zd.stale_sigs.insert((o, t), rec);
                    }
                }
            }
        }
    } else {
        index(&mut zd, recs.into_iter());
    }
    zd
}

fn index(zd: &mut ZoneData, recs: impl Iterator<Item = SRec>) {
    for r in recs {
        let owner = lname(r.owner());
        match r.data() {
            ZoneRecordData::Rrsig(sig) => {
                zd.sigs.entry((owner, sig.type_covered())).or_default().push(r.clone());
            }
            _ => {
                if r.rtype() == Rtype::NSEC {
                    zd.nsec_owners.push(r.owner().clone());
                }
                if r.rtype() == Rtype::NSEC3 {
                    let label = owner.split('.').next().unwrap_or("").to_string();
                    zd.nsec3_owners.push((label, r.owner().clone()));
                }
                zd.rrsets.entry((owner, r.rtype())).or_default().push(r.clone());
            }
        }
    }
    zd.nsec_owners.sort_by(|a, b| a.canonical_cmp(b));
    zd.nsec3_owners.sort();
}

/// Build one world. `variant` selects NSEC vs NSEC3 flavours of the leaf
/// zone (the upper zones use NSEC).
type KeyAndRecord = (SigningKey<Bytes, KeyPair>, Dnskey<Vec<u8>>);

/// The keys of a hierarchy. Worlds that are stages in the life of one
/// hierarchy are built from the same keys.
pub struct Keys {
    root: KeyAndRecord,
    tld: KeyAndRecord,
    zone: KeyAndRecord,
    evil: KeyAndRecord,
    z1: KeyAndRecord,
    z2_ksk: KeyAndRecord,
    z2: KeyAndRecord,
    island: KeyAndRecord,
}

pub fn make_keys() -> Keys {
    Keys {
        root: make_key(".", 1),
        tld: make_key("tld.", 2),
        zone: make_key("zone.tld.", 3),
        evil: make_key("evil.tld.", 4),
        z1: make_key("z1.ent.tld.", 5),
        z2_ksk: make_key("z2.ent.tld.", 6),
        z2: make_zsk("z2.ent.tld."),
        island: make_key("island.tld.", 7),
    }
}

pub fn build_world(variant: u32, epoch: u32, keys: &Keys) -> World {
    let inception = epoch - 86_400;
    let expiration = epoch + 30 * 86_400;
    let ds_expiration = epoch + 12 * 86_400;
    let root_key = &keys.root;
    let tld_key = &keys.tld;
    let zone_key = &keys.zone;
    let evil_key = &keys.evil;
    // Two zones delegated two labels below the tld's apex (`ent.tld.` is an
    // empty non-terminal of the tld zone): the walk from the tld's keys to
    // theirs passes a name that is no zone cut.
    let z1_key = &keys.z1;
    // z2.ent.tld. keeps a key-signing key (what the DS refers to, signs the
    // DNSKEY RRset only) apart from its zone-signing key.
    let z2_ksk = &keys.z2_ksk;
    let z2_key = &keys.z2;
    let island_key = &keys.island;
    // Variants 4-7 are variants 0-3 a little later in the island's life: its
    // DS has been published in the tld zone (the delegation became secure).
    let island_ds = if variant >= 4 { format!("island.tld. 3600 IN DS {}\n", ds_text("island.tld.", &island_key.1)) } else { String::new() };
    let leaf_denial = match variant % 4 {
        0 => Denial::Nsec,
        1 => Denial::Nsec3 { iterations: 0, salt: false, opt_out: false },
        2 => Denial::Nsec3 { iterations: 5, salt: true, opt_out: false },
        _ => Denial::Nsec3 { iterations: 1, salt: true, opt_out: true },
    };
    let tld_denial = if variant % 4 == 3 { Denial::Nsec3 { iterations: 0, salt: false, opt_out: true } } else { Denial::Nsec };
    let root_text = format!(
        ". 3600 IN SOA a.root. admin.root. 1 7200 3600 86400 300\n. 3600 IN NS a.root.\na.root. 3600 IN A 198.51.100.1\ntld. 3600 IN NS ns.tld.\ntld. 3600 IN DS {}\nns.tld. 3600 IN A 198.51.100.2\nother. 3600 IN TXT \"other tld\"\n",
        ds_text("tld.", &tld_key.1)
    );
    // In two of the variants the DS set of zone.tld also holds a record for
    // an algorithm the validator does not support (a pre-published key):
    // RFC 4035 section 5.2 has a validator ignore those and use the rest.
    let extra_ds = if variant % 2 == 1 { format!("zone.tld. 3600 IN DS 4711 15 2 {}\n", "AB".repeat(32)) } else { String::new() };
    let tld_text = format!(
        "tld. 3600 IN SOA ns.tld. admin.tld. 1 7200 3600 86400 300\ntld. 3600 IN NS ns.tld.\nns.tld. 3600 IN A 198.51.100.2\nzone.tld. 3600 IN NS ns.zone.tld.\n{extra_ds}zone.tld. 3600 IN DS {}\nns.zone.tld. 3600 IN A 198.51.100.3\nunsigned.tld. 3600 IN NS ns.unsigned.tld.\nns.unsigned.tld. 3600 IN A 198.51.100.4\nevil.tld. 3600 IN NS ns.evil.tld.\nevil.tld. 3600 IN DS {}\nns.evil.tld. 3600 IN A 198.51.100.66\nplain.tld. 3600 IN TXT \"in the tld zone\"\nalso.unsigned2.tld. 3600 IN TXT \"below an ent\"\nz1.ent.tld. 3600 IN NS ns.z1.ent.tld.\nz1.ent.tld. 3600 IN DS {}\nns.z1.ent.tld. 3600 IN A 198.51.100.71\nz2.ent.tld. 3600 IN NS ns.z2.ent.tld.\nz2.ent.tld. 3600 IN DS {}\nns.z2.ent.tld. 3600 IN A 198.51.100.72\ned.tld. 3600 IN NS ns.ed.tld.\ned.tld. 3600 IN DS 4712 15 2 {}\nns.ed.tld. 3600 IN A 198.51.100.73\nisland.tld. 3600 IN NS ns.island.tld.\n{island_ds}ns.island.tld. 3600 IN A 198.51.100.74\n",
        ds_text("zone.tld.", &zone_key.1),
        ds_text("evil.tld.", &evil_key.1),
        ds_text("z1.ent.tld.", &z1_key.1),
        ds_text("z2.ent.tld.", &z2_ksk.1),
        "CD".repeat(32)
    );
    let zone_text = "zone.tld. 3600 IN SOA ns.zone.tld. admin.zone.tld. 1 7200 3600 86400 300\n\
zone.tld. 3600 IN NS ns.zone.tld.\n\
ns.zone.tld. 3600 IN A 198.51.100.3\n\
www.zone.tld. 300 IN A 192.0.2.1\n\
www.zone.tld. 300 IN A 192.0.2.2\n\
www.zone.tld. 300 IN TXT \"hello\"\n\
txt.zone.tld. 300 IN TXT \"just text\"\n\
alias.zone.tld. 300 IN CNAME www.zone.tld.\n\
alias2.zone.tld. 300 IN CNAME alias.zone.tld.\n\
ext.zone.tld. 300 IN CNAME host.unsigned.tld.\n\
dangling.zone.tld. 300 IN CNAME nothing.zone.tld.\n\
*.wild.zone.tld. 300 IN A 192.0.2.9\n\
*.wild.zone.tld. 300 IN TXT \"wild\"\n\
wild.zone.tld. 300 IN TXT \"wild base\"\n\
sub.wild.zone.tld. 300 IN TXT \"blocks the wildcard below it\"\n\
sub.wild.zone.tld. 300 IN AAAA 2001:db8::5\n\
*.wc.zone.tld. 300 IN CNAME www.zone.tld.\n\
x.ent.zone.tld. 300 IN A 192.0.2.7\n\
deep.a.b.zone.tld. 300 IN A 192.0.2.8\n\
mx.zone.tld. 300 IN MX 10 www.zone.tld.\n\
dn.zone.tld. 300 IN DNAME dt.zone.tld.\n\
x.dt.zone.tld. 300 IN A 192.0.2.33\n";
    let unsigned_text = "unsigned.tld. 3600 IN SOA ns.unsigned.tld. admin.unsigned.tld. 1 7200 3600 86400 300\n\
unsigned.tld. 3600 IN NS ns.unsigned.tld.\n\
ns.unsigned.tld. 3600 IN A 198.51.100.4\n\
host.unsigned.tld. 300 IN A 203.0.113.1\n\
host.unsigned.tld. 300 IN TXT \"insecure\"\n\
dn.unsigned.tld. 300 IN DNAME zone.tld.\n";
    let evil_text = "evil.tld. 3600 IN SOA ns.evil.tld. admin.evil.tld. 1 7200 3600 86400 300\n\
evil.tld. 3600 IN NS ns.evil.tld.\n\
ns.evil.tld. 3600 IN A 198.51.100.66\n";
    let z1_text = "z1.ent.tld. 3600 IN SOA ns.z1.ent.tld. admin.z1.ent.tld. 1 7200 3600 86400 300\n\
z1.ent.tld. 3600 IN NS ns.z1.ent.tld.\n\
ns.z1.ent.tld. 3600 IN A 198.51.100.71\n\
www.z1.ent.tld. 300 IN A 192.0.2.71\n\
z1.ent.tld. 3600 IN DNSKEY 256 3 8 AgE=\n";
    let z2_text = "z2.ent.tld. 3600 IN SOA ns.z2.ent.tld. admin.z2.ent.tld. 1 7200 3600 86400 300\n\
z2.ent.tld. 3600 IN NS ns.z2.ent.tld.\n\
ns.z2.ent.tld. 3600 IN A 198.51.100.72\n\
www.z2.ent.tld. 300 IN A 192.0.2.72\n";
    // A delegation whose DS set names only an algorithm the validator does
    // not support (Ed25519): insecure, RFC 4035 section 5.2.
    let ed_text = "ed.tld. 3600 IN SOA ns.ed.tld. admin.ed.tld. 1 7200 3600 86400 300\n\
ed.tld. 3600 IN NS ns.ed.tld.\n\
ns.ed.tld. 3600 IN A 198.51.100.73\n\
host.ed.tld. 300 IN A 203.0.113.73\n";
    let island_text = "island.tld. 3600 IN SOA ns.island.tld. admin.island.tld. 1 7200 3600 86400 300\n\
island.tld. 3600 IN NS ns.island.tld.\n\
ns.island.tld. 3600 IN A 198.51.100.74\n\
www.island.tld. 300 IN A 192.0.2.74\n\
txt.island.tld. 300 IN TXT \"on the island\"\n";
    let mut zones = vec![
        build_zone(".", &root_text, Some(root_key), Denial::Nsec, inception, expiration),
        build_zone("tld.", &tld_text, Some(tld_key), tld_denial, inception, expiration),
        build_zone("zone.tld.", zone_text, Some(zone_key), leaf_denial, inception, expiration),
        build_zone("unsigned.tld.", unsigned_text, None, Denial::Nsec, inception, expiration),
        build_zone("evil.tld.", evil_text, Some(evil_key), Denial::Nsec, inception, expiration),
        build_zone("z1.ent.tld.", z1_text, Some(z1_key), Denial::Nsec, inception, expiration),
        build_zone_split("z2.ent.tld.", z2_text, Some(z2_key), Some(z2_ksk), leaf_denial, inception, expiration),
        build_zone("ed.tld.", ed_text, None, Denial::Nsec, inception, expiration),
        build_zone("island.tld.", island_text, Some(island_key), Denial::Nsec, inception, expiration),
    ];
    // The DS of zone.tld is signed for a shorter period.
    {
        let key = ("zone.tld.".to_string(), Rtype::DS);
        let rrset = Rrset::new_from_owned(&zones[1].rrsets[&key]).expect("ds rrset");
        let sig = sign_rrset(&tld_key.0, &rrset, Timestamp::from(inception), Timestamp::from(ds_expiration)).expect("sign ds");
        let rec: SRec = Record::new(sig.owner().clone(), sig.class(), sig.ttl(), ZoneRecordData::Rrsig(sig.data().clone()));
        zones[1].sigs.insert(key, vec![rec]);
    }
    // What the sibling zone's key can put its name under.
    let mut foreign_sigs = BTreeMap::new();
    for z in &zones[1..3] {
        for ((o, t), recs) in &z.rrsets {
            if matches!(*t, Rtype::NSEC | Rtype::NSEC3 | Rtype::NSEC3PARAM | Rtype::DNSKEY) {
                continue;
            }
            if let Ok(rrset) = Rrset::new_from_owned(recs) {
                if let Ok(sig) = sign_rrset(&evil_key.0, &rrset, Timestamp::from(inception), Timestamp::from(expiration)) {
                    let rec: SRec = Record::new(sig.owner().clone(), sig.class(), sig.ttl(), ZoneRecordData::Rrsig(sig.data().clone()));
                    foreign_sigs.insert((o.clone(), *t), rec);
                }
            }
        }
    }
    let hostile_nsec3: Vec<SRec> = {
        let recs = parse_records("evil.tld.", "zz--not-base32hex!.evil.tld. 300 IN NSEC3 1 0 0 - 0123456789abcdefghijklmnopqrstuv A\n");
        let rrset = Rrset::new_from_owned(&recs).expect("nsec3 rrset");
        let sig = sign_rrset(&evil_key.0, &rrset, Timestamp::from(inception), Timestamp::from(expiration)).expect("sign hostile nsec3");
        let sig_rec: SRec = Record::new(sig.owner().clone(), sig.class(), sig.ttl(), ZoneRecordData::Rrsig(sig.data().clone()));
        recs.into_iter().chain(std::iter::once(sig_rec)).collect()
    };
    let b64 = {
        let dk = &root_key.1;
        let rec: Record<SName, Dnskey<Vec<u8>>> = Record::new(sname("."), Class::IN, Ttl::from_secs(3600), dk.clone());
        format!("{}", rec.data())
    };
    let evil_root = make_key_with_tag(".", root_key.1.key_tag()).map(|k| {
        build_zone(
            ".",
            ". 3600 IN SOA a.root. admin.root. 1 7200 3600 86400 300\n. 3600 IN NS a.root.\na.root. 3600 IN A 203.0.113.66\nother. 3600 IN TXT \"forged by the holder of a colliding key\"\n",
            Some(&k),
            Denial::Nsec,
            inception,
            expiration,
        )
    });
    World {
        zones,
        evil_root,
        trust_anchor_text: format!(". 3600 IN DNSKEY {}", b64),
        trust_anchor_ds_text: format!(". 3600 IN DS {}", ds_text(".", &root_key.1)),
        island_anchor_text: {
            let rec: Record<SName, Dnskey<Vec<u8>>> = Record::new(sname("island.tld."), Class::IN, Ttl::from_secs(3600), island_key.1.clone());
            format!("island.tld. 3600 IN DNSKEY {}", rec.data())
        },
        inception,
        expiration,
        ds_expiration,
        foreign_sigs,
        hostile_nsec3,
    }
}

// ---------------------------------------------------------------- responder

/// A section of a response under construction.
#[derive(Clone, Default)]
pub struct Resp {
    pub rcode_nx: bool,
    pub answer: Vec<SRec>,
    pub authority: Vec<SRec>,
    /// Expected security status of the final answer.
    pub insecure: bool,
    /// The data comes from the island of security (`island.tld.`).
    pub island: bool,
    /// The RRsets that constitute the negative / wildcard proof (owner, type)
    /// - for the oracle.
    pub proof: Vec<(String, Rtype)>,
    pub servfail: bool,
}

fn ends_with(name: &str, suffix: &str) -> bool {
    suffix == "." || name == suffix || name.ends_with(&format!(".{}", suffix))
}

fn parent_of(name: &str) -> Option<String> {
    if name == "." {
        return None;
    }
    match name.split_once('.') {
        Some((_, rest)) if !rest.is_empty() => Some(rest.to_string()),
        _ => Some(".".to_string()),
    }
}

impl ZoneData {
    fn has_owner(&self, n: &str) -> bool {
        self.rrsets.keys().any(|(o, t)| o == n && *t != Rtype::NSEC3)
    }
    fn exists(&self, n: &str) -> bool {
        let suffix = if n == "." { ".".to_string() } else { format!(".{}", n) };
        self.rrsets.keys().any(|(o, t)| *t != Rtype::NSEC3 && (o == n || (n != "." && o.ends_with(&suffix)) || n == "."))
    }
    /// The delegation point at or above `n` inside this zone, if any.
    fn cut_for(&self, n: &str) -> Option<String> {
        let mut cur = n.to_string();
        let mut found = None;
        loop {
            if cur != self.apex && self.rrsets.contains_key(&(cur.clone(), Rtype::NS)) {
                found = Some(cur.clone());
            }
            if cur == self.apex {
                break;
            }
            match parent_of(&cur) {
                Some(p) if ends_with(&p, &self.apex) => cur = p,
                _ => break,
            }
        }
        found
    }
    fn push_set(&self, out: &mut Vec<SRec>, owner: &str, rtype: Rtype, as_owner: Option<&SName>) -> bool {
        let Some(recs) = self.rrsets.get(&(owner.to_string(), rtype)) else {
            return false;
        };
        for r in recs {
            out.push(match as_owner {
                Some(o) => Record::new(o.clone(), r.class(), r.ttl(), r.data().clone()),
                None => r.clone(),
            });
        }
        if let Some(sigs) = self.sigs.get(&(owner.to_string(), rtype)) {
            for s in sigs {
                out.push(match as_owner {
                    Some(o) => Record::new(o.clone(), s.class(), s.ttl(), s.data().clone()),
                    None => s.clone(),
                });
            }
        }
        true
    }

    // ---- NSEC
    fn nsec_covering(&self, n: &SName) -> Option<String> {
        // Largest NSEC owner <= n in canonical order, wrapping to the last.
        let mut best: Option<&SName> = None;
        for o in &self.nsec_owners {
            if o.canonical_cmp(n) != std::cmp::Ordering::Greater {
                best = Some(o);
            }
        }
        best.or(self.nsec_owners.last()).map(lname)
    }

    // ---- NSEC3
    pub fn nsec3_hash(&self, n: &str) -> String {
        let mut wire: Vec<u8> = Vec::new();
        for l in n.trim_end_matches('.').split('.').filter(|l| !l.is_empty()) {
            wire.push(l.len() as u8);
            wire.extend(l.to_ascii_lowercase().as_bytes());
        }
        wire.push(0);
        let mut h: Vec<u8> = {
            let mut ctx = ring::digest::Context::new(&ring::digest::SHA1_FOR_LEGACY_USE_ONLY);
            ctx.update(&wire);
            ctx.update(&self.nsec3_salt);
            ctx.finish().as_ref().to_vec()
        };
        for _ in 0..self.nsec3_iterations {
            let mut ctx = ring::digest::Context::new(&ring::digest::SHA1_FOR_LEGACY_USE_ONLY);
            ctx.update(&h);
            ctx.update(&self.nsec3_salt);
            h = ctx.finish().as_ref().to_vec();
        }
        base32hex(&h)
    }
    fn nsec3_matching(&self, n: &str) -> Option<String> {
        let h = self.nsec3_hash(n);
        self.nsec3_owners.iter().find(|(l, _)| *l == h).map(|(_, o)| lname(o))
    }
    /// The NSEC3 record whose *next hashed owner* is the hash of `n` (an
    /// existing name): the one in front of it in the chain; none when `n`'s
    /// hash is the smallest of the zone.
    fn nsec3_preceding(&self, n: &str) -> Option<String> {
        let h = self.nsec3_hash(n);
        let i = self.nsec3_owners.iter().position(|(l, _)| *l == h)?;
        if i == 0 {
            return None;
        }
        Some(lname(&self.nsec3_owners[i - 1].1))
    }
    fn nsec3_covering(&self, n: &str) -> Option<String> {
        let h = self.nsec3_hash(n);
        let mut best: Option<&(String, SName)> = None;
        for e in &self.nsec3_owners {
            if e.0 <= h {
                best = Some(e);
            }
        }
        best.or(self.nsec3_owners.last()).map(|(_, o)| lname(o))
    }
}

fn base32hex(data: &[u8]) -> String {
    const ALPHA: &[u8] = b"0123456789abcdefghijklmnopqrstuv";
    let mut out = String::new();
    let mut acc: u32 = 0;
    let mut bits = 0;
    for b in data {
        acc = (acc << 8) | *b as u32;
        bits += 8;
        while bits >= 5 {
            out.push(ALPHA[((acc >> (bits - 5)) & 31) as usize] as char);
            bits -= 5;
        }
    }
    if bits > 0 {
        out.push(ALPHA[((acc << (5 - bits)) & 31) as usize] as char);
    }
    out
}

impl World {
    fn zone(&self, apex: &str) -> Option<&ZoneData> {
        self.zones.iter().find(|z| z.apex == apex)
    }

    /// Which zone answers (qname, qtype)? Walk down from the root.
    fn find_zone(&self, qname: &str, qtype: Rtype) -> &ZoneData {
        let mut z = &self.zones[0];
        loop {
            match z.cut_for(qname) {
                Some(cut) => {
                    if cut == qname && qtype == Rtype::DS {
                        return z; // the parent side answers DS
                    }
                    match self.zone(&cut) {
                        Some(child) => z = child,
                        None => return z, // lame: answer from the parent
                    }
                }
                None => return z,
            }
        }
    }

    /// Add the denial-of-existence records for `qname` in `z`.
    /// `kind`: 0 NODATA at existing name, 1 NXDOMAIN, 2 wildcard expansion
    /// (prove no closer match), 3 wildcard NODATA.
    fn add_denial(&self, z: &ZoneData, r: &mut Resp, qname: &str, closest_encloser: &str, kind: u8) {
        if !z.signed {
            return;
        }
        let mut owners: Vec<(String, Rtype)> = Vec::new();
        match z.denial {
            Denial::Nsec => {
                let qn = sname(qname);
                match kind {
                    0 => {
                        if z.rrsets.contains_key(&(qname.to_string(), Rtype::NSEC)) {
                            owners.push((qname.to_string(), Rtype::NSEC));
                        } else if let Some(c) = z.nsec_covering(&qn) {
                            owners.push((c, Rtype::NSEC)); // empty non-terminal
                        }
                    }
                    _ => {
                        if let Some(c) = z.nsec_covering(&qn) {
                            owners.push((c, Rtype::NSEC));
                        }
                        let wc = if closest_encloser == "." { "*.".to_string() } else { format!("*.{}", closest_encloser) };
                        if kind == 1 {
                            if let Some(c) = z.nsec_covering(&sname(&wc)) {
                                owners.push((c, Rtype::NSEC));
                            }
                        }
                        if kind == 3 {
                            owners.push((wc, Rtype::NSEC));
                        }
                    }
                }
            }
            Denial::Nsec3 { .. } => {
                match kind {
                    0 => {
                        if let Some(m) = z.nsec3_matching(qname) {
                            owners.push((m, Rtype::NSEC3));
                        }
                    }
                    _ => {
                        // Closest encloser proof: match ce, cover next closer.
                        if let Some(m) = z.nsec3_matching(closest_encloser) {
                            owners.push((m, Rtype::NSEC3));
                        }
                        let next_closer = {
                            // qname label just below the closest encloser.
                            let mut cur = qname.to_string();
                            loop {
                                match parent_of(&cur) {
                                    Some(p) if p == closest_encloser => break cur,
                                    Some(p) => cur = p,
                                    None => break cur,
                                }
                            }
                        };
                        if let Some(c) = z.nsec3_covering(&next_closer) {
                            owners.push((c, Rtype::NSEC3));
                        }
                        let wc = if closest_encloser == "." { "*.".to_string() } else { format!("*.{}", closest_encloser) };
                        if kind == 1 {
                            if let Some(c) = z.nsec3_covering(&wc) {
                                owners.push((c, Rtype::NSEC3));
                            }
                        }
                        if kind == 3 {
                            if let Some(m) = z.nsec3_matching(&wc) {
                                owners.push((m, Rtype::NSEC3));
                            }
                        }
                        if kind == 2 {
                            // Wildcard expansion needs only the next closer cover.
                            owners.remove(0);
                        }
                    }
                }
            }
        }
        owners.sort();
        owners.dedup();
        // The validator takes the existence of the zone apex (the signer
        // name) for granted, so the NSEC3 matching an apex closest encloser
        // is sent but is not an indispensable part of the proof.
        let apex_match = match z.denial {
            Denial::Nsec3 { .. } if kind != 0 && closest_encloser == z.apex => z.nsec3_matching(&z.apex),
            _ => None,
        };
        let n_owners = owners.len();
        for (o, t) in owners {
            if z.push_set(&mut r.authority, &o, t, None) {
                // (If one record plays several roles it stays essential.)
                if Some(&o) == apex_match.as_ref() && n_owners >= 2 && kind != 3 {
                    let also_cover = {
                        let nc = z.nsec3_covering(qname);
                        nc.as_ref() == Some(&o)
                    };
                    if !also_cover {
                        continue;
                    }
                }
                r.proof.push((o, t));
            }
        }
    }

    /// Resolve like a full resolver would, including CNAME chasing.
    pub fn resolve(&self, qname: &str, qtype: Rtype) -> Resp {
        let mut r = Resp::default();
        let mut name = qname.to_ascii_lowercase();
        for _hop in 0..8 {
            let z = self.find_zone(&name, qtype);
            if !z.signed {
                r.insecure = true;
            }
            if z.apex == "island.tld." {
                r.island = true;
            }
            let qn = sname(&name);
            // 1. data
            if z.push_set(&mut r.answer, &name, qtype, None) {
                return r;
            }
            // 2. CNAME
            if qtype != Rtype::CNAME && z.rrsets.contains_key(&(name.clone(), Rtype::CNAME)) {
                z.push_set(&mut r.answer, &name, Rtype::CNAME, None);
                let target = match z.rrsets[&(name.clone(), Rtype::CNAME)][0].data() {
                    ZoneRecordData::Cname(c) => lname(c.cname()),
                    _ => unreachable!(),
                };
                name = target;
                continue;
            }
            // 2b. DNAME at an ancestor inside this zone: the signed DNAME
            // plus the synthesised (unsigned) CNAME, then on to the target.
            {
                let mut cur = name.clone();
                let mut found: Option<(String, String)> = None;
                while let Some(p) = parent_of(&cur) {
                    if p == z.apex || !ends_with(&p, &z.apex) {
                        break;
                    }
                    if let Some(recs) = z.rrsets.get(&(p.clone(), Rtype::DNAME)) {
                        if let ZoneRecordData::Dname(d) = recs[0].data() {
                            found = Some((p.clone(), lname(d.dname())));
                        }
                        break;
                    }
                    cur = p;
                }
                if let Some((owner, target)) = found {
                    z.push_set(&mut r.answer, &owner, Rtype::DNAME, None);
                    let prefix = &name[..name.len() - owner.len()];
                    let new_name = format!("{}{}", prefix, target);
                    let ttl = z.rrsets[&(owner.clone(), Rtype::DNAME)][0].ttl();
                    r.answer.push(Record::new(qn.clone(), Class::IN, ttl, ZoneRecordData::Cname(domain::rdata::Cname::new(sname(&new_name)))));
                    name = new_name;
                    continue;
                }
            }
            // Insecure delegation: DS query at the cut answered by the parent.
            // 3. name exists -> NODATA
            if z.has_owner(&name) || z.exists(&name) {
                z.push_set(&mut r.authority, &z.apex, Rtype::SOA, None);
                // For an opt-out span / insecure delegation the NSEC(3) of
                // the cut itself (no DS bit) is the proof.
                self.add_denial(z, &mut r, &name, &name, 0);
                if let Denial::Nsec3 { opt_out: true, .. } = z.denial {
                    if qtype == Rtype::DS && z.nsec3_matching(&name).is_none() {
                        // Opt-out: no NSEC3 for the insecure delegation;
                        // prove with closest encloser + covering NSEC3.
                        let ce = parent_of(&name).unwrap_or(".".into());
                        self.add_denial(z, &mut r, &name, &ce, 2);
                        if let Some(m) = z.nsec3_matching(&ce) {
                            if z.push_set(&mut r.authority, &m, Rtype::NSEC3, None) {
                                r.proof.push((m, Rtype::NSEC3));
                            }
                        }
                    }
                }
                return r;
            }
            // 4. wildcard / NXDOMAIN
            let mut ce = z.apex.clone();
            {
                let mut cur = name.clone();
                while let Some(p) = parent_of(&cur) {
                    if !ends_with(&p, &z.apex) {
                        break;
                    }
                    if z.exists(&p) {
                        ce = p;
                        break;
                    }
                    cur = p;
                }
            }
            let wc = if ce == "." { "*.".to_string() } else { format!("*.{}", ce) };
            if z.has_owner(&wc) {
                if z.push_set(&mut r.answer, &wc, qtype, Some(&qn)) {
                    self.add_denial(z, &mut r, &name, &ce, 2);
                    return r;
                }
                if qtype != Rtype::CNAME && z.rrsets.contains_key(&(wc.clone(), Rtype::CNAME)) {
                    z.push_set(&mut r.answer, &wc, Rtype::CNAME, Some(&qn));
                    self.add_denial(z, &mut r, &name, &ce, 2);
                    let target = match z.rrsets[&(wc.clone(), Rtype::CNAME)][0].data() {
                        ZoneRecordData::Cname(c) => lname(c.cname()),
                        _ => unreachable!(),
                    };
                    name = target;
                    continue;
                }
                z.push_set(&mut r.authority, &z.apex, Rtype::SOA, None);
                self.add_denial(z, &mut r, &name, &ce, 3);
                return r;
            }
            r.rcode_nx = true;
            z.push_set(&mut r.authority, &z.apex, Rtype::SOA, None);
            self.add_denial(z, &mut r, &name, &ce, 1);
            return r;
        }
        r.servfail = true;
        r
    }
}

impl World {
    /// What an adversary can assemble from genuine parent-zone records to
    /// deny a name that lives below a delegation: NXDOMAIN with the parent
    /// SOA, the (parent-side) NSEC of the delegation point - which sorts
    /// right before everything below the cut - and the NSEC covering the
    /// parent's wildcard. A validator must not accept it (the NSEC has the
    /// NS bit without SOA: it says nothing about names below the cut).
    pub fn forged_nxdomain_below_cut(&self, qname: &str) -> Option<Resp> {
        let qname = qname.to_ascii_lowercase();
        // Parent zone: the deepest signed NSEC zone with a cut above qname.
        for z in self.zones.iter().rev() {
            if !z.signed || z.denial != Denial::Nsec {
                continue;
            }
            if let Some(cut) = z.cut_for(&qname) {
                if cut == qname {
                    continue;
                }
                let mut r = Resp {
                    rcode_nx: true,
                    ..Default::default()
                };
                z.push_set(&mut r.authority, &z.apex, Rtype::SOA, None);
                if !z.push_set(&mut r.authority, &cut, Rtype::NSEC, None) {
                    return None;
                }
                let wc = if z.apex == "." { "*.".to_string() } else { format!("*.{}", z.apex) };
                if let Some(c) = z.nsec_covering(&sname(&wc)) {
                    if c != cut {
                        z.push_set(&mut r.authority, &c, Rtype::NSEC, None);
                    }
                }
                return Some(r);
            }
        }
        None
    }

    /// Another assembly of genuine records: the name does not exist (an
    /// existing name between it and a wildcard blocks the expansion), but the
    /// adversary answers with that wildcard's RRset re-owned to the query
    /// name - its RRSIG verifies, the labels field points at the wildcard's
    /// parent - together with the genuine denial of the query name, whose
    /// closest encloser is the blocking name. RFC 4035 section 5.3.4: the
    /// proof must show that no closer match exists, which here it does not.
    pub fn forged_wildcard_replay(&self, qname: &str, qtype: Rtype) -> Option<Resp> {
        let truth = self.resolve(qname, qtype);
        if !truth.rcode_nx || truth.insecure {
            return None;
        }
        let name = qname.to_ascii_lowercase();
        let z = self.zones.iter().rev().find(|z| z.signed && ends_with(&name, &z.apex))?;
        let qn = sname(qname);
        // Closest encloser of the true denial.
        let mut ce = None;
        let mut cur = name.clone();
        while let Some(p) = parent_of(&cur) {
            if !ends_with(&p, &z.apex) {
                break;
            }
            if ce.is_none() && z.exists(&p) {
                ce = Some(p.clone());
            } else if ce.is_some() {
                // Strictly above the closest encloser: a wildcard here is
                // blocked for the query name.
                let wc = format!("*.{}", p);
                if z.has_owner(&wc) {
                    let mut r = Resp::default();
                    if z.push_set(&mut r.answer, &wc, qtype, Some(&qn)) {
                        r.authority = truth.authority.iter().filter(|rec| rec.rtype() != Rtype::SOA && !matches!(rec.data(), ZoneRecordData::Rrsig(s) if s.type_covered() == Rtype::SOA)).cloned().collect();
                        return Some(r);
                    }
                }
            }
            cur = p;
        }
        None
    }

    /// Denials of data that exists, assembled from genuine records:
    /// mode 0 - NODATA with the NSEC/NSEC3 *matching* the query name (whose
    /// bitmap lists the type); mode 1 - NXDOMAIN with that matching record in
    /// the place of a covering one plus the wildcard denial; mode 2 - for the
    /// apex of a signed child zone, NODATA with the parent zone's SOA and the
    /// parent-side NSEC/NSEC3 of the delegation (NS, DS, no SOA bit: it says
    /// nothing about the child's apex, RFC 4035 section 5.4); mode 3 - NSEC3
    /// zones: NXDOMAIN with the record in front of the name in the hash chain
    /// (its next hashed owner *is* the name's hash: the name is not inside
    /// the interval, it ends it).
    pub fn forged_denial_of_existing(&self, qname: &str, qtype: Rtype, mode: u8) -> Option<Resp> {
        let truth = self.resolve(qname, qtype);
        let name = qname.to_ascii_lowercase();
        // Mode 5: "no data of that type" at the owner of an alias, shown with
        // the alias's own NSEC / NSEC3 - which has the CNAME bit set and so
        // proves nothing about other types (the signed CNAME was withheld).
        if mode == 5 {
            if truth.rcode_nx || truth.insecure || qtype == Rtype::CNAME || truth.answer.first().is_none_or(|r| lname(r.owner()) != name || r.rtype() != Rtype::CNAME) {
                return None;
            }
        } else if truth.rcode_nx || truth.insecure || truth.answer.first().is_none_or(|r| lname(r.owner()) != name || r.rtype() != qtype) {
            return None;
        }
        let mut r = Resp::default();
        match mode {
            4 => {
                // NXDOMAIN for a name of an NSEC zone, "proven" by the zone's
                // apex NSEC and the *last NSEC of a securely delegated child
                // zone* that sorts before the name: that one wraps around to
                // its own apex and so "covers" everything behind it - but it
                // is the child's, signed by the child, and says nothing about
                // the parent's names.
                let z = self.find_zone(&name, qtype);
                if !z.signed || !z.has_owner(&name) || name == z.apex || z.denial != Denial::Nsec {
                    return None;
                }
                let child = self.zones.iter().find(|c| c.signed && c.denial == Denial::Nsec && c.apex != z.apex && ends_with(&c.apex, &z.apex) && sname(&c.apex).canonical_cmp(&sname(&name)) == std::cmp::Ordering::Less)?;
                let last = child.nsec_owners.last()?;
                r.rcode_nx = true;
                z.push_set(&mut r.authority, &z.apex, Rtype::SOA, None);
                z.push_set(&mut r.authority, &z.apex, Rtype::NSEC, None);
                child.push_set(&mut r.authority, &lname(last), Rtype::NSEC, None);
            }
            3 => {
                let z = self.find_zone(&name, qtype);
                if !z.signed || !z.has_owner(&name) || name == z.apex || !matches!(z.denial, Denial::Nsec3 { .. }) {
                    return None;
                }
                let parent = parent_of(&name)?;
                let pre = z.nsec3_preceding(&name)?;
                r.rcode_nx = true;
                z.push_set(&mut r.authority, &z.apex, Rtype::SOA, None);
                // Closest encloser (the parent) matched, the "next closer"
                // name - the query name - "covered", the wildcard covered.
                if let Some(m) = z.nsec3_matching(&parent) {
                    z.push_set(&mut r.authority, &m, Rtype::NSEC3, None);
                }
                z.push_set(&mut r.authority, &pre, Rtype::NSEC3, None);
                if let Some(c) = z.nsec3_covering(&format!("*.{}", parent)) {
                    if c != pre {
                        z.push_set(&mut r.authority, &c, Rtype::NSEC3, None);
                    }
                }
            }
            0 | 1 | 5 => {
                let z = self.find_zone(&name, qtype);
                if !z.signed || !z.has_owner(&name) {
                    return None;
                }
                z.push_set(&mut r.authority, &z.apex, Rtype::SOA, None);
                if mode == 0 || mode == 5 {
                    self.add_denial(z, &mut r, &name, &name, 0);
                } else {
                    if name == z.apex {
                        return None;
                    }
                    r.rcode_nx = true;
                    let parent = parent_of(&name)?;
                    self.add_denial(z, &mut r, &name, &parent, 1);
                }
            }
            _ => {
                if qtype == Rtype::DS || name == "." {
                    return None;
                }
                let child = self.zone(&name)?;
                if !child.signed {
                    return None;
                }
                let p = self.find_zone(&name, Rtype::DS);
                if !p.signed || p.apex == name {
                    return None;
                }
                p.push_set(&mut r.authority, &p.apex, Rtype::SOA, None);
                self.add_denial(p, &mut r, &name, &name, 0);
            }
        }
        if r.authority.iter().all(|x| !matches!(x.rtype(), Rtype::NSEC | Rtype::NSEC3)) {
            return None;
        }
        r.proof.clear();
        Some(r)
    }

    /// NODATA for a type that exists at the query name, "proven" with the
    /// NSEC of the wildcard next to it re-owned to the query name: the RRSIG
    /// verifies (the labels field restores the wildcard owner), the type is
    /// missing from the bitmap. RFC 4035 section 5.3.4 / RFC 4592: an NSEC
    /// obtained by wildcard expansion proves nothing about the name it was
    /// expanded to.
    pub fn forged_wildcard_nsec_nodata(&self, qname: &str, qtype: Rtype) -> Option<Resp> {
        let truth = self.resolve(qname, qtype);
        let name = qname.to_ascii_lowercase();
        if truth.rcode_nx || truth.insecure || truth.answer.first().is_none_or(|r| lname(r.owner()) != name || r.rtype() != qtype) {
            return None;
        }
        let z = self.zones.iter().rev().find(|z| z.signed && ends_with(&name, &z.apex))?;
        let wc = format!("*.{}", parent_of(&name)?);
        if !z.has_owner(&wc) || z.rrsets.contains_key(&(wc.clone(), qtype)) || z.rrsets.contains_key(&(wc.clone(), Rtype::CNAME)) {
            return None;
        }
        let mut r = Resp::default();
        z.push_set(&mut r.authority, &z.apex, Rtype::SOA, None);
        if !z.push_set(&mut r.authority, &wc, Rtype::NSEC, Some(&sname(qname))) {
            return None;
        }
        Some(r)
    }

    /// A DNAME answer whose synthesised (unsigned) CNAME was redirected to
    /// another, genuinely signed name: every signed piece verifies, but the
    /// CNAME is not what the DNAME yields for the query name.
    pub fn forged_dname_cname(&self, qname: &str, qtype: Rtype) -> Option<Resp> {
        let truth = self.resolve(qname, qtype);
        let has_dname = truth.answer.iter().any(|r| r.rtype() == Rtype::DNAME);
        if !has_dname || truth.insecure {
            return None;
        }
        let other = "www.zone.tld.";
        let mut r = Resp::default();
        for rec in &truth.answer {
            match rec.data() {
                ZoneRecordData::Dname(_) => r.answer.push(rec.clone()),
                ZoneRecordData::Rrsig(s) if s.type_covered() == Rtype::DNAME => r.answer.push(rec.clone()),
                ZoneRecordData::Cname(_) => r.answer.push(Record::new(rec.owner().clone(), rec.class(), rec.ttl(), ZoneRecordData::Cname(domain::rdata::Cname::new(sname(other))))),
                _ => {}
            }
        }
        let tail = self.resolve(other, qtype);
        r.answer.extend(tail.answer);
        r.authority = tail.authority;
        Some(r)
    }

    /// NXDOMAIN for a name in `evil.tld.` "proven" by that zone's signed
    /// NSEC3 record with the owner label that is no hash (next to the genuine
    /// SOA): nothing to be fooled by, but it has to be survived.
    pub fn forged_hostile_nsec3(&self, qname: &str, qtype: Rtype) -> Option<Resp> {
        if !qname.ends_with(".evil.tld.") {
            return None;
        }
        let truth = self.resolve(qname, qtype);
        let mut r = Resp { rcode_nx: true, ..Default::default() };
        for rec in &truth.authority {
            let keep = match rec.data() {
                ZoneRecordData::Soa(_) => true,
                ZoneRecordData::Rrsig(s) => s.type_covered() == Rtype::SOA,
                _ => false,
            };
            if keep {
                r.authority.push(rec.clone());
            }
        }
        r.authority.extend(self.hostile_nsec3.iter().cloned());
        Some(r)
    }

    /// A closed cycle of DNAME records in the insecure zone (unsigned, as
    /// everything there): `la DNAME lb`, `lb DNAME la`, for a query name
    /// below `la`. Nothing to be fooled by - but following it must end.
    pub fn forged_dname_loop(&self, qname: &str) -> Option<Resp> {
        if !qname.ends_with(".la.unsigned.tld.") {
            return None;
        }
        let mut r = Resp::default();
        let ttl = domain::base::Ttl::from_secs(300);
        r.answer.push(Record::new(sname("la.unsigned.tld."), domain::base::iana::Class::IN, ttl, ZoneRecordData::Dname(domain::rdata::Dname::new(sname("lb.unsigned.tld.")))));
        r.answer.push(Record::new(sname("lb.unsigned.tld."), domain::base::iana::Class::IN, ttl, ZoneRecordData::Dname(domain::rdata::Dname::new(sname("la.unsigned.tld.")))));
        r.insecure = true;
        Some(r)
    }

    /// The forged answer from the attacker's root zone, if it has one.
    pub fn forged_root_answer(&self, qname: &str, qtype: Rtype) -> Option<Resp> {
        let z = self.evil_root.as_ref()?;
        let mut r = Resp::default();
        if z.push_set(&mut r.answer, &qname.to_ascii_lowercase(), qtype, None) {
            Some(r)
        } else {
            None
        }
    }

    /// The attacker's (self-signed) root DNSKEY RRset.
    pub fn evil_root_dnskey(&self) -> Option<Resp> {
        let z = self.evil_root.as_ref()?;
        let mut r = Resp::default();
        if z.push_set(&mut r.answer, ".", Rtype::DNSKEY, None) {
            Some(r)
        } else {
            None
        }
    }

    /// z1.ent.tld.'s (properly signed) DNSKEY RRset holds, next to the real
    /// key, a malformed RSA key (the exponent length field points beyond the
    /// key material). Put an RRSIG that names that key - algorithm, key tag,
    /// some octets for a signature - in front of the genuine one of the first
    /// RRset z1.ent.tld. signed: the validator has to look at the malformed
    /// key, cannot use it, and goes on to the genuine signature.
    pub fn add_sig_naming_malformed_key(&self, r: &mut Resp) -> bool {
        let z = match self.zones.iter().find(|z| z.apex == "z1.ent.tld.") {
            Some(z) => z,
            None => return false,
        };
        let tag = match z.rrsets.get(&("z1.ent.tld.".to_string(), Rtype::DNSKEY)).and_then(|ks| {
            ks.iter().find_map(|k| match k.data() {
                ZoneRecordData::Dnskey(d) if d.algorithm().to_int() == 8 => Some(d.key_tag()),
                _ => None,
            })
        }) {
            Some(t) => t,
            None => return false,
        };
        for sec in [&mut r.answer, &mut r.authority] {
            for i in 0..sec.len() {
                if let ZoneRecordData::Rrsig(s) = sec[i].data() {
                    if lname(s.signer_name()) == "z1.ent.tld." {
                        let filler = domain::rdata::Rrsig::new(
                            s.type_covered(),
                            domain::base::iana::SecurityAlgorithm::RSASHA256,
                            s.labels(),
                            s.original_ttl(),
                            s.expiration(),
                            s.inception(),
                            tag,
                            s.signer_name().clone(),
                            Bytes::from(vec![0x5a; 64]),
                        )
                        .expect("rrsig");
                        let rec: SRec = Record::new(sec[i].owner().clone(), sec[i].class(), sec[i].ttl(), ZoneRecordData::Rrsig(filler));
                        sec.insert(i, rec);
                        return true;
                    }
                }
            }
        }
        false
    }

    /// Insert the stale RRSIG of one RRset of the response before its valid
    /// one. Returns false if there was nothing to add.
    pub fn add_stale_sig(&self, r: &mut Resp, pick: u64) -> bool {
        let mut cands: Vec<(bool, usize, SRec)> = Vec::new();
        for (in_answer, sec) in [(true, &r.answer), (false, &r.authority)] {
            for (i, rec) in sec.iter().enumerate() {
                if let ZoneRecordData::Rrsig(s) = rec.data() {
                    let signer = lname(s.signer_name());
                    if let Some(z) = self.zones.iter().find(|z| z.apex == signer) {
                        // Wildcard-expanded RRsets keep the wildcard's key.
                        let owner = lname(rec.owner());
                        let labels = owner.trim_end_matches('.').split('.').filter(|l| !l.is_empty()).count();
                        let key_owner = if (s.labels() as usize) < labels {
                            let suffix: Vec<&str> = owner.trim_end_matches('.').split('.').collect();
                            format!("*.{}.", suffix[labels - s.labels() as usize..].join("."))
                        } else {
                            owner.clone()
                        };
                        if let Some(st) = z.stale_sigs.get(&(key_owner, s.type_covered())) {
                            let st2: SRec = Record::new(rec.owner().clone(), st.class(), st.ttl(), st.data().clone());
                            cands.push((in_answer, i, st2));
                        }
                    }
                }
            }
        }
        if cands.is_empty() {
            return false;
        }
        let (in_answer, i, st) = cands[(pick as usize) % cands.len()].clone();
        if in_answer {
            r.answer.insert(i, st);
        } else {
            r.authority.insert(i, st);
        }
        true
    }
}

/// Turn a resolution result into a wire message answering `req`.
pub fn to_message(req: &domain::base::Message<Vec<u8>>, r: &Resp) -> Vec<u8> {
    let rcode = if r.servfail {
        Rcode::SERVFAIL
    } else if r.rcode_nx {
        Rcode::NXDOMAIN
    } else {
        Rcode::NOERROR
    };
    let mb = MessageBuilder::new_vec();
    let mut ab = mb.start_answer(req, rcode).expect("start_answer");
    ab.header_mut().set_ra(true);
    for rec in &r.answer {
        ab.push(rec).expect("push");
    }
    let mut au = ab.authority();
    for rec in &r.authority {
        au.push(rec).expect("push");
    }
    let mut ad = au.additional();
    if req.opt().is_some() {
        ad.opt(|o| {
            o.set_udp_payload_size(4096);
            o.set_dnssec_ok(true);
            Ok(())
        })
        .expect("opt");
    }
    ad.into_message().into_octets()
}
