//! C10 — zone transfers reproduce the sender's zone; bad streams are
//! rejected cleanly. Primary (real Zone + write interface producing real
//! diffs) -> packager -> faulty message stream -> secondary (real
//! XfrResponseInterpreter + ZoneUpdater + Zone), with an independent
//! RFC 5936 / RFC 1995 reference interpreter over the delivered messages.

use super::zonestore::{apply_add, apply_del, build_direct, canon_rdata, content_as_walk, owner_str, rdata_str, rrset_of, soa_rdata, stored_name, universe_names, walk_zone, Content, RecSpec, WalkOut, APEX};
use crate::core::exec::step;
use crate::core::runner::{Scenario, Tier};
use crate::core::sim;
use crate::dns;
use bytes::Bytes;
use domain::base::iana::Rcode;
use domain::base::name::Label;
use domain::base::{Message, MessageBuilder, Rtype, StaticCompressor};
use domain::net::xfr::protocol::XfrResponseInterpreter;
use domain::zonetree::types::ZoneUpdate;
use domain::zonetree::update::ZoneUpdater;
use domain::zonetree::{InMemoryZoneDiff, StoredName, WritableZone, WritableZoneNode, Zone};
use std::collections::BTreeSet;
use std::future::Future;
use std::pin::Pin;
use std::time::Duration;

const P: &str = "C10";

pub fn soa_spec(serial: u32) -> RecSpec {
    RecSpec {
        owner: APEX.to_string(),
        rtype: Rtype::SOA,
        ttl: 3600,
        rdata: soa_rdata(serial),
    }
}

pub fn content_records(c: &Content) -> Vec<RecSpec> {
    c.iter()
        .flat_map(|((o, t), (ttl, rds))| {
            rds.iter().map(move |rd| RecSpec {
                owner: o.clone(),
                rtype: *t,
                ttl: *ttl,
                rdata: rd.clone(),
            })
        })
        .collect()
}

pub fn serial_of(c: &Content) -> Option<u32> {
    let (_, rds) = c.get(&(APEX.to_string(), Rtype::SOA))?;
    rds.iter().next()?.split_whitespace().nth(2)?.parse().ok()
}

pub fn gen_rec(names: &[String]) -> RecSpec {
    let owner = sim::pick("rec.owner", names).clone();
    let rtype = *sim::pick("rec.type", &[Rtype::A, Rtype::TXT, Rtype::AAAA, Rtype::MX]);
    let i = sim::draw("rec.rdata", 5);
    RecSpec {
        owner,
        rtype,
        ttl: 300,
        rdata: match rtype {
            Rtype::A => format!("192.0.2.{}", i + 1),
            Rtype::AAAA => format!("2001:db8::{}", i + 1),
            Rtype::TXT => format!("\"t{}\"", i),
            _ => format!("{} mx{}.example.", 10 * (i + 1), i % 2),
        },
    }
}

/// Diff as sets of records.
pub fn diff_records(d: &InMemoryZoneDiff) -> (BTreeSet<RecSpec>, BTreeSet<RecSpec>) {
    let conv = |m: &std::collections::HashMap<(StoredName, Rtype), domain::zonetree::SharedRrset>| -> BTreeSet<RecSpec> {
        let mut out = BTreeSet::new();
        for ((owner, rtype), rrset) in m.iter() {
            for d in rrset.data() {
                out.insert(RecSpec {
                    owner: owner_str(owner),
                    rtype: *rtype,
                    ttl: rrset.ttl().as_secs(),
                    rdata: rdata_str(d),
                });
            }
        }
        out
    };
    (conv(&d.removed), conv(&d.added))
}

async fn node_for(root: &dyn WritableZoneNode, owner: &str) -> Option<Box<dyn WritableZoneNode>> {
    let rel = owner.strip_suffix(APEX)?;
    let labels: Vec<&str> = rel.trim_end_matches('.').split('.').filter(|s| !s.is_empty()).rev().collect();
    if labels.is_empty() {
        return None;
    }
    let mut node: Box<dyn WritableZoneNode> = root.update_child(Label::from_slice(labels[0].as_bytes()).unwrap()).await.expect("update_child");
    for l in &labels[1..] {
        node = node.update_child(Label::from_slice(l.as_bytes()).unwrap()).await.expect("update_child");
    }
    Some(node)
}

/// One step of the primary's history: the changes and the diff the zone
/// reported on commit.
pub struct Step {
    pub removed: Vec<RecSpec>,
    pub added: Vec<RecSpec>,
    pub diff: Option<(BTreeSet<RecSpec>, BTreeSet<RecSpec>, u32, u32)>,
    pub raw_diff: Option<InMemoryZoneDiff>,
}

/// The primary after its history.
pub struct Primary {
    pub zone: Zone,
    pub names: Vec<String>,
    pub contents: Vec<Content>,
    pub steps: Vec<Step>,
}

// ------------------------------------------------------------ wire format

#[derive(Clone, Debug)]
pub struct Wire {
    pub bytes: Vec<u8>,
}

fn package(qtype: Rtype, id: u16, records: &[RecSpec], compress: bool) -> Vec<Wire> {
    // Cut the record sequence into messages at drawn points.
    let mut msgs = Vec::new();
    let mut i = 0;
    let mut first = true;
    let mode = sim::draw("pkg.mode", 4); // 0 one message, 1 one record each, 2/3 random
    while i < records.len() {
        let remaining = records.len() - i;
        let take = match mode {
            0 => remaining,
            1 => 1,
            _ => 1 + sim::draw("pkg.take", remaining.min(12) as u64) as usize,
        };
        let with_question = first || sim::chance("pkg.question_in_followup", 1, 2);
        let mut mb_plain;
        let mut mb_comp;
        macro_rules! build {
            ($mb:expr) => {{
                $mb.header_mut().set_id(id);
                $mb.header_mut().set_qr(true);
                $mb.header_mut().set_aa(true);
                let mut q = $mb.question();
                if with_question {
                    q.push((stored_name(APEX), qtype)).unwrap();
                }
                let mut an = q.answer();
                let mut n = 0;
                for r in &records[i..i + take] {
                    if an.push(r.record()).is_err() {
                        break;
                    }
                    n += 1;
                }
                (an.finish(), n)
            }};
        }
        let (bytes, n) = if compress {
            mb_comp = MessageBuilder::from_target(StaticCompressor::new(Vec::new())).unwrap();
            let (t, n) = build!(mb_comp);
            (t.into_target(), n)
        } else {
            mb_plain = MessageBuilder::new_vec();
            build!(mb_plain)
        };
        msgs.push(Wire { bytes });
        i += n.max(1);
        first = false;
    }
    msgs
}

// ------------------------------------------- independent reference model

#[derive(Debug, PartialEq)]
pub enum RefVerdict {
    /// The transfer is complete; the zone content after it. The flag says
    /// that records follow the final SOA inside the same message: the
    /// transfer proper is valid and complete at that SOA (a receiver cannot
    /// know what follows when it commits), the trailing records are garbage
    /// it may complain about afterwards.
    Complete(Content, bool),
    /// IXFR answered with a single SOA: "you are up to date".
    UpToDate,
    /// Not a valid transfer.
    Reject(&'static str),
}

/// RFC 5936 section 2.2 / RFC 1995 section 4 over the delivered messages,
/// starting from `base` (the secondary's content).
pub fn reference(delivered: &[Wire], base: &Content) -> RefVerdict {
    let mut recs: Vec<(String, Rtype, u32, String)> = Vec::new();
    // Index (into recs) one past the last record of each message.
    let mut msg_end: Vec<usize> = Vec::new();
    let mut xfr_type = None;
    // Position in `recs` at which a message turned out to be unparsable
    // (records before it were read fine, as a sequential receiver would).
    let mut parse_error_at: Option<usize> = None;
    for (i, w) in delivered.iter().enumerate() {
        use domain::rdata::AllRecordData;
        let msg = match Message::from_octets(w.bytes.as_slice()) {
            Ok(m) => m,
            Err(_) => {
                parse_error_at.get_or_insert(recs.len());
                break;
            }
        };
        let h = msg.header();
        let counts = msg.header_counts();
        if !h.qr() || h.opcode() != domain::base::iana::Opcode::QUERY || h.rcode() != Rcode::NOERROR || h.tc() {
            if parse_error_at.is_none() && i == 0 || recs.is_empty() {
                return RefVerdict::Reject("bad-header");
            }
            parse_error_at.get_or_insert(recs.len());
            break;
        }
        if counts.ancount() == 0 || counts.nscount() != 0 {
            if recs.is_empty() {
                return RefVerdict::Reject("bad-counts");
            }
            parse_error_at.get_or_insert(recs.len());
            break;
        }
        let mut qtypes = Vec::new();
        let mut q_ok = true;
        for q in msg.question() {
            match q {
                Ok(q) => qtypes.push(q.qtype()),
                Err(_) => q_ok = false,
            }
        }
        if i == 0 {
            if !q_ok || qtypes.len() != 1 {
                return RefVerdict::Reject("first-message-question-count");
            }
            xfr_type = match qtypes[0] {
                Rtype::AXFR => Some(false),
                Rtype::IXFR => Some(true),
                _ => return RefVerdict::Reject("question-type-not-xfr"),
            };
        } else if !q_ok || qtypes.len() > 1 {
            parse_error_at.get_or_insert(recs.len());
            break;
        }
        let answer = match msg.answer() {
            Ok(a) => a,
            Err(_) => {
                parse_error_at.get_or_insert(recs.len());
                break;
            }
        };
        let mut failed = false;
        for rr in answer {
            let rec = rr.ok().and_then(|rr| {
                let owner = owner_str(&rr.owner());
                let (t, ttl) = (rr.rtype(), rr.ttl().as_secs());
                rr.into_record::<AllRecordData<_, domain::base::ParsedName<_>>>().ok().flatten().map(|r| (owner, t, ttl, format!("{}", r.data())))
            });
            // (A record that is not of the zone has no place in its
            // transfer: as good as one that cannot be read.)
            let rec = rec.filter(|r| {
                let o = r.0.to_ascii_lowercase();
                o == APEX || o.ends_with(&format!(".{}", APEX))
            });
            match rec {
                Some(r) => recs.push(r),
                None => {
                    failed = true;
                    break;
                }
            }
        }
        msg_end.push(recs.len());
        if failed {
            parse_error_at.get_or_insert(recs.len());
            break;
        }
    }
    // A parse error truncates the usable record sequence.
    if let Some(p) = parse_error_at {
        recs.truncate(p);
    }
    let had_parse_error = parse_error_at.is_some();
    // The transfer ends with the final SOA; a receiver does not read further
    // messages, but records after it inside the same message are garbage.
    let ends_its_message = |k: usize| msg_end.contains(&(k + 1));
    if recs.is_empty() {
        return RefVerdict::Reject("empty-stream");
    }
    let is_soa = |r: &(String, Rtype, u32, String)| r.1 == Rtype::SOA;
    if !is_soa(&recs[0]) {
        return RefVerdict::Reject("first-record-not-soa");
    }
    let initial = recs[0].clone();
    let ixfr = xfr_type == Some(true);
    if ixfr && recs.len() == 1 {
        return RefVerdict::UpToDate;
    }
    let add = |c: &mut Content, r: &(String, Rtype, u32, String)| {
        apply_add(
            c,
            &RecSpec {
                owner: r.0.clone(),
                rtype: r.1,
                ttl: r.2,
                rdata: r.3.clone(),
            },
        )
    };
    let del = |c: &mut Content, r: &(String, Rtype, u32, String)| {
        apply_del(
            c,
            &RecSpec {
                owner: r.0.clone(),
                rtype: r.1,
                ttl: r.2,
                rdata: r.3.clone(),
            },
        )
    };
    let same_soa = |a: &(String, Rtype, u32, String), b: &(String, Rtype, u32, String)| a.1 == Rtype::SOA && b.1 == Rtype::SOA && a.3 == b.3;
    if !ixfr || !is_soa(&recs[1]) {
        // AXFR (or IXFR falling back to AXFR): everything up to the second
        // copy of the initial SOA replaces the zone.
        let mut c = Content::new();
        for (k, r) in recs.iter().enumerate().skip(1) {
            if same_soa(r, &initial) {
                // The zone has exactly one SOA: the one framing the AXFR.
                c.remove(&(APEX.to_string(), Rtype::SOA));
                add(&mut c, &initial);
                return RefVerdict::Complete(c, !ends_its_message(k) || had_parse_error);
            }
            add(&mut c, r);
        }
        return RefVerdict::Reject(if had_parse_error { "parse-error" } else { "no-final-soa" });
    }
    // IXFR difference sequences.
    let mut c = base.clone();
    let mut deleting = false; // toggled by each SOA; starts with a delete phase
    let mut k = 1;
    while k < recs.len() {
        let r = &recs[k];
        if is_soa(r) {
            deleting = !deleting;
            if deleting {
                if same_soa(r, &initial) {
                    // The zone's SOA is the final one.
                    c.remove(&(APEX.to_string(), Rtype::SOA));
                    add(&mut c, &initial);
                    return RefVerdict::Complete(c, !ends_its_message(k) || had_parse_error);
                }
                // Start of a delete phase: the old SOA goes (a zone has
                // exactly one SOA, replaced at the start of the add phase).
            } else {
                // Start of the add phase: the new SOA replaces the old.
                c.remove(&(APEX.to_string(), Rtype::SOA));
                add(&mut c, r);
            }
        } else if deleting {
            del(&mut c, r);
        } else {
            add(&mut c, r);
        }
        k += 1;
    }
    RefVerdict::Reject("no-final-soa")
}

// ---------------------------------------------------------------- faults

fn inject(msgs: &[Wire]) -> (Vec<Wire>, &'static str) {
    let mut out: Vec<Wire> = msgs.to_vec();
    if out.is_empty() {
        return (out, "none");
    }
    let n = out.len();
    let i = sim::draw("fault.msg_index", n as u64) as usize;
    let kind = match sim::draw("fault.kind", 15) {
        0..=3 => "none",
        14 => {
            // Message i is replaced by a message out of another zone's
            // transfer with the same ID (two transfers mixed up on one
            // connection, a confused primary). Messages behind the first
            // may leave the question out, so only the records' owners tell.
            let id = u16::from_be_bytes([out[i].bytes[0], out[i].bytes[1]]);
            let mut mb = MessageBuilder::new_vec();
            mb.header_mut().set_id(id);
            mb.header_mut().set_qr(true);
            mb.header_mut().set_aa(true);
            let mut ab = mb.question().answer();
            for (k, host) in ["www", "mail", "ftp"].iter().enumerate() {
                ab.push((stored_name(&format!("{}.elsewhere.", host)), domain::base::iana::Class::IN, domain::base::Ttl::from_secs(300), domain::rdata::A::new(std::net::Ipv4Addr::new(198, 51, 100, k as u8 + 1)))).unwrap();
            }
            out[i].bytes = ab.finish();
            "fault.msg_from_another_zones_transfer"
        }
        4 => {
            out.remove(i);
            "fault.msg_drop"
        }
        5 => {
            let d = out[i].clone();
            out.insert(i, d);
            "fault.msg_duplicate"
        }
        6 => {
            if n >= 2 {
                let j = i.min(n - 2);
                out.swap(j, j + 1);
            }
            "fault.msg_swap"
        }
        7 => {
            let keep = 12 + sim::draw("fault.trunc", (out[i].bytes.len() - 12) as u64) as usize;
            out[i].bytes.truncate(keep);
            "fault.msg_truncate"
        }
        8 => {
            out[i].bytes[2] &= 0x7f; // QR=0
            "fault.hdr_qr"
        }
        9 => {
            out[i].bytes[3] = (out[i].bytes[3] & 0xf0) | *sim::pick("fault.rcode", &[2u8, 5, 9]);
            "fault.hdr_rcode"
        }
        10 => {
            out[i].bytes[2] |= 0x02; // TC
            "fault.hdr_tc"
        }
        11 => {
            // Lie in the answer count.
            let an = u16::from_be_bytes([out[i].bytes[6], out[i].bytes[7]]);
            let lie = if sim::chance("fault.count_up", 1, 2) { an.wrapping_add(1) } else { an.saturating_sub(1) };
            out[i].bytes[6..8].copy_from_slice(&lie.to_be_bytes());
            "fault.hdr_ancount"
        }
        12 => {
            // Wrong question type in the first message (qtype A).
            let m = &mut out[0].bytes;
            let qd = u16::from_be_bytes([m[4], m[5]]);
            if qd == 1 {
                // name is APEX uncompressed: 1+7+1 octets after the header.
                let p = 12 + 9;
                if m.len() > p + 1 {
                    m[p] = 0;
                    m[p + 1] = 1;
                }
            }
            "fault.question_type"
        }
        _ => {
            // Cut the stream after message i (connection lost).
            out.truncate(i);
            "fault.stream_cut"
        }
    };
    (out, kind)
}

// --------------------------------------------------------------- scenario

pub struct XfrScn;

impl Scenario for XfrScn {
    fn name(&self) -> &'static str {
        "xfr"
    }
    fn property(&self) -> &'static str {
        P
    }
    fn max_vtime(&self) -> Duration {
        Duration::from_secs(3600)
    }
    fn event_cap(&self) -> u64 {
        50_000
    }
    fn components(&self) -> (Vec<&'static str>, Vec<&'static str>) {
        (
            vec![
                "net::xfr::protocol::{XfrResponseInterpreter, XfrZoneUpdateIterator, RecordProcessor}",
                "zonetree::update::ZoneUpdater (secondary) and the write interface with create_diff=true (primary)",
                "zonetree::types::InMemoryZoneDiff (commit diffs)",
                "zonetree::Zone / ReadableZone::walk",
                "base::MessageBuilder / StaticCompressor / Message",
            ],
            vec![
                "packager cutting the AXFR/IXFR record sequence into messages at drawn points (1 record per message .. one message; question present or absent in follow-ups; compression on/off)",
                "message-level fault injector (drop, duplicate, swap, truncate, header corruption, wrong question type, stream cut)",
                "independent RFC 5936 / RFC 1995 reference interpreter",
                "content model of every primary version",
            ],
        )
    }
    fn rule(&self) -> &'static str {
        "a primary zone evolves through 1-4 committed update steps (real write interface or ZoneUpdater, create_diff on; serials optionally straddling the 2^32 wrap); every reported diff must turn content n-1 into content n; then a secondary holding version i (or nothing) receives an AXFR of version j, or an IXFR i->j assembled from the reported diffs, packaged at drawn cut points, with at most one message-level fault; after every applied update a reader of the secondary must see a complete version; the outcome must agree with the reference interpreter run on the delivered messages."
    }
    fn assumptions(&self) -> Vec<&'static str> {
        vec![
            "this scenario drives the interpreter and updater directly (the byte-stream transport under them is exercised by the C15/C16 simulations); TSIG-protected transfers are covered at the TSIG layer by C11",
            "the library's server-side XFR middleware runs its zone walk on a real blocking thread the simulator does not own; it is exercised in a separate, serialised scenario",
        ]
    }
    fn nontrivial(&self, stats: &std::collections::BTreeMap<&'static str, u64>) -> bool {
        stats.iter().any(|(k, v)| *v > 0 && (k.starts_with("fault.") || *k == "probe.multi_step_ixfr"))
    }
    fn run(&self, tier: Tier) -> Pin<Box<dyn Future<Output = ()>>> {
        Box::pin(run(tier))
    }
}

pub fn walk_str(w: &WalkOut) -> Vec<(String, Rtype, u32, Vec<String>)> {
    w.iter().map(|(o, t, ttl, rds, _)| (o.clone(), *t, *ttl, rds.clone())).collect()
}

/// Build the primary and evolve it; checks the diff law on the way.
pub async fn build_primary() -> Option<Primary> {
    build_primary_with(0).await
}

/// `bulk`: that many extra RRsets of about 1000 octets each, present in
/// every version (for transfers that need more than one 64 KiB message).
pub async fn build_primary_with(bulk: usize) -> Option<Primary> {
    build_primary_with2(bulk, 0).await
}

/// `hosts`: that many more tiny RRsets (one address each), present in every
/// version - a zone with more RRsets than the XFR middleware's zone walk can
/// hand over in one go (its channel holds 100), all of them still fitting
/// into a single response message.
thread_local! {
    /// The last step of the primary's history also adds this many RRsets of
    /// about 60 KiB each (one response message apiece): a single difference
    /// sequence that needs more messages than a server's response queue holds.
    pub static HUGE_LAST_STEP: std::cell::Cell<usize> = const { std::cell::Cell::new(0) };
}

pub async fn build_primary_with2(bulk: usize, hosts: usize) -> Option<Primary> {
    let all = universe_names();
    let n_names = 3 + sim::draw("focus.n_names", 6) as usize;
    let mut pool = all.clone();
    let mut names: Vec<String> = vec![APEX.to_string()];
    pool.retain(|n| n != APEX);
    while names.len() < n_names && !pool.is_empty() {
        let i = sim::draw("focus.name", pool.len() as u64) as usize;
        names.push(pool.remove(i));
    }
    // Serial numbers, optionally straddling the wrap-around.
    let s0: u32 = *sim::pick("serial.base", &[1u32, 100, u32::MAX - 1, u32::MAX, 0x7fff_fffe]);
    let mut contents: Vec<Content> = Vec::new();
    let mut c = Content::new();
    apply_add(&mut c, &soa_spec(s0));
    apply_add(
        &mut c,
        &RecSpec {
            owner: APEX.to_string(),
            rtype: Rtype::NS,
            ttl: 3600,
            rdata: "ns0.example.".into(),
        },
    );
    for _ in 0..sim::draw("init.n", 12) {
        let r = gen_rec(&names);
        apply_add(&mut c, &r);
    }
    for i in 0..hosts {
        apply_add(
            &mut c,
            &RecSpec {
                owner: format!("h{}.{}", i, APEX),
                rtype: Rtype::A,
                ttl: 300,
                rdata: format!("198.51.{}.{}", 100 + i / 250, 1 + i % 250),
            },
        );
    }
    for i in 0..bulk {
        let chunk = |j: usize| format!("\"{}\"", format!("b{}c{}-", i, j).repeat(40).chars().take(250).collect::<String>());
        apply_add(
            &mut c,
            &RecSpec {
                owner: format!("bulk{}.{}", i, APEX),
                rtype: Rtype::TXT,
                ttl: 300,
                rdata: format!("{} {} {} {}", chunk(0), chunk(1), chunk(2), chunk(3)),
            },
        );
    }
    contents.push(c.clone());
    let primary = match build_direct(&c) {
        Ok(z) => z,
        Err(e) => {
            sim::harness_error(format!("primary: {}", e));
            return None;
        }
    };
    // ---- primary history with real diffs
    let n_steps = 1 + sim::draw("n_steps", 4) as usize;
    let mut steps: Vec<Step> = Vec::new();
    for s in 0..n_steps {
        let old = contents.last().unwrap().clone();
        let old_serial = serial_of(&old).unwrap();
        let new_serial = old_serial.wrapping_add(1 + sim::draw("serial.inc", 3) as u32);
        let mut new = old.clone();
        let mut removed: Vec<RecSpec> = Vec::new();
        let mut added: Vec<RecSpec> = Vec::new();
        for _ in 0..1 + sim::draw("step.n_changes", 6) {
            let existing: Vec<RecSpec> = content_records(&new).into_iter().filter(|r| r.rtype != Rtype::SOA && !(r.rtype == Rtype::NS && r.owner == APEX)).collect();
            if !existing.is_empty() && sim::chance("step.delete", 1, 2) {
                // Delete a record; sometimes every record of its RRset.
                let r = sim::pick("step.del_which", &existing).clone();
                let whole = sim::chance("step.del_rrset", 1, 3);
                let victims: Vec<RecSpec> = if whole { existing.iter().filter(|x| x.owner == r.owner && x.rtype == r.rtype).cloned().collect() } else { vec![r] };
                for v in victims {
                    if !added.contains(&v) {
                        apply_del(&mut new, &v);
                        removed.push(v);
                    }
                }
            } else {
                let r = gen_rec(&names);
                let canon = RecSpec {
                    rdata: canon_rdata(&r.owner, r.rtype, &r.rdata),
                    ..r.clone()
                };
                let exists = new.get(&(r.owner.clone(), r.rtype)).is_some_and(|(_, rds)| rds.contains(&canon.rdata));
                if !exists && !removed.contains(&canon) {
                    // Keep one TTL per RRset (RFC 2181).
                    let ttl = new.get(&(r.owner.clone(), r.rtype)).map(|x| x.0).unwrap_or(r.ttl);
                    let canon = RecSpec { ttl, ..canon };
                    apply_add(&mut new, &canon);
                    added.push(canon);
                }
            }
        }
        let huge = if s + 1 == n_steps { HUGE_LAST_STEP.with(|c| c.get()) } else { 0 };
        for i in 0..huge {
            let text: String = (0..235).map(|j| format!("\"{}\"", format!("h{}s{}-", i, j).repeat(50).chars().take(255).collect::<String>())).collect::<Vec<_>>().join(" ");
            let r = RecSpec { owner: format!("huge{}.{}", i, APEX), rtype: Rtype::TXT, ttl: 300, rdata: text };
            let canon = RecSpec { rdata: canon_rdata(&r.owner, r.rtype, &r.rdata), ..r };
            apply_add(&mut new, &canon);
            added.push(canon);
        }
        new.remove(&(APEX.to_string(), Rtype::SOA));
        apply_add(&mut new, &soa_spec(new_serial));
        // Apply to the real primary and collect the reported diff.
        let via_updater = sim::chance("step.via_updater", 1, 2);
        let diff: Option<InMemoryZoneDiff> = if via_updater {
            let mut up: ZoneUpdater<StoredName> = ZoneUpdater::new(primary.clone()).await.expect("updater");
            up.apply(ZoneUpdate::BeginBatchDelete(soa_spec(old_serial).record())).await.expect("apply");
            for r in &removed {
                up.apply(ZoneUpdate::DeleteRecord(r.record())).await.expect("apply");
            }
            up.apply(ZoneUpdate::BeginBatchAdd(soa_spec(new_serial).record())).await.expect("apply");
            for r in &added {
                up.apply(ZoneUpdate::AddRecord(r.record())).await.expect("apply");
            }
            up.apply(ZoneUpdate::Finished(soa_spec(new_serial).record())).await.expect("finish")
        } else {
            let mut w: Box<dyn WritableZone> = primary.write().await;
            let root = w.open(true).await.expect("open");
            let mut touched: BTreeSet<(String, Rtype)> = removed.iter().chain(added.iter()).map(|r| (r.owner.clone(), r.rtype)).collect();
            touched.insert((APEX.to_string(), Rtype::SOA));
            for (o, t) in touched {
                let node = node_for(root.as_ref(), &o).await;
                let n: &dyn WritableZoneNode = match &node {
                    Some(n) => n.as_ref(),
                    None => root.as_ref(),
                };
                match new.get(&(o.clone(), t)) {
                    Some((ttl, rds)) => n.update_rrset(rrset_of(t, *ttl, rds, &o)).await.expect("update_rrset"),
                    None => n.remove_rrset(t).await.expect("remove_rrset"),
                }
            }
            drop(root);
            w.commit(false).await.expect("commit")
        };
        ev!("primary step {}: serial {} -> {}, -{} +{} records, via_updater={}, diff={}", s, old_serial, new_serial, removed.len(), added.len(), via_updater, diff.is_some());
        let d = diff.as_ref().map(|d| {
            let (r, a) = diff_records(d);
            (r, a, d.start_serial.into_int(), d.end_serial.into_int())
        });
        // ---- diff law
        match &d {
            None => {
                if sim::violation(P, "diff-law", "no-diff-reported", format!("commit of step {} (serial {} -> {}) with create_diff reported no diff", s, old_serial, new_serial)) {
                    return None;
                }
            }
            Some((rem, add, s_from, s_to)) => {
                let mut applied = old.clone();
                for r in rem {
                    apply_del(&mut applied, r);
                }
                for r in add {
                    apply_add(&mut applied, r);
                }
                if applied != new {
                    let missing: Vec<_> = content_records(&new).into_iter().filter(|r| !content_records(&applied).contains(r)).collect();
                    let extra: Vec<_> = content_records(&applied).into_iter().filter(|r| !content_records(&new).contains(r)).collect();
                    if sim::violation(
                        P,
                        "diff-law",
                        if !extra.is_empty() { "diff-leaves-removed-records" } else { "diff-misses-added-records" },
                        format!("step {} (via_updater={}): applying the reported diff to the old content does not give the new content; still present: {:?}; missing: {:?}", s, via_updater, extra, missing),
                    ) {
                        return None;
                    }
                }
                if *s_from != old_serial || *s_to != new_serial {
                    if sim::violation(P, "diff-law", "diff-serials-wrong", format!("diff says {} -> {}, SOAs say {} -> {}", s_from, s_to, old_serial, new_serial)) {
                        return None;
                    }
                }
            }
        }
        // The primary itself must now hold the new content.
        let pw = walk_zone(primary.read().as_ref());
        if walk_str(&pw) != walk_str(&content_as_walk(&new)) {
            sim::harness_error(format!("primary zone does not hold the modelled content after step {}", s));
            return None;
        }
        steps.push(Step { removed, added, diff: d, raw_diff: diff });
        contents.push(new);
        step().await;
    }
    Some(Primary { zone: primary, names, contents, steps })
}

/// Long transfer: a full transfer of more records than a 16-bit counter can
/// count (66 000 address records in 66 messages) through the interpreter and
/// the updater into an empty secondary. No fault, no draw per record: just
/// length. Every record arrives.
async fn long_transfer() {
    use domain::rdata::A;
    sim::stat("probe.long_transfer_more_records_than_16_bits_count");
    let n = 65_600 + sim::draw("long_transfer.extra", 600) as usize;
    ev!("long transfer: {} records", n);
    let secondary: Zone = match build_direct(&Content::new()) {
        Ok(z) => z,
        Err(e) => {
            sim::harness_error(format!("secondary: {}", e));
            return;
        }
    };
    let soa = soa_spec(7).record();
    let mut interpreter = XfrResponseInterpreter::new();
    let mut updater: ZoneUpdater = ZoneUpdater::new(secondary.clone()).await.expect("updater");
    let per_msg = 1000;
    let n_msgs = n.div_ceil(per_msg);
    let mut finished = false;
    for m in 0..n_msgs {
        let mut mb = MessageBuilder::new_vec();
        mb.header_mut().set_id(4711);
        mb.header_mut().set_qr(true);
        mb.header_mut().set_aa(true);
        let mut q = mb.question();
        q.push((stored_name(APEX), Rtype::AXFR)).unwrap();
        let mut an = q.answer();
        if m == 0 {
            an.push(soa.clone()).unwrap();
        }
        for i in m * per_msg..((m + 1) * per_msg).min(n) {
            let owner = stored_name(&format!("h{}.{}", i, APEX));
            an.push((owner, domain::base::iana::Class::IN, domain::base::Ttl::from_secs(60), A::new(std::net::Ipv4Addr::from(0x0a00_0000 + i as u32)))).unwrap();
        }
        if m + 1 == n_msgs {
            an.push(soa.clone()).unwrap();
        }
        let msg = Message::from_octets(Bytes::from(an.finish())).expect("message");
        let it = match interpreter.interpret_response(msg) {
            Ok(it) => it,
            Err(e) => {
                sim::violation(P, "fidelity", "valid-transfer-failed/long-axfr".to_string(), format!("message {} of {} of a legal full transfer of {} records was rejected: {}", m + 1, n_msgs, n, e));
                return;
            }
        };
        for u in it {
            let u = match u {
                Ok(u) => u,
                Err(e) => {
                    sim::violation(P, "fidelity", "valid-transfer-failed/long-axfr".to_string(), format!("a record in message {} of {} of a legal full transfer of {} records was rejected: {:?}", m + 1, n_msgs, n, e));
                    return;
                }
            };
            finished |= matches!(u, ZoneUpdate::Finished(_));
            if let Err(e) = updater.apply(u).await {
                sim::violation(P, "fidelity", "valid-transfer-failed/long-axfr".to_string(), format!("the updater refused an update of message {} of {}: {}", m + 1, n_msgs, e));
                return;
            }
        }
    }
    drop(updater);
    let seen = walk_zone(secondary.read().as_ref());
    let hosts = seen.iter().filter(|x| x.1 == Rtype::A).count();
    if !finished || hosts != n {
        sim::violation(P, "fidelity", "secondary-differs-after-transfer/long-axfr".to_string(), format!("a full transfer of {} address records (finished: {}) left {} of them on the secondary", n, finished, hosts));
    }
}

async fn run(_tier: Tier) {
    if sim::chance("long_transfer", 1, 4000) {
        return long_transfer().await;
    }
    let Primary { zone: _primary, names: _names, contents, steps } = match build_primary().await {
        Some(p) => p,
        None => return,
    };
    // ---- the transfer
    let j = contents.len() - 1;
    let i = sim::draw("xfer.from", (j + 1) as u64) as usize;
    let ixfr = i < j && sim::chance("xfer.ixfr", 2, 3);
    let mut sec_content = if !ixfr && sim::chance("xfer.empty_secondary", 1, 3) { Content::new() } else { contents[i].clone() };
    // The secondary was loaded from a zone file that also held an alias and
    // a delegation with glue (kept as such by the store, not as plain
    // RRsets) the primary knows nothing about: an incremental transfer leaves
    // them alone, a full transfer replaces them with the rest, a transfer
    // that fails leaves them as they were.
    let mut extras = Content::new();
    if !sec_content.is_empty() && sim::chance("xfer.secondary_has_alias_and_delegation", 1, 3) {
        sim::stat("probe.secondary_loaded_with_alias_and_delegation");
        let mut add = |owner: &str, rtype: Rtype, rdata: &str| apply_add(&mut extras, &RecSpec { owner: format!("{}.{}", owner, APEX), rtype, ttl: 300, rdata: rdata.to_string() });
        add("alias", Rtype::CNAME, "target0.example.");
        add("deleg", Rtype::NS, &format!("ns.deleg.{}", APEX));
        if sim::chance("xfer.secondary_ds", 1, 2) {
            add("deleg", Rtype::DS, &format!("1000 15 2 {:064X}", 7));
        }
        add("ns.deleg", Rtype::A, "192.0.2.77");
        for (k, v) in &extras {
            sec_content.insert(k.clone(), v.clone());
        }
    }
    let with_extras = |c: &Content| -> Content {
        let mut c = c.clone();
        for (k, v) in &extras {
            c.insert(k.clone(), v.clone());
        }
        c
    };
    let secondary: Zone = match build_direct(&sec_content) {
        Ok(z) => z,
        Err(e) => {
            sim::harness_error(format!("secondary: {}", e));
            return;
        }
    };
    // A view of the secondary taken before the transfer and kept to the
    // end of the run (what an outgoing transfer or a slow query holds): it
    // shows the version from before the transfer, whatever is committed,
    // rolled back or updated afterwards.
    let _held = HeldView::new(&secondary);
    let final_soa = soa_spec(serial_of(&contents[j]).unwrap());
    let mut stream: Vec<RecSpec> = vec![final_soa.clone()];
    // Complete versions a reader may see during the transfer.
    let mut complete: Vec<Content> = vec![sec_content.clone()];
    if ixfr {
        if j - i > 1 {
            sim::stat("probe.multi_step_ixfr");
        }
        for k in i..j {
            let st = &steps[k];
            // Use the diff the zone reported (that is what a server sends).
            let (rem, add): (Vec<RecSpec>, Vec<RecSpec>) = match &st.diff {
                Some((r, a, _, _)) => (r.iter().cloned().collect(), a.iter().cloned().collect()),
                None => (st.removed.clone(), st.added.clone()),
            };
            let old_soa = soa_spec(serial_of(&contents[k]).unwrap());
            let new_soa = soa_spec(serial_of(&contents[k + 1]).unwrap());
            stream.push(old_soa);
            stream.extend(rem.into_iter().filter(|r| r.rtype != Rtype::SOA));
            stream.push(new_soa);
            stream.extend(add.into_iter().filter(|r| r.rtype != Rtype::SOA));
            complete.push(with_extras(&contents[k + 1]));
        }
    } else {
        let mut body: Vec<RecSpec> = content_records(&contents[j]).into_iter().filter(|r| r.rtype != Rtype::SOA).collect();
        // Any order of the non-SOA records is legal.
        if sim::chance("xfer.shuffle", 1, 2) {
            for k in (1..body.len()).rev() {
                let l = sim::draw("xfer.shuffle_pick", (k + 1) as u64) as usize;
                body.swap(k, l);
            }
        }
        stream.extend(body);
        complete.push(contents[j].clone());
    }
    stream.push(final_soa);
    let msgs = package(if ixfr { Rtype::IXFR } else { Rtype::AXFR }, sim::draw("xfer.id", 65536) as u16, &stream, sim::chance("pkg.compress", 1, 2));
    let (delivered, fault) = inject(&msgs);
    sim::stat(if fault == "none" { "counter.fault_free_transfers" } else { fault });
    ev!("{} {} -> {} in {} messages ({} records), fault {}", if ixfr { "IXFR" } else { "AXFR" }, i, j, msgs.len(), stream.len(), fault);
    let verdict = reference(&delivered, &sec_content);
    // ---- secondary: real interpreter + updater
    let mut interpreter = XfrResponseInterpreter::new();
    let mut updater: ZoneUpdater = ZoneUpdater::new(secondary.clone()).await.expect("updater");
    // Now and then another update of the same zone asks for the write handle
    // while the transfer holds it (polled once: it has to wait), and goes
    // ahead when the transfer is done.
    let mut queued: Option<Pin<Box<dyn Future<Output = Result<ZoneUpdater<StoredName>, domain::zonetree::update::Error>>>>> = None;
    if sim::chance("second_updater_queued", 1, 4) {
        let mut f: Pin<Box<dyn Future<Output = _>>> = Box::pin(ZoneUpdater::<StoredName>::new(secondary.clone()));
        let waker = futures_util::task::noop_waker_ref();
        let mut cx = std::task::Context::from_waker(waker);
        if f.as_mut().poll(&mut cx).is_ready() {
            sim::violation(P, "atomicity", "second-updater-got-the-handle-during-a-transfer".to_string(), "a second ZoneUpdater obtained the zone's write handle while the transfer's updater holds it".to_string());
            return;
        }
        sim::stat("probe.second_updater_queued_behind_transfer");
        queued = Some(f);
    }
    let mut outcome: Result<bool, String> = Ok(false); // Ok(finished?)
    // Records behind the closing SOA, in the same message: the transfer has
    // been committed by then, but the stream is not a valid transfer and the
    // receiver has to say so.
    let mut complained_after_finish = false;
    let mut batch_commits = 0u32; // BeginBatchDelete updates applied
    'msgs: for (mi, w) in delivered.iter().enumerate() {
        let msg = match Message::from_octets(Bytes::from(w.bytes.clone())) {
            Ok(m) => m,
            Err(_) => {
                outcome = Err("short-message".into());
                break;
            }
        };
        let it = match interpreter.interpret_response(msg) {
            Ok(it) => it,
            Err(e) => {
                outcome = Err(format!("interpreter: {}", e));
                break;
            }
        };
        for u in it {
            let u = match u {
                Ok(u) => u,
                Err(e) => {
                    // Complaints about records after the end of a finished
                    // transfer do not undo the (committed) transfer.
                    if outcome != Ok(true) {
                        outcome = Err(format!("iteration: {:?}", e));
                    } else {
                        sim::stat("probe.error_after_finished_transfer");
                        complained_after_finish = true;
                    }
                    break 'msgs;
                }
            };
            let finishing = matches!(u, ZoneUpdate::Finished(_));
            ev!("  msg {} update {}", mi, u);
            if matches!(u, ZoneUpdate::BeginBatchDelete(_)) {
                batch_commits += 1;
            }
            if let Err(e) = updater.apply(u).await {
                outcome = Err(format!("updater: {}", e));
                break 'msgs;
            }
            // ---- atomicity: a reader sees a complete version only.
            let seen = walk_str(&walk_zone(secondary.read().as_ref()));
            let ok = complete.iter().any(|c| walk_str(&content_as_walk(c)) == seen);
            if !ok && verdict_is_legal_stream(&verdict) && fault == "none" {
                if sim::violation(
                    P,
                    "atomicity",
                    "reader-sees-partial-version",
                    format!("during message {} a reader of the secondary saw {} rrsets that match no complete version of the transfer", mi, seen.len()),
                ) {
                    return;
                }
            }
            if finishing {
                outcome = Ok(true);
            }
            step().await;
        }
        if interpreter.is_finished() {
            outcome = Ok(true);
            if mi + 1 < delivered.len() {
                // The receiver stops reading; nothing more is demanded.
                break;
            }
        }
    }
    // An updater that has applied `Finished` is done with the zone: it may
    // be kept around (as the record of the last transfer, say) without
    // standing in anybody's way. Otherwise it is dropped here.
    let kept_updater = if outcome == Ok(true) && interpreter.is_finished() && sim::chance("finished_updater_kept_alive", 1, 2) {
        sim::stat("probe.finished_updater_kept_alive");
        Some(updater)
    } else {
        drop(updater);
        None
    };
    if outcome != Ok(true) {
        // (It would be next in line for the write handle for ever.)
        queued = None;
    }
    let seen = walk_str(&walk_zone(secondary.read().as_ref()));
    ev!("outcome {:?}; reference {}", outcome, match &verdict {
        RefVerdict::Complete(_, trailing) => format!("Complete(trailing garbage: {})", trailing),
        RefVerdict::UpToDate => "UpToDate".to_string(),
        RefVerdict::Reject(w) => format!("Reject({})", w),
    });
    match (&outcome, &verdict) {
        (Ok(true), RefVerdict::Complete(_, true)) if !complained_after_finish => {
            sim::violation(P, "refinement", "records-behind-the-closing-soa-accepted-without-complaint".to_string(), format!("the last message of the transfer (fault {}) carries records behind the closing SOA; the library finished the transfer and reported nothing", fault));
            return;
        }
        (Ok(true), RefVerdict::Complete(c, _)) => {
            let want = walk_str(&content_as_walk(c));
            if seen != want {
                let extra: Vec<_> = seen.iter().filter(|x| !want.contains(x)).collect();
                let missing: Vec<_> = want.iter().filter(|x| !seen.contains(x)).collect();
                let dup = seen.iter().any(|x| {
                    let mut s = x.3.clone();
                    s.dedup();
                    s.len() != x.3.len()
                });
                sim::violation(
                    P,
                    if fault == "none" { "fidelity" } else { "refinement" },
                    if dup { "duplicate-records-kept".to_string() } else { format!("secondary-differs/{}", if ixfr { "ixfr" } else { "axfr" }) },
                    format!("transfer {} {}->{} finished (fault {}), but the secondary differs from the transferred zone: unexpected {:?}; missing {:?}", if ixfr { "IXFR" } else { "AXFR" }, i, j, fault, extra, missing),
                );
                return;
            }
            if fault == "none" && *c != if ixfr { with_extras(&contents[j]) } else { contents[j].clone() } {
                sim::harness_error("reference interpreter disagrees with the model on a fault-free transfer".to_string());
            }
        }
        (Ok(true), RefVerdict::Reject(why)) => {
            // Trailing messages after a complete transfer were not read.
            sim::violation(P, "refinement", format!("accepted-invalid-stream/{}", why), format!("the library finished a transfer (fault {}) that RFC 5936/1995 rejects: {}", fault, why));
        }
        (Ok(true), RefVerdict::UpToDate) => {
            sim::violation(P, "refinement", "finished-on-single-soa".to_string(), "single-SOA IXFR response treated as a finished transfer".to_string());
        }
        (Ok(false), v) | (Err(_), v) => {
            // An IXFR whose first message carries only the initial SOA (one
            // record per message packaging) is mistaken for the single-SOA
            // "up to date / retry over TCP" answer.
            let single_soa_first = ixfr && delivered.len() > 1 && dns::view(&delivered[0].bytes).is_some_and(|v| v.recs.len() == 1) && matches!(&outcome, Err(e) if e.contains("SingleSoaIxfrTcpRetrySignal"));
            if single_soa_first && matches!(v, RefVerdict::Complete(..)) {
                if !sim::violation(
                    P,
                    "fidelity",
                    "ixfr-first-message-with-only-the-soa-taken-as-whole-response".to_string(),
                    format!("IXFR {}->{} packaged with the initial SOA alone in the first of {} messages ended with {:?}", i, j, delivered.len(), outcome),
                ) {
                    // known finding: still check that nothing partial is visible
                    let ok = complete.iter().any(|c| walk_str(&content_as_walk(c)) == seen);
                    if !ok {
                        sim::violation(P, "atomicity", "partial-version-left-after-failed-transfer".to_string(), "secondary holds a partial version".to_string());
                    }
                }
                return;
            }
            if let (RefVerdict::Complete(..), true) = (v, fault == "none") {
                sim::violation(P, "fidelity", format!("valid-transfer-failed/{}", if ixfr { "ixfr" } else { "axfr" }), format!("a legal fault-free transfer ended with {:?}", outcome));
                return;
            }
            if let (RefVerdict::Complete(_, false), Err(e)) = (v, &outcome) {
                sim::violation(P, "refinement", "valid-stream-rejected".to_string(), format!("delivered stream (fault {}) is a valid transfer per RFC but the library failed: {}", fault, e));
                return;
            }
            // Not finished: the secondary must still be a complete version
            // (the last one fully applied).
            let ok = complete.iter().any(|c| walk_str(&content_as_walk(c)) == seen);
            if !ok && ixfr && fault != "none" && batch_commits >= 2 {
                // A corrupted IXFR stream whose damage is only detected
                // later: the updater has already committed an intermediate
                // "difference sequence" of the garbled stream.
                sim::violation(
                    P,
                    "atomicity",
                    "garbled-ixfr-intermediate-version-committed".to_string(),
                    format!("fault {} in an IXFR {}->{}: {} batch boundaries were committed before the stream was rejected ({:?}); the secondary now holds a version that never existed on the primary", fault, i, j, batch_commits, outcome),
                );
            } else if !ok {
                sim::violation(
                    P,
                    "atomicity",
                    "partial-version-left-after-failed-transfer".to_string(),
                    format!("after the failed transfer (fault {}, outcome {:?}) the secondary holds {} rrsets that match no complete version", fault, outcome, seen.len()),
                );
            }
            if ok {
                // ---- nothing of the failed transfer may surface later: an
                // unrelated small update committed afterwards gives exactly
                // the version the secondary held plus that update.
                let base = complete.iter().find(|c| walk_str(&content_as_walk(c)) == seen).cloned().unwrap();
                if sim::chance("after_failure.clean_retry", 1, 2) {
                    // ---- or the transfer is simply tried again, this time
                    // over a link that delivers everything: a full transfer of
                    // the primary's current version in a fresh packaging. It
                    // succeeds and the secondary equals the primary, whatever
                    // the failed attempt left behind.
                    sim::stat("probe.clean_retry_after_failed_transfer");
                    let mut body: Vec<RecSpec> = vec![soa_spec(serial_of(&contents[j]).unwrap())];
                    body.extend(content_records(&contents[j]).into_iter().filter(|r| r.rtype != Rtype::SOA));
                    body.push(soa_spec(serial_of(&contents[j]).unwrap()));
                    let msgs = package(Rtype::AXFR, sim::draw("retry.id", 65536) as u16, &body, sim::chance("retry.compress", 1, 2));
                    let mut interpreter = XfrResponseInterpreter::new();
                    let mut updater: ZoneUpdater = match tokio::time::timeout(std::time::Duration::from_secs(30), ZoneUpdater::new(secondary.clone())).await {
                        Ok(Ok(u)) => u,
                        _ => {
                            sim::violation(P, "liveness", "retry-never-gets-the-zone-after-a-failed-transfer".to_string(), format!("after a transfer that failed (fault {}) a new updater for the zone was not available within 30 virtual seconds", fault));
                            return;
                        }
                    };
                    let mut done = false;
                    let mut err: Option<String> = None;
                    'retry: for w in &msgs {
                        let msg = Message::from_octets(Bytes::from(w.bytes.clone())).expect("message");
                        let it = match interpreter.interpret_response(msg) {
                            Ok(it) => it,
                            Err(e) => {
                                err = Some(format!("interpreter: {}", e));
                                break;
                            }
                        };
                        for u in it {
                            match u {
                                Ok(u) => {
                                    done |= matches!(u, ZoneUpdate::Finished(_));
                                    if let Err(e) = updater.apply(u).await {
                                        err = Some(format!("updater: {}", e));
                                        break 'retry;
                                    }
                                }
                                Err(e) => {
                                    err = Some(format!("iteration: {:?}", e));
                                    break 'retry;
                                }
                            }
                        }
                    }
                    drop(updater);
                    let now = walk_str(&walk_zone(secondary.read().as_ref()));
                    if err.is_some() || !done || now != walk_str(&content_as_walk(&contents[j])) {
                        sim::violation(P, "fidelity", "clean-retry-after-a-failed-transfer-goes-wrong".to_string(), format!("after a transfer that failed (fault {}), a clean full transfer of the primary's current version ended with {:?} (finished: {}); secondary equals primary: {}", fault, err, done, now == walk_str(&content_as_walk(&contents[j]))));
                    }
                } else {
                    followup(&secondary, &base, fault).await;
                }
            }
            return;
        }
    }
    // ---- the queued update goes ahead after a finished transfer: nothing of
    // it shows before it finishes, and then exactly it is added.
    if let (Some(f), Ok(true)) = (queued, &outcome) {
        let mut up = match tokio::time::timeout(std::time::Duration::from_secs(30), f).await {
            Ok(Ok(u)) => u,
            Ok(Err(e)) => {
                sim::violation(P, "atomicity", "queued-updater-failed".to_string(), format!("{}", e));
                return;
            }
            Err(_) => {
                sim::violation(P, "liveness", "next-update-never-gets-the-zone-after-a-finished-transfer".to_string(), format!("a transfer was applied to its end; an update that had waited for it was still waiting for the zone 30 virtual seconds later (the finished updater kept by its owner: {})", kept_updater.is_some()));
                return;
            }
        };
        let rec = RecSpec {
            owner: format!("queued.{}", APEX),
            rtype: Rtype::TXT,
            ttl: 60,
            rdata: "\"queued\"".to_string(),
        };
        up.apply(ZoneUpdate::AddRecord(rec.record())).await.expect("apply");
        let mid = walk_str(&walk_zone(secondary.read().as_ref()));
        if mid != seen {
            let extra: Vec<_> = mid.iter().filter(|x| !seen.contains(x)).collect();
            let missing: Vec<_> = seen.iter().filter(|x| !mid.contains(x)).collect();
            sim::violation(P, "atomicity", "reader-sees-partial-version/queued-update".to_string(), format!("an update that waited for the transfer to finish is visible to readers before it finished: unexpected {:?}; missing {:?}", extra, missing));
            return;
        }
        if sim::chance("queued.abandon", 1, 3) {
            drop(up);
            let after = walk_str(&walk_zone(secondary.read().as_ref()));
            if after != seen {
                sim::violation(P, "atomicity", "abandoned-queued-update-changed-the-zone".to_string(), format!("the zone held {} rrsets after the transfer and {} after a later update was abandoned", seen.len(), after.len()));
            }
        } else {
            let cur = seen.iter().find(|x| x.1 == Rtype::SOA).and_then(|x| x.3.first().and_then(|rd| rd.split_whitespace().nth(2).and_then(|v| v.parse::<u32>().ok()))).unwrap_or(0);
            let soa = soa_spec(cur.wrapping_add(1000));
            up.apply(ZoneUpdate::Finished(soa.record())).await.expect("finish");
            drop(up);
            let after = walk_str(&walk_zone(secondary.read().as_ref()));
            let has = after.iter().any(|x| x.0 == rec.owner && x.1 == Rtype::TXT);
            let others_same = after.iter().filter(|x| x.0 != rec.owner && x.1 != Rtype::SOA).eq(seen.iter().filter(|x| x.1 != Rtype::SOA));
            if !has || !others_same {
                sim::violation(P, "atomicity", "queued-update-result-wrong".to_string(), format!("after the queued update finished the zone holds {} rrsets (its record present: {}); the transfer had left {}", after.len(), has, seen.len()));
            }
        }
    }
}

/// A small unrelated update after a transfer that did not finish.
async fn followup(secondary: &Zone, base: &Content, fault: &str) {
    sim::stat("probe.followup_update_after_failed_transfer");
    let rec = RecSpec {
        owner: format!("followup.{}", APEX),
        rtype: Rtype::TXT,
        ttl: 60,
        rdata: "\"followup\"".to_string(),
    };
    let soa = soa_spec(serial_of(base).unwrap_or(0).wrapping_add(1000));
    let mut want = base.clone();
    apply_add(&mut want, &rec);
    want.remove(&(APEX.to_string(), Rtype::SOA));
    apply_add(&mut want, &soa);
    let mut up: ZoneUpdater<StoredName> = ZoneUpdater::new(secondary.clone()).await.expect("updater");
    up.apply(ZoneUpdate::AddRecord(rec.record())).await.expect("apply");
    up.apply(ZoneUpdate::Finished(soa.record())).await.expect("finish");
    drop(up);
    let seen = walk_str(&walk_zone(secondary.read().as_ref()));
    let want = walk_str(&content_as_walk(&want));
    if seen != want {
        let extra: Vec<_> = seen.iter().filter(|x| !want.contains(x)).collect();
        let missing: Vec<_> = want.iter().filter(|x| !seen.contains(x)).collect();
        sim::violation(
            P,
            "atomicity",
            "failed-transfer-surfaces-in-later-update".to_string(),
            format!("after a transfer that did not finish (fault {}), a later unrelated update published more than itself: unexpected {:?}; missing {:?}", fault, extra, missing),
        );
    }
}

struct HeldView {
    reader: Box<dyn domain::zonetree::ReadableZone>,
    before: Vec<(String, Rtype, u32, Vec<String>)>,
}

impl HeldView {
    fn new(zone: &Zone) -> Self {
        let reader = zone.read();
        let before = walk_str(&walk_zone(reader.as_ref()));
        HeldView { reader, before }
    }
}

impl Drop for HeldView {
    fn drop(&mut self) {
        if sim::stopped() || std::thread::panicking() {
            return;
        }
        let now = walk_str(&walk_zone(self.reader.as_ref()));
        if now != self.before {
            let extra: Vec<_> = now.iter().filter(|x| !self.before.contains(x)).collect();
            let missing: Vec<_> = self.before.iter().filter(|x| !now.contains(x)).collect();
            sim::violation(P, "atomicity", "view-held-across-the-transfer-changed".to_string(), format!("a view of the secondary taken before the transfer no longer shows its version at the end of the run: unexpected {:?}; missing {:?}", extra, missing));
        }
    }
}

fn verdict_is_legal_stream(v: &RefVerdict) -> bool {
    matches!(v, RefVerdict::Complete(..))
}
