//! C09 at lock level: one writer and 1-3 readers of one in-memory zone run
//! as *real threads*, interleaved by the choice tape at every lock
//! acquisition of the zone tree (`core::threads`, through the cfg-guarded
//! hook `domain::zonetree::verif_hooks`). The cooperative `zone_isolation`
//! scenario can only switch between whole API calls; here a reader's walk or
//! query is cut between any two node visits by any step of the writer's
//! update / remove / remove_all / commit / rollback.
//!
//! Real: Zone, ReadZone (walk, query), WriteZone and its nodes, Versioned,
//! rollback in Drop, parking_lot RwLocks (through try-lock wrappers).
//! Stub: the thread scheduler, the pre-drawn workload, the version model.

use super::zonestore::{build_direct, canon_rdata, content_as_walk, initial_content, query_zone, rrset_of, universe_names, walk_zone, Ans, Content, WalkOut, APEX};
use crate::core::runner::{Scenario, Tier};
use crate::core::sim;
use crate::core::threads::run_threads;
use domain::base::name::Label;
use domain::base::Rtype;
use domain::zonetree::{WritableZone, WritableZoneNode, Zone};
use futures_util::FutureExt;
use std::collections::{BTreeMap, BTreeSet};
use std::future::Future;
use std::pin::Pin;
use std::sync::atomic::{AtomicBool, AtomicUsize, Ordering};
use std::sync::{Arc, Mutex};
use std::time::Duration;

const P: &str = "C09";

#[derive(Clone, Debug)]
enum WOp {
    Update(String, Rtype, u32, BTreeSet<String>),
    Remove(String, Rtype),
    RemoveUpdate(String, Rtype, u32, BTreeSet<String>),
    RemoveAll(Option<(u32, BTreeSet<String>)>),
}

#[derive(Clone, Debug)]
struct Batch {
    diff: bool,
    ops: Vec<WOp>,
    /// `Some(bump)`: commit; `None`: drop the writer without committing.
    commit: Option<bool>,
}

fn now<F: Future>(f: F) -> F::Output {
    f.now_or_never().expect("zone tree futures are ready at once for a single writer")
}

fn node_for(root: &dyn WritableZoneNode, owner: &str) -> Option<Box<dyn WritableZoneNode>> {
    let rel = owner.strip_suffix(APEX)?;
    let labels: Vec<&str> = rel.trim_end_matches('.').split('.').filter(|s| !s.is_empty()).rev().collect();
    if labels.is_empty() {
        return None;
    }
    let mut node: Box<dyn WritableZoneNode> = now(root.update_child(Label::from_slice(labels[0].as_bytes()).unwrap())).expect("update_child");
    for l in &labels[1..] {
        node = now(node.update_child(Label::from_slice(l.as_bytes()).unwrap())).expect("update_child");
    }
    Some(node)
}

/// The content a batch turns `base` into (before a commit's serial bump).
fn apply_ops(base: &Content, ops: &[WOp]) -> Content {
    let mut working = base.clone();
    for op in ops {
        match op {
            WOp::Update(o, t, ttl, rds) | WOp::RemoveUpdate(o, t, ttl, rds) => {
                working.insert((o.clone(), *t), (*ttl, rds.clone()));
            }
            WOp::Remove(o, t) => {
                working.remove(&(o.clone(), *t));
            }
            WOp::RemoveAll(readd) => {
                working.clear();
                if let Some(s) = readd {
                    working.insert((APEX.to_string(), Rtype::SOA), s.clone());
                }
            }
        }
    }
    working
}

/// `commit(true)` bumps the serial unless the writer wrote an SOA itself.
fn bump_soa(base: &Content, working: &mut Content) {
    let old_soa = base.get(&(APEX.to_string(), Rtype::SOA)).cloned();
    let new_soa = working.get(&(APEX.to_string(), Rtype::SOA)).cloned();
    if let Some((ttl, rds)) = old_soa.clone() {
        if new_soa.is_none() || new_soa == old_soa {
            let rd = rds.iter().next().unwrap();
            let mut parts: Vec<String> = rd.split_whitespace().map(|s| s.to_string()).collect();
            let serial: u32 = parts[2].parse().unwrap();
            parts[2] = serial.wrapping_add(1).to_string();
            let mut s = BTreeSet::new();
            s.insert(canon_rdata(APEX, Rtype::SOA, &parts.join(" ")));
            working.insert((APEX.to_string(), Rtype::SOA), (ttl, s));
        }
    }
}

/// Obtain the write handle, giving the turn away while another writer has it.
fn obtain_writer(zone: &Zone) -> Box<dyn WritableZone> {
    let waker = futures_util::task::noop_waker();
    let mut cx = std::task::Context::from_waker(&waker);
    let mut fut = zone.write();
    let mut failed = 0;
    loop {
        match fut.as_mut().poll(&mut cx) {
            std::task::Poll::Ready(w) => return w,
            std::task::Poll::Pending => {
                failed += 1;
                if std::env::var("DSIM_DEBUG_THREADS").is_ok() && failed < 4 {
                    eprintln!("{:?} pending #{}", std::thread::current().name(), failed);
                }
                crate::core::threads::yield_blocked(usize::MAX, failed);
            }
        }
    }
}

const PLAIN: [Rtype; 4] = [Rtype::A, Rtype::TXT, Rtype::AAAA, Rtype::MX];

fn gen_rdata(rtype: Rtype) -> String {
    let i = sim::draw("rec.rdata", 4);
    match rtype {
        Rtype::A => format!("192.0.2.{}", i + 1),
        Rtype::AAAA => format!("2001:db8::{}", i + 1),
        Rtype::TXT => format!("\"t{}\"", i),
        _ => format!("{} mx{}.example.", 10 * (i + 1), i % 2),
    }
}

/// One observation of a held reader.
#[derive(Clone, Debug)]
struct Round {
    commits_before: usize,
    commits_after: usize,
    in_commit: bool,
    walks: Vec<WalkOut>,
    answers: Vec<Vec<(String, Rtype, Result<Ans, String>)>>,
}

pub struct ThreadsScn;

impl Scenario for ThreadsScn {
    fn name(&self) -> &'static str {
        "zone_threads"
    }
    fn property(&self) -> &'static str {
        P
    }
    fn max_vtime(&self) -> Duration {
        Duration::from_secs(60)
    }
    fn components(&self) -> (Vec<&'static str>, Vec<&'static str>) {
        (
            vec![
                "zonetree::in_memory::{nodes, versioned, read (query, walk), write (open, update/remove/remove_all, commit, Drop rollback)} on real OS threads",
                "parking_lot::RwLock via try-lock wrappers (cfg domain_verif hook in /repo)",
                "zonetree::parsed::Zonefile -> ZoneBuilder (initial zone)",
            ],
            vec!["deterministic thread scheduler (one managed thread runs at a time; switches at lock acquisitions; parking_lot's writer-preferring fairness modelled)", "pre-drawn writer batches and reader plans", "multi-version content model"],
        )
    }
    fn rule(&self) -> &'static str {
        "per run: a zone of 3-9 records over 3-6 names; one writer thread (two in a third of the runs, contending for the async writer mutex) executes 1-3 pre-drawn batches (0-4 update / remove / remove+update / remove_all operations through the low-level write interface, with or without diff collection; committed with or without serial bump, or dropped uncommitted); 1-3 reader threads each take 1-2 readers and observe each 2-3 times (walk plus exact-name queries); the choice tape decides at every lock acquisition of any thread which thread proceeds. Oracles: a reader's first walk equals exactly one committed version that was current between just before and just after it was obtained; every later observation through the same reader is identical; a writer never obtains the handle while another still holds it or is still rolling back; an RRset of that version asked for by exact name is returned exactly; after all threads end a new reader sees the last commit; no deadlock, no panic."
    }
    fn assumptions(&self) -> Vec<&'static str> {
        vec![
            "all shared mutable state of the zone tree is behind the hooked locks, so interleaving at lock acquisitions covers what real schedules can produce; the simulated threads are never truly parallel (hardware memory-model effects are out of scope; the code has no lock-free shared state besides reference counts)",
            "with two writers the version model is built at run time: each writer applies its batch to what was committed last when it obtained the handle",
            "negative answers are not compared here (the known node-creation finding is reported by zone_isolation)",
        ]
    }
    fn nontrivial(&self, stats: &BTreeMap<&'static str, u64>) -> bool {
        stats.get("counter.thread_switches").copied().unwrap_or(0) > 2
    }
    fn run(&self, tier: Tier) -> Pin<Box<dyn Future<Output = ()>>> {
        Box::pin(async move { run(tier) })
    }
}

fn run(_tier: Tier) {
    // ---- the workload, drawn up front
    let all = universe_names();
    let plain: Vec<String> = all.iter().filter(|n| !n.contains('*')).cloned().collect();
    let n_focus = 3 + sim::draw("focus", 4) as usize;
    let mut names: Vec<String> = Vec::new();
    let mut pool = plain.clone();
    for _ in 0..n_focus.min(pool.len()) {
        let i = sim::draw("focus.pick", pool.len() as u64) as usize;
        names.push(pool.remove(i));
    }
    let c0 = initial_content(&names, 2 + sim::draw("init.n", 7));
    let zone: Zone = match build_direct(&c0) {
        Ok(z) => z,
        Err(e) => {
            sim::harness_error(format!("zone: {}", e));
            return;
        }
    };
    // Batches for one or two writers. The second writer contends for the
    // async writer mutex; what each batch does to the content is applied by
    // the writer itself to whatever was committed last when it got the
    // handle (writers are serialised, so that is well defined).
    let n_writers = if sim::chance("writers.two", 1, 3) { 2 } else { 1 };
    let mut plans_w: Vec<Vec<Batch>> = Vec::new();
    let mut touched: BTreeSet<(String, Rtype)> = c0.keys().cloned().collect();
    for _ in 0..n_writers {
        let mut batches: Vec<Batch> = Vec::new();
        let n_batches = 1 + sim::draw("batches", 3);
        let mut working = c0.clone();
        for _ in 0..n_batches {
            let mut ops = Vec::new();
            for _ in 0..sim::draw("batch.n_ops", 5) {
                let owner = sim::pick("op.owner", &names).clone();
                let rtype = *sim::pick("op.type", &PLAIN);
                let ttl = *sim::pick("op.ttl", &[300u32, 60]);
                let mut rds = BTreeSet::new();
                for _ in 0..1 + sim::draw("op.rrset_size", 2) {
                    rds.insert(canon_rdata(&owner, rtype, &gen_rdata(rtype)));
                }
                match sim::draw("op.kind", 8) {
                    0..=3 => {
                        touched.insert((owner.clone(), rtype));
                        ops.push(WOp::Update(owner, rtype, ttl, rds));
                    }
                    4 | 5 => {
                        let existing: Vec<(String, Rtype)> = working.keys().filter(|(_, t)| *t != Rtype::SOA).cloned().collect();
                        let (o, t) = if !existing.is_empty() && sim::chance("op.rm_existing", 3, 4) { sim::pick("op.rm_which", &existing).clone() } else { (owner, rtype) };
                        ops.push(WOp::Remove(o, t));
                    }
                    6 => {
                        touched.insert((owner.clone(), rtype));
                        ops.push(WOp::RemoveUpdate(owner, rtype, ttl, rds));
                    }
                    _ => {
                        let soa = working.get(&(APEX.to_string(), Rtype::SOA)).cloned();
                        let readd = if sim::chance("op.readd_soa", 3, 4) { soa } else { None };
                        ops.push(WOp::RemoveAll(readd));
                    }
                }
                working = apply_ops(&working, &ops[ops.len() - 1..]);
            }
            let commit = if sim::chance("batch.abort", 1, 4) { None } else { Some(sim::chance("batch.bump", 1, 2)) };
            batches.push(Batch {
                diff: sim::chance("batch.diff", 1, 2),
                ops,
                commit,
            });
        }
        plans_w.push(batches);
    }
    // What readers ask for by exact name: RRsets that occur in some version.
    let mut asks: Vec<(String, Rtype)> = touched.into_iter().filter(|(_, t)| *t != Rtype::SOA).collect();
    asks.truncate(6);
    let n_readers = 1 + sim::draw("readers", 3) as usize;
    let plans: Vec<(usize, usize)> = (0..n_readers).map(|_| (1 + sim::draw("reader.rounds", 2) as usize, 2 + sim::draw("reader.obs", 2) as usize)).collect();
    ev!("zone {} rrsets over {:?}; writers {:?}; {} readers {:?}", c0.len(), names, plans_w.iter().map(|b| b.iter().map(|b| (b.ops.len(), b.commit)).collect::<Vec<_>>()).collect::<Vec<_>>(), n_readers, plans);

    // ---- the threads
    let commits_done = Arc::new(AtomicUsize::new(0));
    let committing = Arc::new(AtomicBool::new(false));
    let holders = Arc::new(AtomicUsize::new(0));
    let overlap = Arc::new(AtomicBool::new(false));
    let committed: Arc<Mutex<Vec<Content>>> = Arc::new(Mutex::new(vec![c0.clone()]));
    let commit_errors: Arc<Mutex<Vec<String>>> = Arc::new(Mutex::new(Vec::new()));
    let mut bodies: Vec<Box<dyn FnOnce() + Send + 'static>> = Vec::new();
    let mut tnames: Vec<String> = Vec::new();
    for (wi, batches) in plans_w.iter().cloned().enumerate() {
        let zone = zone.clone();
        let commits_done = commits_done.clone();
        let committing = committing.clone();
        let commit_errors = commit_errors.clone();
        let committed = committed.clone();
        let holders = holders.clone();
        let overlap = overlap.clone();
        tnames.push(format!("writer{}", wi));
        bodies.push(Box::new(move || {
            for b in batches {
                let mut w: Box<dyn WritableZone> = obtain_writer(&zone);
                if std::env::var("DSIM_DEBUG_THREADS").is_ok() {
                    eprintln!("writer{} obtained, holders before {}", wi, holders.load(Ordering::SeqCst));
                }
                if holders.fetch_add(1, Ordering::SeqCst) != 0 {
                    overlap.store(true, Ordering::SeqCst);
                }
                let base = committed.lock().unwrap().last().unwrap().clone();
                let mut working = apply_ops(&base, &b.ops);
                let root = now(w.open(b.diff)).expect("open");
                for op in &b.ops {
                    match op {
                        WOp::Update(o, t, ttl, rds) => {
                            let rrset = rrset_of(*t, *ttl, rds, o);
                            match node_for(root.as_ref(), o) {
                                Some(n) => now(n.update_rrset(rrset)).expect("update_rrset"),
                                None => now(root.update_rrset(rrset)).expect("update_rrset"),
                            }
                        }
                        WOp::Remove(o, t) => match node_for(root.as_ref(), o) {
                            Some(n) => now(n.remove_rrset(*t)).expect("remove_rrset"),
                            None => now(root.remove_rrset(*t)).expect("remove_rrset"),
                        },
                        WOp::RemoveUpdate(o, t, ttl, rds) => {
                            let node = node_for(root.as_ref(), o);
                            let n: &dyn WritableZoneNode = match &node {
                                Some(n) => n.as_ref(),
                                None => root.as_ref(),
                            };
                            now(n.remove_rrset(*t)).expect("remove_rrset");
                            now(n.update_rrset(rrset_of(*t, *ttl, rds, o))).expect("update_rrset");
                        }
                        WOp::RemoveAll(readd) => {
                            now(root.remove_all()).expect("remove_all");
                            if let Some((ttl, rds)) = readd {
                                now(root.update_rrset(rrset_of(Rtype::SOA, *ttl, rds, APEX))).expect("update_rrset");
                            }
                        }
                    }
                }
                drop(root);
                match b.commit {
                    Some(bump) => {
                        if bump {
                            bump_soa(&base, &mut working);
                        }
                        committing.store(true, Ordering::SeqCst);
                        let res = now(w.commit(bump));
                        committed.lock().unwrap().push(working);
                        commits_done.fetch_add(1, Ordering::SeqCst);
                        committing.store(false, Ordering::SeqCst);
                        if let Err(e) = res {
                            commit_errors.lock().unwrap().push(format!("{:?}", e));
                        }
                        // The handle is given up when the writer is dropped
                        // (any rollback included).
                        holders.fetch_sub(1, Ordering::SeqCst);
                        if std::env::var("DSIM_DEBUG_THREADS").is_ok() {
                            eprintln!("writer{} committed, dropping", wi);
                        }
                        drop(w);
                    }
                    None => {
                        // Rollback in Drop; the handle counts as held until
                        // drop() has returned.
                        if std::env::var("DSIM_DEBUG_THREADS").is_ok() {
                            eprintln!("writer{} aborting", wi);
                        }
                        drop(w);
                        if std::env::var("DSIM_DEBUG_THREADS").is_ok() {
                            eprintln!("writer{} aborted", wi);
                        }
                        holders.fetch_sub(1, Ordering::SeqCst);
                    }
                }
            }
        }));
    }
    let mut results: Vec<Arc<Mutex<Vec<Round>>>> = Vec::new();
    for (ri, (rounds, obs)) in plans.iter().enumerate() {
        let zone = zone.clone();
        let commits_done = commits_done.clone();
        let committing = committing.clone();
        let asks = asks.clone();
        let out: Arc<Mutex<Vec<Round>>> = Arc::new(Mutex::new(Vec::new()));
        results.push(out.clone());
        let (rounds, obs) = (*rounds, *obs);
        tnames.push(format!("reader{}", ri));
        bodies.push(Box::new(move || {
            for _ in 0..rounds {
                let before = commits_done.load(Ordering::SeqCst);
                let r = zone.read();
                let after = commits_done.load(Ordering::SeqCst);
                let in_commit = committing.load(Ordering::SeqCst);
                let mut round = Round {
                    commits_before: before,
                    commits_after: after,
                    in_commit,
                    walks: Vec::new(),
                    answers: Vec::new(),
                };
                for _ in 0..obs {
                    round.walks.push(walk_zone(r.as_ref()));
                    round.answers.push(asks.iter().map(|(o, t)| (o.clone(), *t, query_zone(r.as_ref(), o, *t))).collect());
                }
                drop(r);
                out.lock().unwrap().push(round);
            }
        }));
    }
    let outcome = run_threads(tnames.clone(), bodies);
    sim::stat_add("counter.thread_switches", outcome.switches);
    sim::stat_add("counter.lock_acquisition_points", outcome.steps);
    let versions: Vec<Content> = committed.lock().unwrap().clone();
    sim::stat_add("counter.commits", (versions.len() - 1) as u64);
    if plans_w.iter().flatten().any(|b| b.commit.is_none()) {
        sim::stat("fault.writer_abort");
    }
    if n_writers == 2 {
        sim::stat("probe.two_writer_threads");
    }
    ev!("threads done: {} steps, {} switches", outcome.steps, outcome.switches);
    // ---- oracles
    if let Some(d) = &outcome.deadlock {
        sim::violation(P, "liveness", "lock-deadlock".to_string(), format!("all live threads wait for ever: {}", d));
        return;
    }
    if let Some((loc, msg)) = outcome.panics.first() {
        sim::violation(P, "panic", loc.clone(), format!("a zone thread panicked at {}: {}", loc, msg));
        return;
    }
    if overlap.load(Ordering::SeqCst) {
        sim::violation(P, "writers-serialised", "two-writers-hold-the-zone".to_string(), "a second writer obtained the write handle while the first still held it (or was still rolling back)".to_string());
        return;
    }
    if let Some(e) = commit_errors.lock().unwrap().first() {
        sim::violation(P, "commit", "commit-failed".to_string(), format!("commit returned {}", e));
        return;
    }
    let model_walks: Vec<WalkOut> = versions.iter().map(content_as_walk).collect();
    let norm = |w: &WalkOut| -> WalkOut {
        let mut w = w.clone();
        w.sort();
        w
    };
    let model_walks: Vec<WalkOut> = model_walks.iter().map(norm).collect();
    for (ri, res) in results.iter().enumerate() {
        for (rn, round) in res.lock().unwrap().iter().enumerate() {
            let first = norm(&round.walks[0]);
            let lo = round.commits_before;
            let hi = (round.commits_after + round.in_commit as usize).min(versions.len() - 1);
            let pinned = (lo..=hi).find(|v| model_walks[*v] == first);
            let v = match pinned {
                Some(v) => v,
                None => {
                    let anywhere = model_walks.iter().position(|m| *m == first);
                    let (sig, what) = match anywhere {
                        Some(v) => ("reader-sees-version-not-current-when-obtained", format!("version {} although versions {}..={} were current while it was obtained", v, lo, hi)),
                        None => ("reader-sees-no-committed-version", "a record set that is no committed version (torn or uncommitted data)".to_string()),
                    };
                    sim::violation(P, "isolation", sig.to_string(), format!("reader{} round {}: its first walk shows {}: {:?}", ri, rn, what, first));
                    return;
                }
            };
            sim::stat(if v == lo && lo == hi { "probe.reader_pinned_unambiguous_version" } else { "probe.reader_obtained_during_commit_window" });
            for (k, w) in round.walks.iter().enumerate().skip(1) {
                if norm(w) != first {
                    let lost: Vec<_> = first.iter().filter(|x| !w.contains(x)).collect();
                    let extra: Vec<_> = w.iter().filter(|x| !first.contains(x)).collect();
                    sim::violation(P, "isolation", "walk-changed".to_string(), format!("reader{} round {} (version {}): observation {} differs from its first walk: lost {:?}, gained {:?}", ri, rn, v, k, lost, extra));
                    return;
                }
            }
            for (k, answers) in round.answers.iter().enumerate() {
                for (o, t, a) in answers {
                    // (Names below an empty non-terminal are left out: how
                    // they are answered depends on the history of that node -
                    // the known C08 findings, reported by zone_answers.)
                    let ancestors_own = {
                        let mut ok = true;
                        let mut cur = o.clone();
                        while let Some((_, rest)) = cur.split_once('.') {
                            if rest == APEX || !rest.ends_with(APEX) {
                                break;
                            }
                            ok &= versions[v].keys().any(|(oo, _)| oo == rest);
                            cur = rest.to_string();
                        }
                        ok
                    };
                    if !ancestors_own {
                        continue;
                    }
                    if let Some((ttl, rds)) = versions[v].get(&(o.clone(), *t)) {
                        let ok = match a {
                            Ok(a) => {
                                let got: BTreeSet<String> = a.answer.iter().filter(|x| x.1 == *t).map(|x| x.3.clone()).collect();
                                a.rcode == "NOERROR" && got == *rds && a.answer.iter().all(|x| x.2 == *ttl)
                            }
                            Err(_) => false,
                        };
                        if !ok {
                            sim::violation(P, "isolation", "existing-rrset-not-answered".to_string(), format!("reader{} round {} (version {}), observation {}: {} {} is in that version ({:?}) but the answer is {:?}", ri, rn, v, k, o, t, rds, a));
                            return;
                        }
                    }
                }
            }
        }
    }
    let last = norm(&walk_zone(zone.read().as_ref()));
    if last != *model_walks.last().unwrap() {
        sim::violation(P, "final-state", "zone-differs-from-last-commit".to_string(), format!("after all threads ended a new reader sees {:?}, the last commit is {:?}", last, model_walks.last().unwrap()));
    }
}
