//! C11 — TSIG: honest exchanges verify, tampering is rejected, MACs follow
//! RFC 8945. Two endpoints (client, server) with their own skewed clocks
//! exchange signed messages over a tampering channel. Real: tsig::{Key,
//! ClientTransaction, ServerTransaction, ClientSequence, ServerSequence,
//! ServerError}. Stub: the channel, the drivers, and an independent RFC 8945
//! model (own wire parser, digest assembly, ring::hmac as a primitive only).

use crate::core::runner::{Scenario, Tier};
use crate::core::sim;
use domain::base::iana::Class;
use domain::base::message_builder::AdditionalBuilder;
use domain::base::{Message, MessageBuilder, Name, Rtype, Ttl};
use domain::rdata::tsig::Time48;
use domain::rdata::{Txt, A};
use domain::tsig::{Algorithm, ClientSequence, ClientTransaction, Key, KeyName, ServerSequence, ServerTransaction, ValidationError};
use ring::hmac;
use std::future::Future;
use std::net::Ipv4Addr;
use std::pin::Pin;
use std::str::FromStr;
use std::time::Duration;

const P: &str = "C11";

// ------------------------------------------------------- independent model

#[derive(Clone)]
struct MKey {
    alg: usize,
    secret: Vec<u8>,
    name_wire: Vec<u8>, // canonical (lower-case, uncompressed)
    min_mac: usize,
    sign_len: usize,
}

const ALG_NAMES: [&str; 4] = ["hmac-sha1", "hmac-sha256", "hmac-sha384", "hmac-sha512"];
const ALG_LEN: [usize; 4] = [20, 32, 48, 64];

fn name_wire(s: &str) -> Vec<u8> {
    let mut v = Vec::new();
    for l in s.trim_end_matches('.').split('.') {
        if l.is_empty() {
            continue;
        }
        v.push(l.len() as u8);
        v.extend(l.to_ascii_lowercase().as_bytes());
    }
    v.push(0);
    v
}

impl MKey {
    fn alg_wire(&self) -> Vec<u8> {
        name_wire(ALG_NAMES[self.alg])
    }
    fn hmac(&self, parts: &[&[u8]]) -> Vec<u8> {
        let alg = match self.alg {
            0 => hmac::HMAC_SHA1_FOR_LEGACY_USE_ONLY,
            1 => hmac::HMAC_SHA256,
            2 => hmac::HMAC_SHA384,
            _ => hmac::HMAC_SHA512,
        };
        let k = hmac::Key::new(alg, &self.secret);
        let mut ctx = hmac::Context::with_key(&k);
        for p in parts {
            ctx.update(p);
        }
        ctx.sign().as_ref().to_vec()
    }
}

#[derive(Clone, Debug)]
struct RawTsig {
    rr_start: usize,
    owner: Vec<u8>,
    class: u16,
    ttl: u32,
    alg: Vec<u8>,
    time: u64,
    fudge: u16,
    mac: Vec<u8>,
    orig_id: u16,
    error: u16,
    other: Vec<u8>,
}

#[derive(Debug)]
enum Scan {
    None,
    One(RawTsig),
    Misplaced,
    Malformed,
}

/// Read a (possibly compressed) name; returns canonical uncompressed wire
/// form and the position after the name in the original stream.
fn read_name(msg: &[u8], mut pos: usize) -> Option<(Vec<u8>, usize)> {
    let mut out = Vec::new();
    let mut end: Option<usize> = None;
    let mut hops = 0;
    loop {
        let b = *msg.get(pos)?;
        if b & 0xC0 == 0xC0 {
            let b2 = *msg.get(pos + 1)?;
            if end.is_none() {
                end = Some(pos + 2);
            }
            pos = (((b & 0x3F) as usize) << 8) | b2 as usize;
            hops += 1;
            if hops > 127 {
                return None;
            }
        } else if b & 0xC0 != 0 {
            return None;
        } else if b == 0 {
            out.push(0);
            if out.len() > 255 {
                return None;
            }
            return Some((out, end.unwrap_or(pos + 1)));
        } else {
            let l = b as usize;
            let lab = msg.get(pos + 1..pos + 1 + l)?;
            out.push(b);
            out.extend(lab.iter().map(|c| c.to_ascii_lowercase()));
            pos += 1 + l;
        }
    }
}

fn be16(msg: &[u8], pos: usize) -> Option<u16> {
    Some(u16::from_be_bytes([*msg.get(pos)?, *msg.get(pos + 1)?]))
}

fn scan(msg: &[u8]) -> Scan {
    if msg.len() < 12 {
        return Scan::Malformed;
    }
    let qd = be16(msg, 4).unwrap() as usize;
    let an = be16(msg, 6).unwrap() as usize;
    let ns = be16(msg, 8).unwrap() as usize;
    let ar = be16(msg, 10).unwrap() as usize;
    let mut pos = 12;
    for _ in 0..qd {
        match read_name(msg, pos) {
            Some((_, p)) => pos = p + 4,
            None => return Scan::Malformed,
        }
        if pos > msg.len() {
            return Scan::Malformed;
        }
    }
    let mut found: Option<RawTsig> = None;
    for i in 0..an + ns + ar {
        let start = pos;
        let (owner, p) = match read_name(msg, pos) {
            Some(x) => x,
            None => return Scan::Malformed,
        };
        let (rtype, class) = match (be16(msg, p), be16(msg, p + 2)) {
            (Some(t), Some(c)) => (t, c),
            _ => return Scan::Malformed,
        };
        let ttl = match (be16(msg, p + 4), be16(msg, p + 6)) {
            (Some(a), Some(b)) => ((a as u32) << 16) | b as u32,
            _ => return Scan::Malformed,
        };
        let rdlen = match be16(msg, p + 8) {
            Some(l) => l as usize,
            None => return Scan::Malformed,
        };
        let rd = p + 10;
        if rd + rdlen > msg.len() {
            return Scan::Malformed;
        }
        pos = rd + rdlen;
        let in_additional = i >= an + ns;
        if found.is_some() {
            // Something follows the TSIG record.
            return Scan::Misplaced;
        }
        if in_additional && rtype == 250 {
            // Parse the rdata.
            let (alg, q) = match read_name(msg, rd) {
                Some(x) => x,
                None => return Scan::Malformed,
            };
            if q + 10 > rd + rdlen {
                return Scan::Malformed;
            }
            let time = ((be16(msg, q).unwrap() as u64) << 32) | ((be16(msg, q + 2).unwrap() as u64) << 16) | be16(msg, q + 4).unwrap() as u64;
            let fudge = be16(msg, q + 6).unwrap();
            let maclen = be16(msg, q + 8).unwrap() as usize;
            let m = q + 10;
            if m + maclen + 6 > rd + rdlen {
                return Scan::Malformed;
            }
            let mac = msg[m..m + maclen].to_vec();
            let orig_id = be16(msg, m + maclen).unwrap();
            let error = be16(msg, m + maclen + 2).unwrap();
            let olen = be16(msg, m + maclen + 4).unwrap() as usize;
            let o = m + maclen + 6;
            if o + olen != rd + rdlen {
                return Scan::Malformed;
            }
            found = Some(RawTsig {
                rr_start: start,
                owner,
                class,
                ttl,
                alg,
                time,
                fudge,
                mac,
                orig_id,
                error,
                other: msg[o..o + olen].to_vec(),
            });
        }
    }
    match found {
        Some(t) => Scan::One(t),
        None => Scan::None,
    }
}

fn time48(t: u64) -> [u8; 6] {
    let b = t.to_be_bytes();
    [b[2], b[3], b[4], b[5], b[6], b[7]]
}

/// TSIG variables as digested (RFC 8945 section 4.3.3), from the TSIG RR.
fn variables(t: &RawTsig) -> Vec<u8> {
    let mut v = Vec::new();
    v.extend(&t.owner);
    v.extend(t.class.to_be_bytes());
    v.extend(t.ttl.to_be_bytes());
    v.extend(&t.alg);
    v.extend(time48(t.time));
    v.extend(t.fudge.to_be_bytes());
    v.extend(t.error.to_be_bytes());
    v.extend((t.other.len() as u16).to_be_bytes());
    v.extend(&t.other);
    v
}

fn timers(t: &RawTsig) -> Vec<u8> {
    let mut v = Vec::new();
    v.extend(time48(t.time));
    v.extend(t.fudge.to_be_bytes());
    v
}

/// The message as digested: TSIG RR removed, original ID, ARCOUNT - 1.
fn stripped(msg: &[u8], t: &RawTsig) -> Vec<u8> {
    let mut m = msg[..t.rr_start].to_vec();
    m[0..2].copy_from_slice(&t.orig_id.to_be_bytes());
    let ar = u16::from_be_bytes([m[10], m[11]]).wrapping_sub(1);
    m[10..12].copy_from_slice(&ar.to_be_bytes());
    m
}

/// The message as the verifier hands it on: without its TSIG record
/// (original id restored); unsigned messages as they are. `None` if the
/// TSIG record is malformed or misplaced.
pub(super) fn strip_tsig(msg: &[u8]) -> Option<(Vec<u8>, bool)> {
    match scan(msg) {
        Scan::None => Some((msg.to_vec(), false)),
        Scan::One(t) => Some((stripped(msg, &t), true)),
        _ => None,
    }
}

/// Do two messages carry the same signed content: equal octets before the
/// TSIG record and equal TSIG fields, with key and algorithm names compared
/// in canonical form (RFC 8945 section 4.3.3 digests them in canonical wire
/// format, so a change of case there is not a change of the message)?
pub(super) fn same_signed_content(a: &[u8], b: &[u8]) -> bool {
    match (scan(a), scan(b)) {
        (Scan::One(x), Scan::One(y)) => {
            a[..x.rr_start] == b[..y.rr_start]
                && a.len() == b.len()
                && x.owner == y.owner
                && x.class == y.class
                && x.ttl == y.ttl
                && x.alg == y.alg
                && x.time == y.time
                && x.fudge == y.fudge
                && x.mac == y.mac
                && x.orig_id == y.orig_id
                && x.error == y.error
                && x.other == y.other
        }
        _ => a == b,
    }
}

/// A drawn in-transit corruption of a signed message that no honest
/// forwarder performs (for the transport-level scenario).
pub(super) fn corrupt_in_transit(msg: &[u8]) -> (Vec<u8>, &'static str) {
    let m = match sim::draw("mitm.kind", 7) {
        0 | 1 => Mutation::BitFlip(sim::draw("mitm.flip_pos", msg.len().max(1) as u64) as usize, sim::draw("mitm.flip_bit", 8) as u8),
        2 => Mutation::MacFlip,
        3 => Mutation::DropTsig,
        4 => Mutation::MacLengthen(1 + sim::draw("mitm.mac_extra", 8) as usize),
        5 => Mutation::TimeShift(*sim::pick("mitm.time_shift", &[100_000i64, -100_000])),
        _ => Mutation::OrigIdChange,
    };
    let out = mutate(msg, &m);
    (out, mutation_stat(&m))
}

fn mac_with_len(mac: &[u8]) -> Vec<u8> {
    let mut v = (mac.len() as u16).to_be_bytes().to_vec();
    v.extend(mac);
    v
}

#[derive(Clone, Debug, PartialEq)]
enum Why {
    FormErr,
    BadKey,
    BadSig,
    BadTrunc,
    BadTime,
}

#[derive(Debug)]
enum Verdict {
    NoTsig,
    Accept { restored: Vec<u8>, mac: Vec<u8> },
    Reject(Why, Option<RawTsig>),
}

/// What is digested before the message itself.
enum Prefix<'a> {
    /// A request: nothing.
    None,
    /// First (or only) response: the request MAC; full variables.
    RequestMac(&'a [u8]),
    /// Subsequent message of a sequence: prior MAC, then the unsigned
    /// messages received since; timers only.
    Running(&'a [u8], &'a [Vec<u8>]),
}

fn model_verify(k: &MKey, msg: &[u8], prefix: Prefix<'_>, now: u64) -> Verdict {
    let t = match scan(msg) {
        Scan::None => return Verdict::NoTsig,
        Scan::Malformed | Scan::Misplaced => return Verdict::Reject(Why::FormErr, None),
        Scan::One(t) => t,
    };
    // CLASS MUST be ANY and TTL MUST be 0 (RFC 8945 section 4.2): a TSIG RR
    // with anything else cannot be interpreted.
    if t.class != 255 || t.ttl != 0 {
        return Verdict::Reject(Why::FormErr, None);
    }
    if t.owner != k.name_wire || t.alg != k.alg_wire() {
        return Verdict::Reject(Why::BadKey, Some(t));
    }
    if t.mac.len() < k.min_mac {
        return Verdict::Reject(Why::BadTrunc, Some(t));
    }
    let body = stripped(msg, &t);
    let expected = match prefix {
        Prefix::None => k.hmac(&[&body, &variables(&t)]),
        Prefix::RequestMac(m) => k.hmac(&[&mac_with_len(m), &body, &variables(&t)]),
        Prefix::Running(m, unsigned) => {
            let mut parts: Vec<Vec<u8>> = vec![mac_with_len(m)];
            for u in unsigned {
                parts.push(u.clone());
            }
            parts.push(body.clone());
            parts.push(timers(&t));
            let refs: Vec<&[u8]> = parts.iter().map(|p| p.as_slice()).collect();
            k.hmac(&refs)
        }
    };
    if t.mac.len() > expected.len() || expected[..t.mac.len()] != t.mac[..] {
        return Verdict::Reject(Why::BadSig, Some(t));
    }
    if now.abs_diff(t.time) > t.fudge as u64 {
        return Verdict::Reject(Why::BadTime, Some(t));
    }
    Verdict::Accept { restored: body, mac: t.mac.clone() }
}

/// Model signer: append a TSIG RR to `msg` (which has none).
#[allow(clippy::too_many_arguments)]
fn model_sign(k: &MKey, msg: &[u8], prefix: Prefix<'_>, time: u64, fudge: u16, error: u16, other: &[u8]) -> (Vec<u8>, Vec<u8>) {
    let t = RawTsig {
        rr_start: msg.len(),
        owner: k.name_wire.clone(),
        class: 255,
        ttl: 0,
        alg: k.alg_wire(),
        time,
        fudge,
        mac: vec![],
        orig_id: u16::from_be_bytes([msg[0], msg[1]]),
        error,
        other: other.to_vec(),
    };
    let full = match prefix {
        Prefix::None => k.hmac(&[msg, &variables(&t)]),
        Prefix::RequestMac(m) => k.hmac(&[&mac_with_len(m), msg, &variables(&t)]),
        Prefix::Running(m, unsigned) => {
            let mut parts: Vec<Vec<u8>> = vec![mac_with_len(m)];
            for u in unsigned {
                parts.push(u.clone());
            }
            parts.push(msg.to_vec());
            parts.push(timers(&t));
            let refs: Vec<&[u8]> = parts.iter().map(|p| p.as_slice()).collect();
            k.hmac(&refs)
        }
    };
    let mac = full[..k.sign_len].to_vec();
    let mut out = msg.to_vec();
    let ar = u16::from_be_bytes([out[10], out[11]]) + 1;
    out[10..12].copy_from_slice(&ar.to_be_bytes());
    out.extend(&t.owner);
    out.extend(250u16.to_be_bytes());
    out.extend(255u16.to_be_bytes());
    out.extend(0u32.to_be_bytes());
    let mut rd = Vec::new();
    rd.extend(&t.alg);
    rd.extend(time48(time));
    rd.extend(fudge.to_be_bytes());
    rd.extend((mac.len() as u16).to_be_bytes());
    rd.extend(&mac);
    rd.extend(t.orig_id.to_be_bytes());
    rd.extend(error.to_be_bytes());
    rd.extend((other.len() as u16).to_be_bytes());
    rd.extend(other);
    out.extend((rd.len() as u16).to_be_bytes());
    out.extend(rd);
    (out, mac)
}

// ------------------------------------------------------------------ helpers

fn lib_alg(i: usize) -> Algorithm {
    [Algorithm::Sha1, Algorithm::Sha256, Algorithm::Sha384, Algorithm::Sha512][i]
}

fn t48(t: u64) -> Time48 {
    Time48::from_u64(t)
}

fn build_msg(id: u16, qname: &str, n_recs: u64, rec_size: u64, response: bool) -> AdditionalBuilder<Vec<u8>> {
    let mut mb = MessageBuilder::new_vec();
    mb.header_mut().set_id(id);
    mb.header_mut().set_qr(response);
    if response {
        // Whatever a server has to say: NOTAUTH (9) is also what RFC 2136
        // answers for a zone the server is not authoritative for - with a
        // TSIG error of 0 it is a response like any other.
        use domain::base::iana::Rcode;
        mb.header_mut().set_rcode(*sim::pick("msg.rcode", &[Rcode::NOERROR, Rcode::NOERROR, Rcode::NOERROR, Rcode::NOERROR, Rcode::REFUSED, Rcode::NXDOMAIN, Rcode::NOTAUTH, Rcode::SERVFAIL]));
    }
    let mut q = mb.question();
    let name = Name::<Vec<u8>>::from_str(qname).unwrap();
    q.push((&name, Rtype::TXT)).unwrap();
    let mut an = q.answer();
    for i in 0..n_recs {
        if rec_size == 0 {
            an.push((&name, Class::IN, Ttl::from_secs(60), A::new(Ipv4Addr::from(i as u32)))).unwrap();
        } else {
            let text: Vec<u8> = (0..rec_size.min(255)).map(|j| b'a' + ((i + j) % 26) as u8).collect();
            an.push((&name, Class::IN, Ttl::from_secs(60), Txt::<Vec<u8>>::build_from_slice(&text).unwrap())).unwrap();
        }
    }
    an.additional()
}

fn why_of_validation(e: &ValidationError) -> String {
    format!("{:?}", e).split([' ', '{', '(']).next().unwrap_or("").to_string()
}


/// A response with RCODE NOTAUTH whose TSIG error field reads BADKEY / BADSIG
/// claims a server-side failure (RFC 8945 section 5.3.2: such responses are
/// unsigned); a client may take it at that - rejecting it as the server's
/// complaint instead of checking a MAC it is not supposed to carry - also when
/// the field got there by a flipped bit in transit.
fn server_side_claim(delivered: &[u8], t: &Option<RawTsig>, got: &str) -> bool {
    // (The TSIG record as scanned from the message if the caller has none:
    // in the messages of a sequence after the first the error field is not
    // even covered by the MAC - only the timers are -, so the model may well
    // accept what the library rejects as the server's complaint.)
    let scanned = match scan(delivered) {
        Scan::One(t) => Some(t),
        _ => None,
    };
    let t = if t.is_some() { t } else { &scanned };
    let claims = |code: u16| delivered.len() >= 4 && delivered[3] & 0x0f == 9 && t.as_ref().is_some_and(|t| t.error == code);
    let yes = (got == "ServerBadSig" && claims(16)) || (got == "ServerBadKey" && claims(17));
    if yes {
        sim::stat("probe.corrupted_into_a_server_side_error_claim");
    }
    yes
}

fn why_name(w: &Why) -> &'static str {
    match w {
        Why::FormErr => "FormErr",
        Why::BadKey => "BadKey",
        Why::BadSig => "BadSig",
        Why::BadTrunc => "BadTrunc",
        Why::BadTime => "BadTime",
    }
}

/// A mutation of a signed message on the channel.
#[derive(Clone, Debug, PartialEq)]
enum Mutation {
    None,
    BitFlip(usize, u8),
    Truncate(usize),
    RewriteId(u16),
    DropTsig,
    DuplicateTsig,
    TsigNotLast,
    MacFlip,
    MacShorten(usize),
    /// Extra octets appended to the MAC (MAC size and RDLENGTH adjusted).
    MacLengthen(usize),
    TimeShift(i64),
    FudgeChange,
    KeyNameCase,
    KeyNameOther,
    AlgOther,
    OrigIdChange,
    ClassChange,
}

fn mutate(msg: &[u8], m: &Mutation) -> Vec<u8> {
    let mut out = msg.to_vec();
    let t = match scan(msg) {
        Scan::One(t) => Some(t),
        _ => None,
    };
    // Offsets inside the TSIG RR (signer output is never compressed here).
    let offs = t.as_ref().map(|t| {
        let type_pos = t.rr_start + t.owner.len();
        let rd = type_pos + 10;
        let time = rd + t.alg.len();
        (type_pos, rd, time)
    });
    match m {
        Mutation::None => {}
        Mutation::BitFlip(pos, bit) => {
            let p = pos % out.len();
            out[p] ^= 1 << (bit % 8);
        }
        Mutation::Truncate(n) => out.truncate((*n).min(out.len())),
        Mutation::RewriteId(id) => out[0..2].copy_from_slice(&id.to_be_bytes()),
        Mutation::DropTsig => {
            if let Some(t) = &t {
                out.truncate(t.rr_start);
                let ar = u16::from_be_bytes([out[10], out[11]]) - 1;
                out[10..12].copy_from_slice(&ar.to_be_bytes());
            }
        }
        Mutation::DuplicateTsig => {
            if let Some(t) = &t {
                let rr = msg[t.rr_start..].to_vec();
                out.extend(rr);
                let ar = u16::from_be_bytes([out[10], out[11]]) + 1;
                out[10..12].copy_from_slice(&ar.to_be_bytes());
            }
        }
        Mutation::TsigNotLast => {
            if let Some(_t) = &t {
                // Append an A record for the root after the TSIG.
                out.extend([0u8, 0, 1, 0, 1, 0, 0, 0, 5, 0, 4, 192, 0, 2, 1]);
                let ar = u16::from_be_bytes([out[10], out[11]]) + 1;
                out[10..12].copy_from_slice(&ar.to_be_bytes());
            }
        }
        Mutation::MacFlip => {
            if let (Some(t), Some((_, _, time))) = (&t, offs) {
                if !t.mac.is_empty() {
                    out[time + 10] ^= 0x01;
                }
            }
        }
        Mutation::MacShorten(_) | Mutation::MacLengthen(_) => {
            // Rebuild the RR with a MAC truncated to n octets / with n more.
            if let (Some(t), Some((type_pos, _, _))) = (&t, offs) {
                let mac: Vec<u8> = match m {
                    Mutation::MacShorten(n) => t.mac[..(*n).min(t.mac.len())].to_vec(),
                    Mutation::MacLengthen(n) => t.mac.iter().copied().chain((0..*n).map(|i| (i as u8).wrapping_mul(37))).collect(),
                    _ => unreachable!(),
                };
                let mut rd = Vec::new();
                rd.extend(&t.alg);
                rd.extend(time48(t.time));
                rd.extend(t.fudge.to_be_bytes());
                rd.extend((mac.len() as u16).to_be_bytes());
                rd.extend(&mac);
                rd.extend(t.orig_id.to_be_bytes());
                rd.extend(t.error.to_be_bytes());
                rd.extend((t.other.len() as u16).to_be_bytes());
                rd.extend(&t.other);
                out.truncate(type_pos + 8);
                out.extend((rd.len() as u16).to_be_bytes());
                out.extend(rd);
            }
        }
        Mutation::TimeShift(d) => {
            if let (Some(t), Some((_, _, time))) = (&t, offs) {
                let nt = (t.time as i64 + d).max(0) as u64;
                out[time..time + 6].copy_from_slice(&time48(nt));
            }
        }
        Mutation::FudgeChange => {
            if let Some((_, _, time)) = offs {
                out[time + 7] ^= 0x10;
            }
        }
        Mutation::KeyNameCase => {
            if let Some(t) = &t {
                out[t.rr_start + 1] ^= 0x20;
            }
        }
        Mutation::KeyNameOther => {
            if let Some(t) = &t {
                out[t.rr_start + 1] = if out[t.rr_start + 1] == b'z' { b'y' } else { b'z' };
            }
        }
        Mutation::AlgOther => {
            if let Some((_, rd, _)) = offs {
                // hmac-shaXXX: name another algorithm the library knows
                // (same key name, so a store that looks at the name only
                // would find the key), or an unknown one.
                let digits = out.get(rd + 9..rd + 12).map(|d| d.to_vec());
                match digits.as_deref() {
                    Some(b"256") => out[rd + 9..rd + 12].copy_from_slice(b"384"),
                    Some(b"384") => out[rd + 9..rd + 12].copy_from_slice(b"512"),
                    Some(b"512") => out[rd + 9..rd + 12].copy_from_slice(b"256"),
                    _ => out[rd + 9] = if out[rd + 9] == b'9' { b'8' } else { b'9' },
                }
            }
        }
        Mutation::OrigIdChange => {
            if let (Some(t), Some((_, _, time))) = (&t, offs) {
                let p = time + 10 + t.mac.len();
                out[p + 1] ^= 0x01;
            }
        }
        Mutation::ClassChange => {
            if let Some((type_pos, _, _)) = offs {
                out[type_pos + 3] ^= 0x01;
            }
        }
    }
    out
}

fn gen_mutation(len: usize, fudge: u16) -> Mutation {
    match sim::draw("chan.mutation", 23) {
        0..=5 => Mutation::None,
        6 => Mutation::BitFlip(sim::draw("chan.flip_pos", len as u64) as usize, sim::draw("chan.flip_bit", 8) as u8),
        7 => Mutation::Truncate(sim::draw("chan.trunc", len as u64) as usize),
        8 => Mutation::RewriteId(sim::draw("chan.new_id", 65536) as u16),
        9 => Mutation::DropTsig,
        10 => Mutation::DuplicateTsig,
        11 => Mutation::TsigNotLast,
        12 => Mutation::MacFlip,
        13 => Mutation::MacShorten(sim::draw("chan.mac_len", 40) as usize),
        14 => Mutation::TimeShift(*sim::pick("chan.time_shift", &[1i64, -1, 1000, -1000]) * (1 + fudge as i64 / 2)),
        15 => Mutation::FudgeChange,
        16 => Mutation::KeyNameCase,
        17 => Mutation::KeyNameOther,
        18 => Mutation::AlgOther,
        19 => Mutation::OrigIdChange,
        20 => Mutation::ClassChange,
        21 => Mutation::MacLengthen(1 + sim::draw("chan.mac_extra", 32) as usize),
        _ => Mutation::BitFlip(sim::draw("chan.flip_pos", len as u64) as usize, sim::draw("chan.flip_bit", 8) as u8),
    }
}

fn mutation_stat(m: &Mutation) -> &'static str {
    match m {
        Mutation::None => "counter.unmodified",
        Mutation::BitFlip(..) => "fault.bit_flip",
        Mutation::Truncate(_) => "fault.truncate",
        Mutation::RewriteId(_) => "fault.forwarder_id_rewrite",
        Mutation::DropTsig => "fault.tsig_removed",
        Mutation::DuplicateTsig => "fault.tsig_duplicated",
        Mutation::TsigNotLast => "fault.tsig_not_last",
        Mutation::MacFlip => "fault.mac_flip",
        Mutation::MacShorten(_) => "fault.mac_shortened",
        Mutation::MacLengthen(_) => "fault.mac_lengthened",
        Mutation::TimeShift(_) => "fault.time_rewritten",
        Mutation::FudgeChange => "fault.fudge_rewritten",
        Mutation::KeyNameCase => "fault.key_name_case",
        Mutation::KeyNameOther => "fault.key_name_rewritten",
        Mutation::AlgOther => "fault.algorithm_rewritten",
        Mutation::OrigIdChange => "fault.original_id_rewritten",
        Mutation::ClassChange => "fault.tsig_class_rewritten",
    }
}

// ---------------------------------------------------------------- scenario

pub struct TsigScn;

impl Scenario for TsigScn {
    fn name(&self) -> &'static str {
        "tsig"
    }
    fn property(&self) -> &'static str {
        P
    }
    fn max_vtime(&self) -> Duration {
        Duration::from_secs(3600)
    }
    fn components(&self) -> (Vec<&'static str>, Vec<&'static str>) {
        (
            vec!["tsig::{Key, ClientTransaction, ServerTransaction, ClientSequence, ServerSequence, ServerError::build_message}", "rdata::tsig::{Tsig, Time48}", "base::MessageBuilder / Message"],
            vec![
                "tampering channel (bit flips, truncation, TSIG removed/duplicated/misplaced, field rewrites, forwarder ID rewrite, drop/duplicate/swap/replay in sequences)",
                "endpoint drivers with skewed wall clocks",
                "independent RFC 8945 model: own wire scanner, digest assembly, truncation/fudge rules (ring::hmac used as a primitive)",
                "model signer producing legal sequences with unsigned messages",
            ],
        )
    }
    fn rule(&self) -> &'static str {
        "per run one key (4 algorithms x min_mac_len x signing_len), two endpoint clocks with skew inside/at/outside the fudge window and optional jumps; then either a single transaction (request -> server verdict -> signed answer or error response -> client verdict), a sequence answered by the library's ServerSequence (1-12 messages), or a sequence produced by the model signer with signed/unsigned patterns (runs of up to 99 and 100 unsigned, unsigned last) up to 130 messages; every hop draws a mutation (none in 30%)."
    }
    fn assumptions(&self) -> Vec<&'static str> {
        vec!["the core API takes `now: Time48`, so clock skew and jumps are injected there; the wall-clock path (Time48::now) is exercised by the transport-level simulations", "ring::hmac is trusted as the HMAC primitive"]
    }
    fn nontrivial(&self, stats: &std::collections::BTreeMap<&'static str, u64>) -> bool {
        stats.iter().any(|(k, v)| *v > 0 && k.starts_with("fault."))
    }
    fn run(&self, tier: Tier) -> Pin<Box<dyn Future<Output = ()>>> {
        Box::pin(run(tier))
    }
}

struct World {
    lib_key: Key,
    /// Other keys a server's key store may hold (other names, other secrets).
    decoys: Vec<Key>,
    mk: MKey,
    fudge: u16,
    t0: u64,
    skew_c: i64,
    skew_s: i64,
}

impl World {
    fn now_c(&self, elapsed: u64) -> u64 {
        (self.t0 as i64 + elapsed as i64 + self.skew_c).max(0) as u64
    }
    fn now_s(&self, elapsed: u64) -> u64 {
        (self.t0 as i64 + elapsed as i64 + self.skew_s).max(0) as u64
    }
}

/// Compare a verified message with its pre-signing octets. Returns true if
/// the run should stop.
fn check_restored(what: &str, got: &[u8], want: &[u8]) -> bool {
    if got == want {
        return false;
    }
    if got.len() > want.len() && &got[..want.len()] == want {
        // The message proper is restored (ID, ARCOUNT, all sections) but
        // the stale TSIG RR octets are still part of the octet sequence.
        return viol("restore", "stale-tsig-octets-left-after-message".into(), format!("{}: {} octets of the removed TSIG record remain after the restored message", what, got.len() - want.len()));
    }
    viol("restore", format!("{}-not-restored", what), format!("after successful verification the message is {:02x?}, its pre-signing octets were {:02x?}", got, want))
}

fn viol(oracle: &str, sig: String, detail: String) -> bool {
    sim::violation(P, oracle, sig, detail)
}

async fn run(_tier: Tier) {
    let alg = sim::draw("key.alg", 4) as usize;
    let native = ALG_LEN[alg];
    let lo = (native / 2).max(10);
    let pick_len = |label: &'static str| -> Option<usize> {
        match sim::draw(label, 4) {
            0 => None,
            1 => Some(lo),
            2 => Some(native),
            _ => Some(lo + sim::draw("key.len_any", (native - lo + 1) as u64) as usize),
        }
    };
    let min_mac = pick_len("key.min_mac");
    let sign_len = pick_len("key.sign_len");
    // Both ends share one key configuration; a key that signs shorter than
    // it accepts could not talk to itself.
    let min_mac = match (min_mac, sign_len) {
        (m, Some(s)) if m.unwrap_or(native) > s => Some(s),
        (m, _) => m,
    };
    let secret: Vec<u8> = (0..16 + sim::draw("key.secret_len", 80)).map(|i| (i as u8).wrapping_mul(37).wrapping_add(11)).collect();
    let key_name = *sim::pick("key.name", &["tsig-key.example.", "K.", "a.very.long.key-name.in.some.zone.example."]);
    // RFC 8945 section 5.2.2.1: a MAC may be truncated to no less than half
    // the digest and no less than ten octets (and cannot be longer than the
    // digest): a key configured otherwise must be refused.
    if sim::chance("key.try_bounds", 1, 8) {
        let cands = [0usize, 1, 9, 10, 11, native / 2 - 1, native / 2, native / 2 + 1, native - 1, native, native + 1, 1000];
        let a = *sim::pick("key.bound_min", &cands);
        let b = *sim::pick("key.bound_sign", &cands);
        let legal = |l: usize| l >= 10.max(native / 2) && l <= native;
        let got = Key::new(lib_alg(alg), &secret, KeyName::from_str(key_name).unwrap(), Some(a), Some(b)).is_ok();
        sim::stat("probe.key_bounds_tried");
        if got != (legal(a) && legal(b)) {
            sim::violation(P, "conformance", "key-truncation-bounds".to_string(), format!("Key::new({}, min_mac_len {}, signing_len {}) {} (digest length {}; RFC 8945 allows truncation to no less than max(10, half the digest))", ALG_NAMES[alg], a, b, if got { "was accepted" } else { "was refused" }, native));
            return;
        }
    }
    let lib_key = match Key::new(lib_alg(alg), &secret, KeyName::from_str(key_name).unwrap(), min_mac, sign_len) {
        Ok(k) => k,
        Err(e) => {
            sim::harness_error(format!("Key::new failed: {:?}", e));
            return;
        }
    };
    let mk = MKey {
        alg,
        secret,
        name_wire: name_wire(key_name),
        min_mac: min_mac.unwrap_or(native),
        sign_len: sign_len.unwrap_or(native),
    };
    let fudge = *sim::pick("fudge", &[300u16, 0, 1, 5, 3600]);
    let skew = |label: &'static str| -> i64 {
        let f = fudge as i64;
        match sim::draw(label, 8) {
            0..=2 => 0,
            3 => f,
            4 => -f,
            5 => f + 1,
            6 => -(f + 1),
            _ => f / 2,
        }
    };
    let decoys = vec![
        Key::new(lib_alg(alg), b"a-decoy-secret-of-sufficient-length", KeyName::from_str("decoy-one.example.").unwrap(), None, None).expect("decoy key"),
        Key::new(Algorithm::Sha1, b"another-decoy-secret-0123456789", KeyName::from_str("Q.").unwrap(), None, None).expect("decoy key"),
    ];
    let w = World {
        lib_key,
        decoys,
        mk,
        fudge,
        // (One run in ten the clocks read a time close to the epoch - a
        // board without a battery-backed clock before its first time sync -
        // or close to where 32 bits of seconds end: the fudge window is a
        // window there, too.)
        t0: if sim::chance("t0.odd", 1, 10) {
            sim::stat("probe.clocks_close_to_the_epoch_or_the_32_bit_limit");
            *sim::pick("t0.which", &[0u64, 1, 100, 299, 300, 301, 3599, 3600, 3700, (1 << 32) - 100, (1 << 32) - 1, 1 << 32, (1 << 32) + 100])
        } else {
            1_700_000_000 + sim::draw("t0", 1000)
        },
        skew_c: skew("skew.client"),
        skew_s: skew("skew.server"),
    };
    ev!("key alg={} min_mac={:?} sign_len={:?} name={} fudge={} skew_c={} skew_s={}", ALG_NAMES[alg], min_mac, sign_len, key_name, fudge, w.skew_c, w.skew_s);
    match sim::draw("mode", 8) {
        0 | 1 => transaction(&w),
        2 | 3 => lib_sequence(&w),
        4 | 5 => model_sequence(&w),
        6 => middleware_sequence(&w).await,
        _ if sim::chance("mode.client_transport_multi", 1, 2) => client_transport_multi(&w).await,
        _ => client_transport(&w).await,
    }
}

// ---------------------------------- the client transport, many responses

/// What the scripted upstream hands out next.
#[derive(Clone)]
enum Scripted {
    Msg(Vec<u8>),
    /// The transport below fails this call (a read timeout, say); the
    /// messages behind it are still there for whoever asks again.
    UpstreamError,
}

struct ScriptedMultiUpstream {
    key: std::sync::Arc<Key>,
    /// (number of responses, fail the call before response k, tamper with response t)
    plan: (usize, Option<usize>, Option<usize>),
    /// The genuine responses before signing (filled in when the request is served).
    bodies: std::sync::Arc<std::sync::Mutex<Vec<Vec<u8>>>>,
}

struct ScriptedMultiGet {
    script: std::collections::VecDeque<Scripted>,
}

impl std::fmt::Debug for ScriptedMultiGet {
    fn fmt(&self, f: &mut std::fmt::Formatter<'_>) -> std::fmt::Result {
        write!(f, "ScriptedMultiGet")
    }
}

impl<CR: domain::net::client::request::ComposeRequestMulti + Send + Sync + 'static> domain::net::client::request::SendRequestMulti<CR> for ScriptedMultiUpstream {
    fn send_request(&self, req: CR) -> Box<dyn domain::net::client::request::GetResponseMulti + Send + Sync> {
        let mut script = std::collections::VecDeque::new();
        let mut msg = req.to_message().expect("request composes");
        let now = t48(sim::wall_secs());
        let (n, fail_before, tamper) = self.plan;
        match ServerSequence::request(&self.key, &mut msg, now) {
            Ok(Some(mut sseq)) => {
                for i in 0..n {
                    if fail_before == Some(i) {
                        script.push_back(Scripted::UpstreamError);
                    }
                    let mut ab = MessageBuilder::new_vec().start_answer(&msg, domain::base::iana::Rcode::NOERROR).expect("start_answer");
                    let text = format!("part{}", i).into_bytes();
                    ab.push((Name::<Vec<u8>>::from_str("multi.example.").unwrap(), Class::IN, Ttl::from_secs(60), Txt::<Vec<u8>>::build_from_slice(&text).unwrap())).unwrap();
                    let mut ad = ab.additional();
                    self.bodies.lock().unwrap().push(ad.as_slice().to_vec());
                    sseq.answer(&mut ad, now).expect("sign");
                    let mut bytes = ad.finish();
                    if tamper == Some(i) {
                        // One bit of the record data (well inside the signed part).
                        let p = bytes.len().min(12 + 20 + 30);
                        bytes[p - 1] ^= 0x01;
                    }
                    script.push_back(Scripted::Msg(bytes));
                }
            }
            other => {
                sim::violation(P, "completeness", "client-transport-request-rejected".to_string(), format!("the honest server could not verify the transport's streaming request: {:?}", other.map(|o| o.is_some()).map_err(|e| format!("{:?}", e.error()))));
            }
        }
        Box::new(ScriptedMultiGet { script })
    }
}

impl domain::net::client::request::GetResponseMulti for ScriptedMultiGet {
    fn get_response(&mut self) -> Pin<Box<dyn Future<Output = Result<Option<Message<bytes::Bytes>>, domain::net::client::request::Error>> + Send + Sync + '_>> {
        let next = self.script.pop_front();
        Box::pin(std::future::ready(match next {
            None => Ok(None),
            Some(Scripted::UpstreamError) => Err(domain::net::client::request::Error::StreamReadTimeout),
            Some(Scripted::Msg(b)) => Ok(Some(Message::from_octets(bytes::Bytes::from(b)).expect("message"))),
        }))
    }
}

/// `net::client::tsig::Connection` with a request that has many responses
/// (a zone transfer) over a scripted upstream: every response signed by the
/// library's `ServerSequence`; one call of the transport below may fail (the
/// messages behind it are still there for a caller who asks again); one
/// response may have a bit flipped. Whatever is handed to the caller is one
/// of the genuine responses, in order, verified and with its TSIG record
/// gone; the tampered one never is; a clean end means all of them came out.
async fn client_transport_multi(w: &World) {
    use domain::net::client::request::{RequestMessageMulti, SendRequestMulti};
    sim::stat("probe.client_transport_multi_mode");
    let key = std::sync::Arc::new(w.lib_key.clone());
    let n = 1 + sim::draw("ctm.n", 6) as usize;
    let fail_before = if sim::chance("ctm.upstream_error", 1, 2) { Some(sim::draw("ctm.fail_before", n as u64) as usize) } else { None };
    let tamper = if sim::chance("ctm.tamper", 1, 2) { Some(sim::draw("ctm.tamper_at", n as u64) as usize) } else { None };
    if fail_before.is_some() {
        sim::stat("fault.upstream_call_failed_mid_sequence");
    }
    if tamper.is_some() {
        sim::stat("fault.bit_flip");
    }
    let bodies = std::sync::Arc::new(std::sync::Mutex::new(Vec::new()));
    let conn = domain::net::client::tsig::Connection::new(key.clone(), ScriptedMultiUpstream { key, plan: (n, fail_before, tamper), bodies: bodies.clone() });
    let mut mb = MessageBuilder::new_vec();
    mb.header_mut().set_id(77);
    let mut q = mb.question();
    q.push((Name::<Vec<u8>>::from_str("multi.example.").unwrap(), Rtype::AXFR)).unwrap();
    let req = RequestMessageMulti::new(q.into_message()).expect("request");
    let mut g = SendRequestMulti::send_request(&conn, req);
    ev!("client transport, {} responses, upstream call fails before response {:?}, response {:?} tampered with", n, fail_before, tamper);
    let mut got = 0usize;
    let mut errors = 0u32;
    loop {
        match g.get_response().await {
            Ok(Some(m)) => {
                let bodies = bodies.lock().unwrap();
                if tamper == Some(got) {
                    sim::violation(P, "soundness", "client-transport-handed-on-a-tampered-response".to_string(), format!("response {} of {} had a bit flipped in transit and was handed to the caller (an upstream call had failed before: {})", got + 1, n, errors > 0));
                    return;
                }
                if m.header_counts().arcount() != 0 {
                    sim::violation(P, "restore", "client-transport-left-the-tsig-record".to_string(), format!("response {} of {} was handed to the caller with its TSIG record still attached - it was not verified (an upstream call had failed before: {})", got + 1, n, errors > 0));
                    return;
                }
                let same = bodies.get(got).is_some_and(|b| crate::dns::view(b).map(|v| (v.id, v.recs)) == crate::dns::view(m.as_slice()).map(|v| (v.id, v.recs)));
                if !same {
                    sim::violation(P, "restore", "client-transport-response-differs".to_string(), format!("response {} of {} handed to the caller is not the message the server signed at that position", got + 1, n));
                    return;
                }
                got += 1;
            }
            Ok(None) => {
                if got != n {
                    sim::violation(P, "soundness", "client-transport-clean-end-with-responses-missing".to_string(), format!("the sequence ended cleanly after {} of {} responses", got, n));
                }
                return;
            }
            Err(e) => {
                errors += 1;
                let auth = format!("{:?}", e).contains("Authentication");
                ev!("client transport: call {} -> {:?}", got + errors as usize, e);
                // After a rejected message nothing more is demanded; after a
                // failed call of the transport below the caller asks again.
                if auth || errors > 3 {
                    return;
                }
            }
        }
    }
}

// ------------------------------------------------- the client transport

/// An honest TSIG server behind the client transport: it takes its time
/// (virtual) and signs with its own clock, `skew` seconds off the client's.
struct SlowSignedUpstream {
    key: std::sync::Arc<Key>,
    skew: i64,
    stall_ms: u64,
}

struct SlowSignedGet<CR> {
    req: CR,
    key: std::sync::Arc<Key>,
    skew: i64,
    stall_ms: u64,
    /// Cancel safety of the stub itself: the request is taken in once, the
    /// answer is due at a fixed moment and built once, however often the
    /// caller drops the future and asks again.
    taken: Option<(Message<Vec<u8>>, Option<ServerTransaction<std::sync::Arc<Key>>>, tokio::time::Instant)>,
    response: Option<Message<bytes::Bytes>>,
}

impl<CR> std::fmt::Debug for SlowSignedGet<CR> {
    fn fmt(&self, f: &mut std::fmt::Formatter<'_>) -> std::fmt::Result {
        write!(f, "SlowSignedGet")
    }
}

struct SyncFut<'a, T>(Pin<Box<dyn Future<Output = T> + Send + 'a>>);
unsafe impl<T> Sync for SyncFut<'_, T> {}
impl<T> Future for SyncFut<'_, T> {
    type Output = T;
    fn poll(mut self: Pin<&mut Self>, cx: &mut std::task::Context<'_>) -> std::task::Poll<T> {
        self.0.as_mut().poll(cx)
    }
}

impl<CR: domain::net::client::request::ComposeRequest + Send + Sync + 'static> domain::net::client::request::SendRequest<CR> for SlowSignedUpstream {
    fn send_request(&self, req: CR) -> Box<dyn domain::net::client::request::GetResponse + Send + Sync> {
        Box::new(SlowSignedGet { req, key: self.key.clone(), skew: self.skew, stall_ms: self.stall_ms, taken: None, response: None })
    }
}

impl<CR: domain::net::client::request::ComposeRequest + Send + Sync> domain::net::client::request::GetResponse for SlowSignedGet<CR> {
    fn get_response(&mut self) -> Pin<Box<dyn Future<Output = Result<Message<bytes::Bytes>, domain::net::client::request::Error>> + Send + Sync + '_>> {
        Box::pin(SyncFut(Box::pin(async move {
            if let Some(r) = &self.response {
                return Ok(r.clone());
            }
            if self.taken.is_none() {
                let mut req = self.req.to_message().expect("request composes");
                let now = t48((sim::wall_secs() as i64 + self.skew) as u64);
                let tsig = match ServerTransaction::request(&self.key, &mut req, now) {
                    Ok(Some(t)) => t,
                    other => {
                        sim::violation(P, "completeness", "client-transport-request-rejected".to_string(), format!("the honest server could not verify the transport's request: {:?}", other.map(|o| o.is_some()).map_err(|e| format!("{:?}", e.error()))));
                        return Err(domain::net::client::request::Error::StreamReadError(std::sync::Arc::new(std::io::Error::other("request rejected"))));
                    }
                };
                // The request is in; the answer takes its time.
                self.taken = Some((req, Some(tsig), tokio::time::Instant::now() + Duration::from_millis(self.stall_ms)));
            }
            let due = self.taken.as_ref().map(|t| t.2).expect("taken");
            if self.stall_ms > 0 {
                tokio::time::sleep_until(due).await;
                sim::sync_clock();
            }
            let (req, tsig, _) = self.taken.as_mut().expect("taken");
            let tsig = tsig.take().expect("answered once");
            let now = t48((sim::wall_secs() as i64 + self.skew) as u64);
            let builder = MessageBuilder::new_bytes().start_answer(req, domain::base::iana::Rcode::NOERROR).expect("start_answer");
            let mut builder = builder.additional();
            tsig.answer(&mut builder, now).expect("sign");
            let m = builder.into_message();
            self.response = Some(m.clone());
            Ok(m)
        })))
    }
}


/// A key store holding the run's key among decoys with other names (the
/// lookup is by name - case-insensitively, as names compare - and algorithm).
fn map_store(w: &World) -> std::collections::HashMap<(KeyName, Algorithm), &Key> {
    let mut m = std::collections::HashMap::new();
    m.insert((w.lib_key.name().clone(), w.lib_key.algorithm()), &w.lib_key);
    for (i, decoy) in w.decoys.iter().enumerate() {
        if sim::chance("store.decoy", 1, 2) || i == 0 {
            m.insert((decoy.name().clone(), decoy.algorithm()), decoy);
        }
    }
    m
}

/// `net::client::tsig::Connection` over an honest, slow server whose clock
/// is off by a legal or an illegal amount: the response's time is judged
/// when the response arrives, whatever time the exchange took.
async fn client_transport(w: &World) {
    use domain::net::client::request::{RequestMessage, SendRequest};
    let key = std::sync::Arc::new(w.lib_key.clone());
    // (The transport signs with the default fudge of 300 s.)
    // (Only legal skews: a server further off would refuse the request.)
    let skew = *sim::pick("ct.skew", &[0i64, 299, -299, 150, 300, -300]);
    let stall_ms = *sim::pick("ct.stall_ms", &[0u64, 500, 2_000, 10_000, 400_000]);
    sim::stat("probe.client_transport_mode");
    if stall_ms >= 2_000 && skew.abs() >= 299 {
        sim::stat("probe.slow_answer_from_a_server_at_the_edge_of_the_fudge");
    }
    let conn = domain::net::client::tsig::Connection::new(key.clone(), SlowSignedUpstream { key, skew, stall_ms });
    let n = 1 + sim::draw("ct.n", 3);
    for i in 0..n {
        let msg = build_msg(100 + i as u16, "ct.example.", 0, 0, false).into_message();
        let req = RequestMessage::new(msg).expect("request");
        let mut g = conn.send_request(req);
        // `get_response` is documented as cancel safe: a caller may drop the
        // pending future (a timeout around it, a select! loop) and ask again.
        let mut cancels = if sim::chance("ct.cancel", 1, 3) { 1 + sim::draw("ct.n_cancels", 2) } else { 0 };
        let res = loop {
            if cancels > 0 && stall_ms > 0 {
                cancels -= 1;
                let after = 1 + sim::draw("ct.cancel_after_ms", stall_ms.min(3_000));
                match tokio::time::timeout(Duration::from_millis(after), g.get_response()).await {
                    Ok(r) => break r,
                    Err(_) => {
                        sim::sync_clock();
                        sim::stat("fault.get_response_dropped_and_reissued");
                        ev!("client transport: pending get_response() dropped after {} ms, asking again", after);
                        continue;
                    }
                }
            }
            break g.get_response().await;
        };
        sim::sync_clock();
        ev!("client transport: skew {} s, stall {} ms -> {}", skew, stall_ms, match &res { Ok(_) => "Ok".to_string(), Err(e) => format!("{:?}", e) });
        // With both clocks read when the response is there, the response's
        // time differs from the client's by the skew alone.
        match (&res, skew.abs() <= 300) {
            (Ok(m), true) => {
                if m.header_counts().arcount() != 0 {
                    sim::violation(P, "restore", "client-transport-left-the-tsig-record".to_string(), "the verified response still carries an additional record".to_string());
                    return;
                }
            }
            (Err(e), true) => {
                sim::violation(P, "completeness", format!("client-transport-rejects-honest-response/{}", { let t = format!("{:?}", e); let mut p = t.split(|c: char| !c.is_alphanumeric()).filter(|x| !x.is_empty()); let a = p.next().unwrap_or("?").to_string(); if a == "Authentication" { p.next().unwrap_or("?").to_string() } else { a } }), format!("honest server, clock {} s off (fudge 300), answer after {} ms: {:?}", skew, stall_ms, e));
                return;
            }
            (Ok(_), false) => {
                sim::violation(P, "soundness", "client-transport-accepted/BadTime".to_string(), format!("a response signed {} s off the client's clock (fudge 300) was accepted after a stall of {} ms", skew, stall_ms));
                return;
            }
            (Err(_), false) => {}
        }
    }
}

// ------------------------------------------------- the server middleware

/// Bottom service of the middleware mode: `n` responses, the transaction
/// feedback either on items of its own or attached to the first / last
/// response (both are legal for a `Service`).
#[derive(Clone)]
struct MultiSvc {
    n: usize,
    begin_attached: bool,
    end_attached: bool,
    with_feedback: bool,
    /// This response (by index) fills the message up to the very limit,
    /// ignoring the room the middleware asked to be left for the TSIG
    /// record: signing it fails and the middleware has to send a truncated
    /// one in its place (RFC 8945 section 5.3).
    greedy: Option<usize>,
    /// The service reports an error (an `Err` item) in front of this
    /// response and goes on; whoever drives the stream goes on too.
    err_before: Option<usize>,
}

type MwStream = futures_util::stream::Iter<std::vec::IntoIter<domain::net::server::service::ServiceResult<Vec<u8>>>>;

impl<M: Clone + Default + Send + Sync + 'static> domain::net::server::service::Service<Vec<u8>, M> for MultiSvc {
    type Target = Vec<u8>;
    type Stream = MwStream;
    type Future = std::future::Ready<MwStream>;

    fn call(&self, request: domain::net::server::message::Request<Vec<u8>, M>) -> Self::Future {
        use domain::net::server::service::{CallResult, ServiceFeedback};
        let msg = request.message();
        let mut items = Vec::new();
        let multi = self.n > 1 && self.with_feedback;
        if multi && !self.begin_attached {
            items.push(Ok(CallResult::feedback_only(ServiceFeedback::BeginTransaction)));
        }
        for i in 0..self.n {
            if self.err_before == Some(i) {
                items.push(Err(domain::net::server::service::ServiceError::InternalError));
            }
            let builder = domain::net::server::util::mk_builder_for_target::<Vec<u8>>();
            let mut ab = builder.start_answer(msg, domain::base::iana::Rcode::NOERROR).expect("start_answer");
            if let Ok(q) = msg.sole_question() {
                let text = format!("part{}", i).into_bytes();
                ab.push((q.qname(), Class::IN, Ttl::from_secs(60), Txt::<Vec<u8>>::build_from_slice(&text).unwrap())).unwrap();
                if self.greedy == Some(i) {
                    ab.clear_push_limit();
                    let fill = Txt::<Vec<u8>>::build_from_slice(&[b'f'; 255]).unwrap();
                    while ab.push((q.qname(), Class::IN, Ttl::from_secs(60), fill.clone())).is_ok() {}
                    let small = Txt::<Vec<u8>>::build_from_slice(b"s").unwrap();
                    while ab.push((q.qname(), Class::IN, Ttl::from_secs(60), small.clone())).is_ok() {}
                }
            }
            let mut cr = CallResult::new(ab.additional());
            if multi && self.begin_attached && i == 0 {
                cr = cr.with_feedback(ServiceFeedback::BeginTransaction);
            }
            if multi && self.end_attached && i + 1 == self.n {
                cr = cr.with_feedback(ServiceFeedback::EndTransaction);
            }
            items.push(Ok(cr));
        }
        if multi && !self.end_attached {
            items.push(Ok(CallResult::feedback_only(ServiceFeedback::EndTransaction)));
        }
        std::future::ready(futures_util::stream::iter(items))
    }
}

/// An honest signed request goes through the real `TsigMiddlewareSvc`; the
/// responses it lets out - one, or a sequence - must verify on the client
/// side (every one of them signed), whichever way the service below reports
/// the boundaries of its transaction.
async fn middleware_sequence(w: &World) {
    use domain::net::server::message::{NonUdpTransportContext, Request, TransportSpecificContext};
    use domain::net::server::middleware::tsig::TsigMiddlewareSvc;
    use domain::net::server::service::Service;
    use futures_util::StreamExt;
    sim::stat("counter.middleware_sequences");
    let key = std::sync::Arc::new(w.lib_key.clone());
    let n = 1 + sim::draw("mw.n", 6) as usize;
    let svc = MultiSvc {
        n,
        begin_attached: sim::chance("mw.begin_attached", 1, 2),
        end_attached: sim::chance("mw.end_attached", 1, 2),
        with_feedback: n > 1,
        greedy: if sim::chance("mw.greedy", 1, 4) { Some(sim::draw("mw.greedy_at", n as u64) as usize) } else { None },
        err_before: if n > 1 && sim::chance("mw.service_error_item", 1, 5) { Some(sim::draw("mw.error_before", n as u64) as usize) } else { None },
    };
    if svc.err_before.is_some() {
        sim::stat("fault.service_error_item_inside_a_sequence");
    }
    let mut error_items = 0u32;
    if svc.greedy.is_some() {
        sim::stat("probe.response_leaves_no_room_for_tsig");
    }
    let mw = TsigMiddlewareSvc::<Vec<u8>, MultiSvc, std::sync::Arc<Key>, ()>::new(svc.clone(), key.clone());
    let id = sim::draw("msg.id", 65536) as u16;
    let mut req = build_msg(id, "zone.example.", 0, 0, false);
    // Both ends read the (virtual) wall clock here.
    let now = sim::wall_secs();
    let mut cseq = match ClientSequence::request_with_fudge(&w.lib_key, &mut req, t48(now), w.fudge.max(5)) {
        Ok(s) => s,
        Err(_) => return,
    };
    let signed_req = req.as_slice().to_vec();
    let msg = Message::from_octets(signed_req).unwrap();
    let request = Request::new("10.0.0.7:5353".parse().unwrap(), tokio::time::Instant::now(), msg, TransportSpecificContext::NonUdp(NonUdpTransportContext::new(None)), ());
    ev!("middleware: {} responses, begin attached {}, end attached {}", n, svc.begin_attached, svc.end_attached);
    let mut stream = Box::pin(mw.call(request).await);
    let mut got = 0usize;
    // A long transfer: minutes may pass between two responses (more than the
    // fudge in total). Every response is signed when it is produced and
    // verified when it arrives, so each of them is fresh.
    let slow = sim::chance("mw.minutes_between_responses", 1, 4);
    if slow {
        sim::stat("probe.middleware_responses_minutes_apart");
    }
    loop {
        if slow {
            sim::sleep_ms(*sim::pick("mw.gap_s", &[0u64, 100, 250, 400, 4000]) * 1000).await;
        }
        let item = match stream.next().await {
            Some(i) => i,
            None => break,
        };
        let cr = match item {
            Ok(cr) => cr,
            // (The service's own error item: passed through; the responses
            // behind it are signed like those in front of it.)
            Err(_) if svc.err_before.is_some() && error_items == 0 => {
                error_items += 1;
                continue;
            }
            Err(e) => {
                viol("completeness", "middleware-service-error".into(), format!("an honest signed request ended in service error {:?}", e));
                return;
            }
        };
        let (resp, _feedback) = cr.into_inner();
        let resp = match resp {
            Some(r) => r,
            None => continue,
        };
        let bytes = resp.as_slice().to_vec();
        got += 1;
        if !matches!(scan(&bytes), Scan::One(_)) {
            viol("completeness", "middleware-response-unsigned".into(), format!("response {} of {} to a signed request left the TSIG middleware without a (single, trailing) TSIG record", got, n));
            return;
        }
        if svc.greedy == Some(got - 1) {
            // What comes out instead: question only, TC set, NOERROR, signed.
            let v = crate::dns::view(&bytes);
            let ok = v.as_ref().is_some_and(|v| v.tc && v.recs.iter().all(|r| r.rtype == Rtype::TSIG) && v.questions.len() == 1 && v.rcode == domain::base::iana::Rcode::NOERROR);
            if !ok {
                viol("conformance", "middleware-truncated-response-shape".into(), format!("a response that left no room for the TSIG record came out as {} octets that are not a question-only, TC=1, NOERROR message", bytes.len()));
                return;
            }
        }
        let mut dm = Message::from_octets(bytes).unwrap();
        if let Err(e) = cseq.answer(&mut dm, t48(sim::wall_secs())) {
            viol("completeness", format!("middleware-response-rejected-{}", why_of_validation(&e)), format!("response {} of {} from the TSIG middleware does not verify on the client: {:?}", got, n, e));
            return;
        }
    }
    if got != n {
        viol("completeness", "middleware-lost-responses".into(), format!("the service produced {} responses, the middleware let {} out", n, got));
        return;
    }
    if let Err(e) = cseq.done() {
        viol("completeness", format!("middleware-seq-done-{}", why_of_validation(&e)), "done() failed after the middleware's responses".into());
    }
}

/// Compare the library's MAC in a freshly signed message with the model's.
fn check_conformance(w: &World, what: &str, signed: &[u8], prefix: Prefix<'_>) -> Option<Vec<u8>> {
    let t = match scan(signed) {
        Scan::One(t) => t,
        other => {
            viol("conformance", format!("{}-not-signed-properly", what), format!("library output has no single trailing TSIG: {:?}", other));
            return None;
        }
    };
    let body = stripped(signed, &t);
    let (model_signed, model_mac) = model_sign(&w.mk, &body, prefix, t.time, t.fudge, t.error, &t.other);
    if model_mac != t.mac {
        viol(
            "conformance",
            format!("{}-mac-differs-from-rfc8945", what),
            format!("library MAC {:02x?} (error={}, other={:02x?}) differs from the independent RFC 8945 computation {:02x?}", t.mac, t.error, t.other, model_mac),
        );
        return None;
    }
    if t.class != 255 || t.ttl != 0 {
        viol("conformance", format!("{}-tsig-rr-class-ttl", what), format!("TSIG RR class {} ttl {}", t.class, t.ttl));
    }
    let _ = model_signed;
    Some(t.mac)
}

fn transaction(w: &World) {
    sim::stat("counter.transactions");
    let id = sim::draw("msg.id", 65536) as u16;
    let qname = *sim::pick("msg.qname", &["example.com.", "a.b.c.d.example.", "."]);
    let mut req = build_msg(id, qname, sim::draw("msg.req_recs", 3), sim::draw("msg.req_size", 3) * 100, false);
    let plain_req = req.as_slice().to_vec();
    let now_c = w.now_c(0);
    let tran = match ClientTransaction::request_with_fudge(&w.lib_key, &mut req, t48(now_c), w.fudge) {
        Ok(t) => t,
        Err(e) => {
            sim::harness_error(format!("request signing failed: {:?}", e));
            return;
        }
    };
    let signed_req = req.as_slice().to_vec();
    let req_mac = match check_conformance(w, "request", &signed_req, Prefix::None) {
        Some(m) => m,
        None => return,
    };
    // ---- channel: client -> server
    let m1 = gen_mutation(signed_req.len(), w.fudge);
    sim::stat(mutation_stat(&m1));
    let delivered = mutate(&signed_req, &m1);
    // Clock jump on the server between signing and verifying.
    let jump = if sim::chance("clock.jump", 1, 6) { *sim::pick("clock.jump_s", &[1u64, 299, 301, 4000]) } else { 0 };
    let now_s = w.now_s(jump);
    ev!("request {} octets, mutation {:?}, server now-signed = {}", signed_req.len(), m1, now_s as i64 - now_c as i64);
    let verdict = model_verify(&w.mk, &delivered, Prefix::None, now_s);
    let mut msg = match Message::from_octets(delivered.clone()) {
        Ok(m) => m,
        Err(_) => return, // shorter than a header: never reaches TSIG code
    };
    // The server finds the key in a single-key store or in a map.
    let res = if sim::chance("store.map", 1, 3) {
        sim::stat("probe.key_found_in_a_map_store");
        ServerTransaction::request(&map_store(w), &mut msg, t48(now_s))
    } else {
        ServerTransaction::request(&&w.lib_key, &mut msg, t48(now_s))
    };
    let (st, accepted_req_mac) = match (res, &verdict) {
        (Ok(None), Verdict::NoTsig) => return,
        (Ok(Some(st)), Verdict::Accept { restored, mac, .. }) => {
            if check_restored("request", msg.as_slice(), restored) {
                return;
            }
            if m1 == Mutation::None && restored != &plain_req {
                viol("restore", "request-differs-from-original".into(), "verified request differs from what the client built".into());
                return;
            }
            (st, mac.clone())
        }
        (Err(e), Verdict::Reject(why, t)) => {
            sim::stat("counter.server_rejected");
            server_error_path(w, &tran, &msg, e, why, t.as_ref(), now_s, &req_mac);
            return;
        }
        (Ok(Some(_)), v) => {
            viol("soundness", format!("server-accepted/{}", verdict_name(v)), format!("server accepted a request after {:?} that the RFC 8945 model answers with {:?}", m1, v));
            return;
        }
        (Ok(None), v) => {
            viol("soundness", format!("server-saw-no-tsig/{}", verdict_name(v)), format!("server treated the request as unsigned after {:?}; model: {:?}", m1, v));
            return;
        }
        (Err(e), v) => {
            viol("completeness", format!("server-rejected-{}/{}", e.error(), verdict_name(v)), format!("server rejected the request with {} after {:?}; model: {:?}", e.error(), m1, v));
            return;
        }
    };
    // ---- server answers
    let mut ans = build_msg(msg.header().id(), qname, sim::draw("msg.ans_recs", 6), sim::draw("msg.ans_size", 4) * 80, true);
    let plain_ans = ans.as_slice().to_vec();
    let now_s2 = w.now_s(jump + sim::draw("clock.service_time", 3));
    if st.answer_with_fudge(&mut ans, t48(now_s2), w.fudge).is_err() {
        sim::harness_error("answer signing failed");
        return;
    }
    let signed_ans = ans.as_slice().to_vec();
    if check_conformance(w, "answer", &signed_ans, Prefix::RequestMac(&accepted_req_mac)).is_none() {
        return;
    }
    // ---- channel: server -> client
    let m2 = gen_mutation(signed_ans.len(), w.fudge);
    sim::stat(mutation_stat(&m2));
    let delivered = mutate(&signed_ans, &m2);
    let now_c2 = w.now_c(jump + 1);
    // The client digests the MAC it sent.
    let verdict = model_verify(&w.mk, &delivered, Prefix::RequestMac(&req_mac), now_c2);
    // If the request MAC seen by the server differs from the one sent (the
    // request was tampered yet accepted - impossible unless truncated), the
    // honest answer cannot verify; the model already reflects that.
    let mut amsg = match Message::from_octets(delivered.clone()) {
        Ok(m) => m,
        Err(_) => return,
    };
    let res = tran.answer(&mut amsg, t48(now_c2));
    ev!("answer {} octets, mutation {:?} -> lib {:?}", signed_ans.len(), m2, res.as_ref().map_err(why_of_validation));
    match (&res, &verdict) {
        (Ok(()), Verdict::Accept { restored, .. }) => {
            if check_restored("answer", amsg.as_slice(), restored) {
                return;
            }
            if m2 == Mutation::None && m1 == Mutation::None && restored != &plain_ans {
                viol("restore", "answer-differs-from-original".into(), "verified answer differs from what the server built".into());
            }
        }
        (Err(e), Verdict::Reject(why, t)) => {
            let got = why_of_validation(e);
            if server_side_claim(&delivered, t, &got) {
                return;
            }
            if got != why_name(why) {
                viol("error-class", format!("client-answer/expected-{}-got-{}", why_name(why), got), format!("after {:?} the client reported {:?}; RFC 8945 model: {:?}", m2, e, why));
                return;
            }
            // (d) a rejected answer leaves the transaction usable.
            if m2 != Mutation::None {
                let mut genuine = Message::from_octets(signed_ans.clone()).unwrap();
                let v2 = model_verify(&w.mk, &signed_ans, Prefix::RequestMac(&req_mac), now_c2);
                let r2 = tran.answer(&mut genuine, t48(now_c2));
                if matches!(v2, Verdict::Accept { .. }) && r2.is_err() {
                    viol("completeness", "genuine-answer-rejected-after-forged-one".into(), format!("after rejecting a forged answer the client also rejected the genuine one: {:?}", r2));
                }
            }
        }
        (Err(ValidationError::ServerUnsigned), Verdict::NoTsig) => {}
        (Ok(()), v) => {
            viol("soundness", format!("client-accepted/{}", verdict_name(v)), format!("client accepted an answer after {:?} that the RFC 8945 model answers with {:?}", m2, v));
        }
        (Err(e), v) => {
            viol("completeness", format!("client-rejected-{}/{}", why_of_validation(e), verdict_name(v)), format!("client rejected the answer with {:?} after {:?} (request mutation {:?}); model: {:?}", e, m2, m1, v));
        }
    }
}

fn verdict_name(v: &Verdict) -> String {
    match v {
        Verdict::NoTsig => "model-NoTsig".into(),
        Verdict::Accept { .. } => "model-Accept".into(),
        Verdict::Reject(w, _) => format!("model-{}", why_name(w)),
    }
}

#[allow(clippy::too_many_arguments)]
fn server_error_path(w: &World, tran: &ClientTransaction<&Key>, req: &Message<Vec<u8>>, err: domain::tsig::ServerError<&Key>, why: &Why, t: Option<&RawTsig>, now_s: u64, req_mac: &[u8]) {
    // Error code per RFC 8945 section 5.2.
    let want_code = match why {
        Why::FormErr => 1u16,
        Why::BadKey => 17,
        Why::BadSig => 16,
        Why::BadTrunc => 22,
        Why::BadTime => 18,
    };
    let got_code = err.error().to_int();
    if got_code != want_code {
        if viol(
            "error-class",
            format!("server-error/expected-{}-got-{}", why_name(why), err.error()),
            format!("server answered a bad request with TSIG error {} where RFC 8945 assigns {}", err.error(), why_name(why)),
        ) {
            return;
        }
    }
    // Building the error response must not panic and must follow the RFC.
    let resp = match err.build_message(req, MessageBuilder::new_vec()) {
        Ok(b) => b.as_slice().to_vec(),
        Err(_) => return,
    };
    if *why == Why::FormErr || t.is_none() {
        return;
    }
    let rt = match scan(&resp) {
        Scan::One(rt) => rt,
        other => {
            viol("conformance", "error-response-without-tsig".into(), format!("error response carries {:?}", other));
            return;
        }
    };
    let rcode = resp[3] & 0x0f;
    if rcode != 9 {
        viol("conformance", "error-response-rcode".into(), format!("error response has RCODE {} (expected NOTAUTH)", rcode));
        return;
    }
    if *why == Why::BadTime {
        // Signed, with the server's time as other data (6 octets), time
        // signed copied from the request.
        if rt.other != time48(now_s) || rt.time != t.unwrap().time {
            viol("conformance", "badtime-other-data".into(), format!("BADTIME response other={:02x?} time_signed={} (request had {}, server clock {})", rt.other, rt.time, t.unwrap().time, now_s));
            return;
        }
        let accepted_mac = t.unwrap().mac.clone();
        let _ = req_mac;
        if check_conformance(w, "badtime-response", &resp, Prefix::RequestMac(&accepted_mac)).is_none() {
            return;
        }
        // A BADTIME response is signed (RFC 8945 section 5.2.3): the server
        // time it carries is worth something only if the MAC holds. Tampered
        // with on its way back - a bit of the MAC or of the server time in
        // the other data flipped, the MAC cut off altogether, another key
        // named - it is a forgery like any other and must not be reported as
        // the server's verdict (nor accepted).
        if sim::chance("badtime.tampered_first", 1, 2) {
            let forged = match sim::draw("badtime.tamper", 4) {
                0 => mutate(&resp, &Mutation::MacFlip),
                1 => {
                    let mut f = resp.clone();
                    let n = f.len();
                    f[n - 1] ^= 1 << sim::draw("badtime.other_bit", 8);
                    f
                }
                2 => mutate(&resp, &Mutation::MacShorten(0)),
                _ => mutate(&resp, &Mutation::KeyNameOther),
            };
            sim::stat("fault.badtime_response_tampered");
            let mut m = Message::from_octets(forged).unwrap();
            match tran.answer(&mut m, t48(w.now_c(1))) {
                Err(ValidationError::ServerBadTime { .. }) => {
                    viol("soundness", "client-took-a-forged-badtime-response-for-the-servers".into(), "a BADTIME response that was tampered with in transit (MAC, other data or key name) was reported as ServerBadTime: the server time in it is not authenticated".into());
                    return;
                }
                Ok(_) => {
                    viol("soundness", "client-accepted-a-forged-badtime-response".into(), "a BADTIME response that was tampered with in transit was accepted".into());
                    return;
                }
                Err(_) => {}
            }
        }
        // The client must report the server's view.
        let mut m = Message::from_octets(resp.clone()).unwrap();
        match tran.answer(&mut m, t48(w.now_c(1))) {
            Err(ValidationError::ServerBadTime { .. }) => {}
            other => {
                // Only comparable if the request reached the server intact.
                if t.unwrap().mac == req_mac {
                    viol("error-class", format!("client-on-badtime/{}", other.as_ref().map(|_| "Ok".to_string()).unwrap_or_else(|e| why_of_validation(e))), format!("client answered a signed BADTIME response with {:?}", other));
                }
            }
        }
    } else {
        // Unsigned error: empty MAC.
        if !rt.mac.is_empty() {
            viol("conformance", "unsigned-error-has-mac".into(), format!("{} response carries a MAC", why_name(why)));
        }
    }
}

/// The library's server signs every message of a sequence; the library
/// client and the model both verify.
fn lib_sequence(w: &World) {
    sim::stat("counter.lib_sequences");
    let (late_from, late_by): (u64, u64) = if sim::chance("seq.clock_step", 1, 5) {
        sim::stat("fault.clock_step_inside_sequence");
        (1 + sim::draw("seq.clock_step_at", 4), *sim::pick("seq.clock_step_s", &[301u64, 4000, 299, 86_400 * 366]))
    } else {
        (u64::MAX, 0)
    };
    let id = sim::draw("msg.id", 65536) as u16;
    let mut req = build_msg(id, "zone.example.", 0, 0, false);
    let now_c = w.now_c(0);
    let mut cseq = match ClientSequence::request_with_fudge(&w.lib_key, &mut req, t48(now_c), w.fudge) {
        Ok(s) => s,
        Err(_) => return,
    };
    let signed_req = req.as_slice().to_vec();
    let req_mac = match check_conformance(w, "seq-request", &signed_req, Prefix::None) {
        Some(m) => m,
        None => return,
    };
    let now_s = w.now_s(0);
    let mut msg = Message::from_octets(signed_req.clone()).unwrap();
    let seq_res = if sim::chance("store.map", 1, 3) {
        sim::stat("probe.key_found_in_a_map_store");
        ServerSequence::request(&map_store(w), &mut msg, t48(now_s))
    } else {
        ServerSequence::request(&&w.lib_key, &mut msg, t48(now_s))
    };
    let mut sseq = match seq_res {
        Ok(Some(s)) => s,
        Ok(None) => {
            viol("completeness", "server-saw-no-tsig/seq".into(), "ServerSequence::request found no TSIG in a signed request".into());
            return;
        }
        Err(e) => {
            // Honest request: only the clock may be off.
            let v = model_verify(&w.mk, &signed_req, Prefix::None, now_s);
            if matches!(v, Verdict::Accept { .. }) {
                viol("completeness", format!("server-rejected-{}/seq", e.error()), format!("honest sequence request rejected with {}", e.error()));
            }
            return;
        }
    };
    let n = 1 + sim::draw("seq.n", 12);
    // The server chains the MACs it sent; the client the MACs it received
    // (they differ once a MAC was shortened in transit).
    let mut prior = req_mac.clone();
    let mut prior_rcvd = req_mac.clone();
    let mut model_ok = true;
    let mut redeliveries = 0u32;
    let mut mac_check_reached = false;
    let mut held: Option<(Vec<u8>, Vec<u8>)> = None; // the server's message 0 and its MAC, for redelivery
    let mut i = 0u64;
    while i < n {
        let (signed, mac_of_signed): (Vec<u8>, Option<Vec<u8>>) = match (&held, redeliveries > 0) {
            (Some((sg, mc)), true) => (sg.clone(), Some(mc.clone())),
            _ => {
                let mut ans = build_msg(id, "zone.example.", 1 + sim::draw("seq.recs", 4), sim::draw("seq.size", 3) * 60, true);
                let t_s = w.now_s(i);
                if sseq.answer_with_fudge(&mut ans, t48(t_s), w.fudge).is_err() {
                    return;
                }
                (ans.as_slice().to_vec(), None)
            }
        };
        // Conformance of message i (first: request MAC + full variables;
        // later: prior MAC + timers only).
        let prefix = if i == 0 { Prefix::RequestMac(&prior) } else { Prefix::Running(&prior, &[]) };
        let mac = match mac_of_signed {
            Some(m) => m,
            None => match check_conformance(w, if i == 0 { "seq-first-answer" } else { "seq-subsequent-answer" }, &signed, prefix) {
                Some(m) => m,
                None => return,
            },
        };
        if i == 0 {
            held = Some((signed.clone(), mac.clone()));
        }
        // Channel. A first answer that was rejected may be followed by
        // further candidates for the first answer (spoofed messages can be
        // dropped and the next one tried): nothing of the rejected one may
        // stick.
        let m = if redeliveries > 0 {
            // (`ClientSequence` checks the first answer's MAC with the
            // context that holds the request MAC and gives that context up
            // doing so - unlike `ClientTransaction` it does not promise to
            // stay usable after a failed MAC check. So the genuine answer is
            // only expected to verify after candidates that were rejected
            // before their MAC was looked at; candidates without a TSIG
            // record must be rejected in any case.)
            if mac_check_reached {
                Mutation::DropTsig
            } else {
                match sim::draw("seq.redeliver", 3) {
                    0 => Mutation::None,
                    1 => Mutation::DropTsig,
                    _ => Mutation::MacFlip,
                }
            }
        } else if sim::chance("seq.tamper", 1, 5) {
            gen_mutation(signed.len(), w.fudge)
        } else {
            Mutation::None
        };
        sim::stat(mutation_stat(&m));
        let delivered = mutate(&signed, &m);
        // The receiver's clock may step while the sequence is under way (or
        // a message may be held up in transit): every signed message's time
        // is judged against the clock at the moment it is verified.
        let t_c = w.now_c(i + if i >= late_from { late_by } else { 0 });
        let prefix = if i == 0 { Prefix::RequestMac(&prior_rcvd) } else { Prefix::Running(&prior_rcvd, &[]) };
        let verdict = model_verify(&w.mk, &delivered, prefix, t_c);
        let mut dm = match Message::from_octets(delivered.clone()) {
            Ok(m) => m,
            Err(_) => return,
        };
        let res = cseq.answer(&mut dm, t48(t_c));
        ev!("seq message {}/{} {} octets mutation {:?} -> lib {:?} model {}", i, n, signed.len(), m, res.as_ref().map_err(why_of_validation), verdict_name(&verdict));
        match (&res, &verdict) {
            (Ok(()), Verdict::Accept { restored, mac: rcvd }) => {
                if check_restored("sequence-answer", dm.as_slice(), restored) {
                    return;
                }
                prior_rcvd = rcvd.clone();
            }
            (Err(e), Verdict::Reject(why, t)) => {
                let got = why_of_validation(e);
                if server_side_claim(&delivered, t, &got) {
                    return;
                }
                if got != why_name(why) {
                    viol("error-class", format!("client-seq/expected-{}-got-{}", why_name(why), got), format!("message {} after {:?}: client {:?}, model {:?}", i, m, e, why));
                    return;
                }
                // Later in the sequence a rejection ends it; a rejected
                // candidate for the first answer may be followed by others.
                if matches!(why, Why::BadSig | Why::BadTrunc | Why::BadTime) {
                    mac_check_reached = true;
                }
                if i == 0 && redeliveries < 3 && sim::chance("seq.try_next_candidate", 2, 3) {
                    redeliveries += 1;
                    sim::stat("probe.first_answer_candidate_after_rejection");
                    continue;
                }
                return;
            }
            (Err(ValidationError::ServerUnsigned), Verdict::NoTsig) if i == 0 => {
                if redeliveries < 3 && sim::chance("seq.try_next_candidate", 2, 3) {
                    redeliveries += 1;
                    sim::stat("probe.first_answer_candidate_after_rejection");
                    continue;
                }
                return;
            }
            (Ok(()), Verdict::NoTsig) if i > 0 => {
                // An unsigned intermediate message is legal; but then the
                // running digest includes it. (Only arises via DropTsig.)
                model_ok = false;
            }
            (Ok(()), v) => {
                viol("soundness", format!("client-seq-accepted/{}", verdict_name(v)), format!("message {} accepted after {:?}; model: {:?}", i, m, v));
                return;
            }
            (Err(e), v) => {
                if server_side_claim(&delivered, &None, &why_of_validation(e)) {
                    return;
                }
                if model_ok {
                    viol("completeness", format!("client-seq-rejected-{}/{}", why_of_validation(e), verdict_name(v)), format!("message {} of {} rejected with {:?} after {:?}; model: {:?}", i, n, e, m, v));
                }
                return;
            }
        }
        if !model_ok {
            return;
        }
        prior = mac;
        redeliveries = 0;
        i += 1;
    }
    if let Err(e) = cseq.done() {
        viol("completeness", format!("seq-done-{}", why_of_validation(&e)), "done() failed after a fully signed sequence".into());
    }
}

/// The model signs a sequence with unsigned messages; the library client
/// verifies it (the library's own server never leaves messages unsigned).
fn model_sequence(w: &World) {
    sim::stat("counter.model_sequences");
    let id = sim::draw("msg.id", 65536) as u16;
    let mut req = build_msg(id, "zone.example.", 0, 0, false);
    let now_c = w.now_c(0);
    let mut cseq = match ClientSequence::request_with_fudge(&w.lib_key, &mut req, t48(now_c), w.fudge) {
        Ok(s) => s,
        Err(_) => return,
    };
    let signed_req = req.as_slice().to_vec();
    let req_mac = match scan(&signed_req) {
        Scan::One(t) => t.mac,
        _ => return,
    };
    // Pattern of signed (true) / unsigned (false) messages.
    // (Pattern 7: a verified first answer, a few unsigned messages, then a
    // message that names the right key and algorithm but carries a wrong
    // MAC - and nothing after it. The forgery is rejected and does not close
    // the run of unsigned messages: done() fails.)
    let pat = sim::draw("mseq.pattern", 8);
    let forged_tail = pat == 7;
    let pattern: Vec<bool> = match pat {
        7 => {
            let mut p = vec![true];
            p.extend(vec![false; 1 + sim::draw("mseq.unsigned_before_forgery", 5) as usize]);
            p
        }
        0 => vec![true; 1 + sim::draw("mseq.n", 6) as usize],
        1 => {
            // every k-th signed
            let k = 2 + sim::draw("mseq.k", 5) as usize;
            let n = 2 + sim::draw("mseq.n", 20) as usize;
            let mut p: Vec<bool> = (0..n).map(|i| i % k == 0).collect();
            *p.last_mut().unwrap() = true;
            p
        }
        2 => {
            // first signed, 99 unsigned, then signed: legal
            let mut p = vec![true];
            p.extend(vec![false; 99]);
            p.push(true);
            p
        }
        3 => {
            // 100 unsigned in a row: must be rejected at the 100th
            let mut p = vec![true];
            p.extend(vec![false; 100]);
            p.push(true);
            p
        }
        4 => {
            // unsigned last: done() must fail
            let mut p = vec![true; 1 + sim::draw("mseq.n", 4) as usize];
            p.push(false);
            p
        }
        5 => {
            // first message unsigned: must be rejected
            vec![false, true]
        }
        _ => {
            let n = 2 + sim::draw("mseq.n", 30) as usize;
            let mut p: Vec<bool> = (0..n).map(|_| sim::chance("mseq.signed", 1, 2)).collect();
            p[0] = true;
            p
        }
    };
    sim::stat_add("counter.sequence_messages", pattern.len() as u64);
    let mut prior = req_mac;
    let mut pending_unsigned: Vec<Vec<u8>> = Vec::new();
    let mut run_unsigned = 0usize;
    for (i, signed) in pattern.iter().enumerate() {
        let plain = build_msg(id, "zone.example.", 1, 30, true).as_slice().to_vec();
        let t_s = w.now_s(i as u64 / 10);
        let t_c = w.now_c(i as u64 / 10);
        let wire = if *signed {
            let prefix = if i == 0 { Prefix::RequestMac(&prior) } else { Prefix::Running(&prior, &pending_unsigned) };
            let (s, mac) = model_sign(&w.mk, &plain, prefix, t_s, w.fudge, 0, &[]);
            prior = mac;
            pending_unsigned.clear();
            s
        } else {
            pending_unsigned.push(plain.clone());
            plain.clone()
        };
        let mut dm = Message::from_octets(wire.clone()).unwrap();
        let res = cseq.answer(&mut dm, t48(t_c));
        // Expected per RFC 8945 section 5.3.1.
        let time_ok = t_c.abs_diff(t_s) <= w.fudge as u64;
        let expect: Result<(), &str> = if i == 0 && !*signed {
            Err("ServerUnsigned")
        } else if !*signed {
            run_unsigned += 1;
            if run_unsigned > 99 {
                Err("TooManyUnsigned")
            } else {
                Ok(())
            }
        } else {
            run_unsigned = 0;
            if time_ok {
                Ok(())
            } else {
                Err("BadTime")
            }
        };
        match (&res, &expect) {
            (Ok(()), Ok(())) => {
                if *signed && check_restored("model-sequence-answer", dm.as_slice(), &plain) {
                    return;
                }
            }
            (Err(e), Err(want)) => {
                let got = why_of_validation(e);
                if got != *want {
                    viol("error-class", format!("client-model-seq/expected-{}-got-{}", want, got), format!("message {} (signed={}) of pattern len {}", i, signed, pattern.len()));
                }
                return;
            }
            (Ok(()), Err(want)) => {
                viol("soundness", format!("client-model-seq-accepted/expected-{}", want), format!("message {} (signed={}, run of {} unsigned) accepted; RFC 8945 demands {}", i, signed, run_unsigned, want));
                return;
            }
            (Err(e), Ok(())) => {
                viol(
                    "completeness",
                    format!("client-model-seq-rejected-{}", why_of_validation(e)),
                    format!("message {} (signed={}, {} unsigned before it, pattern len {}) of a legal RFC 8945 sequence rejected with {:?}", i, signed, pending_unsigned.len(), pattern.len(), e),
                );
                return;
            }
        }
    }
    if forged_tail {
        sim::stat("fault.forged_signed_message_behind_unsigned_ones");
        let plain = build_msg(id, "zone.example.", 1, 30, true).as_slice().to_vec();
        let t_s = w.now_s(pattern.len() as u64 / 10);
        let t_c = w.now_c(pattern.len() as u64 / 10);
        let (genuine, _) = model_sign(&w.mk, &plain, Prefix::Running(&prior, &pending_unsigned), t_s, w.fudge, 0, &[]);
        let forged = mutate(&genuine, &Mutation::MacFlip);
        let mut dm = Message::from_octets(forged).unwrap();
        if cseq.answer(&mut dm, t48(t_c)).is_ok() {
            viol("soundness", "client-model-seq-accepted/forged-mac".into(), "a message with a flipped MAC bit behind a run of unsigned messages was accepted".into());
            return;
        }
        if cseq.done().is_ok() {
            viol("soundness", "done-accepts-a-run-of-unsigned-messages-closed-by-a-forgery".into(), format!("{} unsigned messages followed by a message with a wrong MAC (rejected): done() accepted the sequence although no verified message closed the run", pattern.len() - 1));
        }
        return;
    }
    let last_signed = *pattern.last().unwrap();
    match (cseq.done(), last_signed) {
        (Ok(()), true) | (Err(_), false) => {}
        (Ok(()), false) => {
            viol("soundness", "done-accepts-unsigned-last".into(), "done() accepted a sequence whose last message was unsigned".into());
        }
        (Err(e), true) => {
            viol("completeness", format!("done-rejects-{}", why_of_validation(&e)), "done() rejected a sequence whose last message was signed".into());
        }
    }
}
