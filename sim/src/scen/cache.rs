//! C20 — the client cache serves only what upstream said, aged, never stale.
//! Real: `net::client::cache::Connection` (moka underneath). Stub: the
//! upstream (`SendRequest`), the clients, the history oracle.

use crate::core::exec::{step, Exec};
use crate::core::runner::{Scenario, Tier};
use crate::core::sim;
use crate::dns::{self, View};
use bytes::Bytes;
use domain::base::iana::{Class, Rcode, SecurityAlgorithm};
use domain::base::name::Name;
use domain::base::{Message, MessageBuilder, Rtype, Serial, Ttl};
use crate::core::net::{addr, DgConnectPlan, DgramFaults, SimDgConnector, UdpNet};
use domain::net::client::{cache, dgram};
use domain::net::client::request::{ComposeRequest, Error, GetResponse, RequestMessage, SendRequest};
use domain::rdata::dnssec::{RtypeBitmap, Timestamp};
use domain::rdata::{Cname, Ns, Nsec, Rrsig, Soa, Txt, A};
use std::cell::{Cell, RefCell};
use std::future::Future;
use std::net::Ipv4Addr;
use std::pin::Pin;
use std::rc::Rc;
use std::sync::{Arc, Mutex};
use std::time::Duration;

const P: &str = "C20";

#[derive(Clone, Copy, Debug, PartialEq, Eq)]
struct Flags {
    rd: bool,
    cd: bool,
    ad: bool,
    dnssec_ok: bool,
}

#[derive(Clone, Copy, Debug, PartialEq, Eq)]
enum RespClass {
    Positive,
    CnameChain,
    /// A CNAME whose target has no data of the type: NODATA (RFC 2308 2.2).
    CnameNoData,
    NoData,
    NxDomainSoa,
    NxDomainNoSoa,
    Delegation,
    Weird,
    MiscError,
    Truncated,
    TransportError,
}

#[derive(Clone, Debug)]
struct Upstream {
    serial: u32,
    t_ret_ns: u64,
    qname: String, // lower-cased
    qtype: Rtype,
    qclass: Class,
    /// Further questions of the request (lower-cased name, type).
    more: Vec<(String, Rtype)>,
    flags: Flags,
    /// The request's opcode (0 = QUERY).
    opcode: u8,
    class: RespClass,
    view: Option<View>, // None = transport error
}

#[derive(Default)]
struct UpState {
    log: Vec<Upstream>,
    faulty: bool,
}

#[derive(Clone)]
struct UpstreamStub {
    st: Arc<Mutex<UpState>>,
    /// Some: requests go to the upstream over this transport.
    via: Option<Arc<dgram::Connection<SimDgConnector>>>,
}

struct UpReq {
    fut: Option<Pin<Box<dyn Future<Output = Result<Message<Bytes>, Error>> + Send + Sync>>>,
    /// What the request came to, once it has: asking again gives the same.
    done: Option<Result<Message<Bytes>, Error>>,
}

impl std::fmt::Debug for UpReq {
    fn fmt(&self, f: &mut std::fmt::Formatter<'_>) -> std::fmt::Result {
        write!(f, "UpReq")
    }
}

impl GetResponse for UpReq {
    // (Cancel safe, as the trait documents it: a dropped `get_response()`
    // future loses nothing, the next one carries on where it stopped.)
    fn get_response(&mut self) -> Pin<Box<dyn Future<Output = Result<Message<Bytes>, Error>> + Send + Sync + '_>> {
        Box::pin(UpGet(self))
    }
}

struct UpGet<'a>(&'a mut UpReq);

impl Future for UpGet<'_> {
    type Output = Result<Message<Bytes>, Error>;
    fn poll(mut self: Pin<&mut Self>, cx: &mut std::task::Context<'_>) -> std::task::Poll<Self::Output> {
        let req = &mut *self.0;
        if let Some(r) = &req.done {
            return std::task::Poll::Ready(r.clone());
        }
        let fut = req.fut.as_mut().expect("request future");
        match fut.as_mut().poll(cx) {
            std::task::Poll::Ready(r) => {
                req.done = Some(r.clone());
                req.fut = None;
                std::task::Poll::Ready(r)
            }
            std::task::Poll::Pending => std::task::Poll::Pending,
        }
    }
}

struct SyncFut<T>(Pin<Box<dyn Future<Output = T> + Send>>);
unsafe impl<T> Sync for SyncFut<T> {}
impl<T> Future for SyncFut<T> {
    type Output = T;
    fn poll(mut self: Pin<&mut Self>, cx: &mut std::task::Context<'_>) -> std::task::Poll<T> {
        self.0.as_mut().poll(cx)
    }
}

// (The last three: the largest TTL RFC 2181 allows, and two it tells a
// receiver to treat as zero - most significant bit set.)
const TTLS: [u32; 10] = [3600, 60, 5, 1, 0, 700_000, 30, 0x7fff_ffff, 0x8000_0000, 0xffff_ffff];

fn ttl_draw(label: &'static str) -> u32 {
    *sim::pick(label, &TTLS)
}

/// When the last client is done the upstream's peer task goes, too.
struct LastOneOut(Rc<Cell<usize>>, Exec, Option<usize>);

impl Drop for LastOneOut {
    fn drop(&mut self) {
        self.0.set(self.0.get() - 1);
        if let (0, Some(id)) = (self.0.get(), self.2) {
            self.1.cancel(id);
        }
    }
}

thread_local! {
    /// The run's upstream sits behind a real datagram transport.
    static NET_MODE: Cell<bool> = const { Cell::new(false) };
}

impl SendRequest<RequestMessage<Vec<u8>>> for UpstreamStub {
    fn send_request(&self, req: RequestMessage<Vec<u8>>) -> Box<dyn GetResponse + Send + Sync> {
        if let Some(via) = &self.via {
            return via.send_request(req);
        }
        let st = self.st.clone();
        let fut = async move {
            let msg = req.to_message().expect("request message");
            // Upstream latency (virtual).
            let lat = sim::draw("up.latency_ms", 40);
            if lat > 0 {
                tokio::time::sleep(Duration::from_millis(lat)).await;
                sim::sync_clock();
            }
            upstream_answer(&st, &msg)
        };
        Box::new(UpReq {
            fut: Some(Box::pin(SyncFut(Box::pin(fut)))),
            done: None,
        })
    }
}

/// What the upstream says to `msg`; logged as said at this moment.
fn upstream_answer(st: &Arc<Mutex<UpState>>, msg: &Message<Vec<u8>>) -> Result<Message<Bytes>, Error> {
        {
            let h = msg.header();
            let q = msg.first_question().expect("question");
            let qname_s = format!("{}", q.qname());
            let more: Vec<(String, Rtype)> = msg.question().skip(1).filter_map(|x| x.ok()).map(|x| (format!("{}", x.qname()).to_ascii_lowercase(), x.qtype())).collect();
            let flags = Flags {
                rd: h.rd(),
                cd: h.cd(),
                ad: h.ad(),
                dnssec_ok: msg.opt().is_some_and(|o| o.dnssec_ok()),
            };
            let faulty = st.lock().unwrap().faulty;
            let class = if faulty {
                *sim::pick(
                    "up.class",
                    &[
                        RespClass::Positive,
                        RespClass::Positive,
                        RespClass::Positive,
                        RespClass::CnameChain,
                        RespClass::CnameNoData,
                        RespClass::NoData,
                        RespClass::NxDomainSoa,
                        RespClass::NxDomainNoSoa,
                        RespClass::Delegation,
                        RespClass::Weird,
                        RespClass::MiscError,
                        RespClass::Truncated,
                        // (Behind a real transport the upstream has no way
                        // of returning an error value.)
                        if NET_MODE.with(|c| c.get()) { RespClass::MiscError } else { RespClass::TransportError },
                    ],
                )
            } else {
                *sim::pick("up.class", &[RespClass::Positive, RespClass::CnameChain, RespClass::NoData, RespClass::NxDomainSoa, RespClass::Delegation, RespClass::CnameNoData])
            };
            let serial = {
                let g = st.lock().unwrap();
                0x0200_0000 + g.log.len() as u32
            };
            let res = build_response(msg, &qname_s, q.qtype(), flags, class, serial);
            let view = res.as_ref().ok().map(|m| dns::view(m.as_slice()).expect("stub response parses"));
            ev!(
                "upstream #{:x} {} {} {} {:?} -> {:?}{}",
                serial,
                qname_s,
                q.qclass(),
                q.qtype(),
                flags,
                class,
                match &view {
                    Some(v) => format!(" rcode={} recs={} ad={} aa={}", v.rcode, v.recs.len(), v.ad, v.aa),
                    None => String::new(),
                }
            );
            sim::stat(match class {
                RespClass::Positive => "up.positive",
                RespClass::CnameChain => "up.cname",
                RespClass::CnameNoData => "up.cname_nodata",
                RespClass::NoData => "up.nodata",
                RespClass::NxDomainSoa => "up.nxdomain_soa",
                RespClass::NxDomainNoSoa => "up.nxdomain_nosoa",
                RespClass::Delegation => "up.delegation",
                RespClass::Weird => "fault.up_weird",
                RespClass::MiscError => "fault.up_misc_error",
                RespClass::Truncated => "fault.up_truncated",
                RespClass::TransportError => "fault.up_transport_error",
            });
            st.lock().unwrap().log.push(Upstream {
                serial,
                t_ret_ns: sim::now_ns(),
                qname: qname_s.to_ascii_lowercase(),
                qtype: q.qtype(),
                qclass: q.qclass(),
                more,
                flags,
                opcode: h.opcode().to_int(),
                class,
                view,
            });
            res
        }
}

/// A positive answer of more than 16 KiB, written with name compression: the
/// address record with the serial, a filler TXT record sized so that the name
/// of the additional section's first record - it comes again in the second -
/// is first written at offset 0x3FFF, 0x4000 or 0x4001 (the last offset a
/// compression pointer can name is 0x3FFF). A cache that writes its copies
/// the same way meets the same offsets.
fn build_big_response(req: &Message<Vec<u8>>, qname: &str, flags: Flags, serial: u32) -> Option<Message<Bytes>> {
    // (Written octet by octet: the library's own compressing builder is what
    // a cache is likely to use, and is not to be trusted with this.)
    let target_off = 0x3FFF + sim::draw("up.big_name_offset", 3) as usize;
    if !qname.to_ascii_lowercase().trim_end_matches('.').ends_with(".cache") {
        return None;
    }
    let mb = MessageBuilder::from_target(Vec::new()).ok()?;
    let mut ab = mb.start_answer(req, Rcode::NOERROR).ok()?;
    ab.header_mut().set_ra(true);
    ab.header_mut().set_rd(flags.rd);
    ab.header_mut().set_cd(flags.cd);
    let mut m: Vec<u8> = ab.finish();
    let q_end = m.len();
    let cache_at = (q_end - 4 - 7) as u16; // "\x05cache\x00" ends the question name
    let rr = |m: &mut Vec<u8>, owner: &[u8], rtype: u16, ttl: u32, rdata: &[u8]| {
        m.extend_from_slice(owner);
        m.extend_from_slice(&rtype.to_be_bytes());
        m.extend_from_slice(&1u16.to_be_bytes());
        m.extend_from_slice(&ttl.to_be_bytes());
        m.extend_from_slice(&(rdata.len() as u16).to_be_bytes());
        m.extend_from_slice(rdata);
    };
    rr(&mut m, &[0xC0, 0x0C], 1, 3600, &serial.to_be_bytes());
    let mut remaining = target_off.checked_sub(m.len() + 12)?;
    let mut text = Vec::with_capacity(remaining);
    let mut i = 0u32;
    while remaining > 0 {
        let chunk = remaining.min(256);
        text.push((chunk - 1) as u8);
        for _ in 1..chunk {
            text.push(b'a' + (i % 26) as u8);
            i += 1;
        }
        remaining -= chunk;
    }
    rr(&mut m, &[0xC0, 0x0C], 16, 3600, &text);
    assert_eq!(m.len(), target_off);
    let label = format!("ns{:x}", serial);
    let mut ns = vec![label.len() as u8];
    ns.extend_from_slice(label.as_bytes());
    ns.extend_from_slice(&(0xC000 | cache_at).to_be_bytes());
    rr(&mut m, &ns, 1, 3600, &(serial ^ 0x4000_0000).to_be_bytes());
    let again = if target_off < 0x4000 { (0xC000 | target_off as u16).to_be_bytes().to_vec() } else { ns.clone() };
    rr(&mut m, &again, 28, 3600, &(serial as u128).to_be_bytes());
    let mut arcount = 2u16;
    if req.opt().is_some() {
        arcount += 1;
        m.extend_from_slice(&[0, 0, 41, 0x04, 0xD0, 0, 0, if flags.dnssec_ok { 0x80 } else { 0 }, 0, 0, 0]);
    }
    m[6..8].copy_from_slice(&2u16.to_be_bytes());
    m[8..10].copy_from_slice(&0u16.to_be_bytes());
    m[10..12].copy_from_slice(&arcount.to_be_bytes());
    sim::stat("probe.upstream_answer_beyond_the_pointer_limit");
    Message::from_octets(Bytes::from(m)).ok()
}

fn build_response(req: &Message<Vec<u8>>, qname: &str, qtype: Rtype, flags: Flags, class: RespClass, serial: u32) -> Result<Message<Bytes>, Error> {
    if class == RespClass::TransportError {
        return Err(Error::StreamReadTimeout);
    }
    if class == RespClass::Positive && qtype == Rtype::A && !NET_MODE.with(|c| c.get()) && sim::chance("up.big", 1, 20) {
        if let Some(m) = build_big_response(req, qname, flags, serial) {
            return Ok(m);
        }
    }
    let owner = dns::name(qname);
    let apex = dns::name("cache.");
    let rcode = match class {
        RespClass::NxDomainSoa | RespClass::NxDomainNoSoa => Rcode::NXDOMAIN,
        RespClass::MiscError => *sim::pick("up.err_rcode", &[Rcode::SERVFAIL, Rcode::REFUSED, Rcode::FORMERR]),
        _ => Rcode::NOERROR,
    };
    // An error whose code only shows in the OPT record's extended bits
    // (BADVERS 16, 19, BADCOOKIE 23, 0xFF3): the header's four bits alone
    // read NOERROR, NXDOMAIN, YXRRSET - it is a failure all the same and is
    // kept no longer than one.
    let ext_rcode: Option<u16> = if class == RespClass::MiscError && req.opt().is_some() && sim::chance("up.err_extended_rcode", 1, 3) { Some(*sim::pick("up.err_ext_rcode", &[16u16, 19, 23, 0xFF3])) } else { None };
    let rcode = match ext_rcode {
        Some(x) => {
            sim::stat("probe.upstream_error_with_extended_rcode");
            Rcode::masked_from_int((x & 0xf) as u8)
        }
        None => rcode,
    };
    let mb = MessageBuilder::new_vec();
    let mut ab = mb.start_answer(req, rcode).expect("start_answer");
    ab.header_mut().set_ra(true);
    ab.header_mut().set_aa(sim::chance("up.aa", 1, 3));
    ab.header_mut().set_rd(flags.rd);
    ab.header_mut().set_cd(flags.cd);
    if (flags.ad || flags.dnssec_ok) && sim::chance("up.ad", 1, 2) {
        ab.header_mut().set_ad(true);
    }
    if class == RespClass::Truncated {
        ab.header_mut().set_tc(true);
    }
    let ip = A::new(Ipv4Addr::from(serial));
    let sig = |covered: Rtype, ttl: u32| {
        Rrsig::<Vec<u8>, _>::new(
            covered,
            SecurityAlgorithm::ED25519,
            2,
            Ttl::from_secs(ttl),
            Timestamp::from(1_800_000_000),
            Timestamp::from(1_600_000_000),
            (serial & 0xffff) as u16,
            dns::name(&format!("sig{:x}.cache.", serial)),
            serial.to_be_bytes().to_vec(),
        )
        .expect("rrsig")
    };
    let push_data = |ab: &mut domain::base::message_builder::AnswerBuilder<Vec<u8>>, o: &dns::VName, ttl: u32| {
        if qtype == Rtype::TXT {
            let t = Txt::<Vec<u8>>::build_from_slice(format!("serial-{:x}", serial).as_bytes()).unwrap();
            ab.push((o, Class::IN, Ttl::from_secs(ttl), t)).unwrap();
        } else if qtype == Rtype::A {
            ab.push((o, Class::IN, Ttl::from_secs(ttl), ip.clone())).unwrap();
        } else if qtype == Rtype::NSEC {
            let mut bm = RtypeBitmap::<Vec<u8>>::builder();
            bm.add(Rtype::A).unwrap();
            bm.add(Rtype::NSEC).unwrap();
            ab.push((o, Class::IN, Ttl::from_secs(ttl), Nsec::new(dns::name(&format!("z{:x}.cache.", serial)), bm.finalize()))).unwrap();
        } else if qtype == Rtype::NSEC3 {
            let mut bm = RtypeBitmap::<Vec<u8>>::builder();
            bm.add(Rtype::A).unwrap();
            let next = domain::rdata::nsec3::OwnerHash::<Vec<u8>>::from_octets(serial.to_be_bytes().repeat(5)).unwrap();
            let salt = domain::rdata::nsec3::Nsec3Salt::<Vec<u8>>::from_octets(serial.to_be_bytes().to_vec()).unwrap();
            ab.push((o, Class::IN, Ttl::from_secs(ttl), domain::rdata::Nsec3::new(domain::base::iana::Nsec3HashAlgorithm::SHA1, 0, 1, salt, next, bm.finalize()))).unwrap();
        } else {
            // Explicit query for a DNSSEC type: answer with that type.
            ab.push((o, Class::IN, Ttl::from_secs(ttl), sig(Rtype::A, ttl))).unwrap();
        }
    };
    match class {
        RespClass::Positive | RespClass::Truncated => {
            let ttl = ttl_draw("up.ttl");
            push_data(&mut ab, &owner, ttl);
            if sim::chance("up.second_rr", 1, 3) && qtype == Rtype::A {
                let ttl2 = ttl_draw("up.ttl2");
                ab.push((&owner, Class::IN, Ttl::from_secs(ttl2), A::new(Ipv4Addr::from(serial ^ 0x8000_0000)))).unwrap();
            }
            if flags.dnssec_ok {
                ab.push((&owner, Class::IN, Ttl::from_secs(ttl), sig(qtype, ttl))).unwrap();
            }
        }
        RespClass::MiscError if ext_rcode.is_some() && sim::chance("up.err_ext_with_answer", 1, 2) => {
            // (with something in the answer section, as a positive answer has)
            let ttl = ttl_draw("up.ttl");
            push_data(&mut ab, &owner, ttl);
        }
        RespClass::CnameNoData => {
            let ttl = ttl_draw("up.ttl");
            let target = dns::name(&format!("t{:x}.cache.", serial));
            ab.push((&owner, Class::IN, Ttl::from_secs(ttl), Cname::new(target))).unwrap();
            if flags.dnssec_ok {
                ab.push((&owner, Class::IN, Ttl::from_secs(ttl), sig(Rtype::CNAME, ttl))).unwrap();
            }
        }
        RespClass::CnameChain => {
            let ttl = ttl_draw("up.ttl");
            let target = dns::name(&format!("t{:x}.cache.", serial));
            ab.push((&owner, Class::IN, Ttl::from_secs(ttl), Cname::new(target.clone()))).unwrap();
            if flags.dnssec_ok {
                ab.push((&owner, Class::IN, Ttl::from_secs(ttl), sig(Rtype::CNAME, ttl))).unwrap();
            }
            let ttl2 = ttl_draw("up.ttl2");
            push_data(&mut ab, &target, ttl2);
        }
        _ => {}
    }
    let mut au = ab.authority();
    let soa = Soa::new(
        dns::name("ns.cache."),
        dns::name("admin.cache."),
        Serial(serial),
        Ttl::from_secs(7200),
        Ttl::from_secs(3600),
        Ttl::from_secs(86400),
        Ttl::from_secs(300),
    );
    match class {
        RespClass::NoData | RespClass::NxDomainSoa | RespClass::CnameNoData => {
            let ttl = ttl_draw("up.soa_ttl");
            // RFC 2308 "type 1" negative answers carry NS records next to
            // the SOA, in whatever order: still a negative answer.
            let ns_pos = sim::draw("up.negative_with_ns", 4);
            let ns_ttl = if ns_pos == 1 || ns_pos == 2 { ttl_draw("up.ns_ttl") } else { 0 };
            if ns_pos == 1 {
                sim::stat("probe.negative_answer_with_ns_before_soa");
                au.push((&apex, Class::IN, Ttl::from_secs(ns_ttl), Ns::new(dns::name(&format!("ns{:x}.cache.", serial))))).unwrap();
            }
            au.push((&apex, Class::IN, Ttl::from_secs(ttl), soa)).unwrap();
            if ns_pos == 2 {
                au.push((&apex, Class::IN, Ttl::from_secs(ns_ttl), Ns::new(dns::name(&format!("ns{:x}.cache.", serial))))).unwrap();
            }
            if flags.dnssec_ok {
                au.push((&apex, Class::IN, Ttl::from_secs(ttl), sig(Rtype::SOA, ttl))).unwrap();
                let mut bm = RtypeBitmap::<Vec<u8>>::builder();
                bm.add(Rtype::NS).unwrap();
                bm.add(Rtype::SOA).unwrap();
                let nsec = Nsec::new(dns::name(&format!("z{:x}.cache.", serial)), bm.finalize());
                au.push((&apex, Class::IN, Ttl::from_secs(ttl), nsec)).unwrap();
            }
        }
        RespClass::Delegation => {
            let ttl = ttl_draw("up.ns_ttl");
            au.push((&apex, Class::IN, Ttl::from_secs(ttl), Ns::new(dns::name(&format!("ns{:x}.cache.", serial))))).unwrap();
        }
        RespClass::MiscError => {
            if sim::chance("up.err_soa", 1, 3) {
                au.push((&apex, Class::IN, Ttl::from_secs(ttl_draw("up.soa_ttl")), soa)).unwrap();
            }
        }
        _ => {}
    }
    let mut ad = au.additional();
    if class == RespClass::Delegation {
        let ttl = ttl_draw("up.glue_ttl");
        ad.push((dns::name(&format!("ns{:x}.cache.", serial)), Class::IN, Ttl::from_secs(ttl), ip)).unwrap();
        if flags.dnssec_ok {
            ad.push((dns::name(&format!("ns{:x}.cache.", serial)), Class::IN, Ttl::from_secs(ttl), sig(Rtype::A, ttl))).unwrap();
        }
    } else if matches!(class, RespClass::Positive | RespClass::CnameChain) && sim::chance("up.additional", 1, 3) {
        // Extra address of a name the answer mentions (with its signature
        // when DNSSEC records were asked for).
        let ttl = ttl_draw("up.glue_ttl");
        let extra = dns::name(&format!("x{:x}.cache.", serial));
        ad.push((&extra, Class::IN, Ttl::from_secs(ttl), A::new(Ipv4Addr::from(serial ^ 0x4000_0000)))).unwrap();
        if flags.dnssec_ok {
            ad.push((&extra, Class::IN, Ttl::from_secs(ttl), sig(Rtype::A, ttl))).unwrap();
        }
    }
    if req.opt().is_some() {
        ad.opt(|o| {
            o.set_udp_payload_size(1232);
            o.set_dnssec_ok(flags.dnssec_ok);
            if let Some(x) = ext_rcode {
                o.set_rcode(domain::base::iana::OptRcode::masked_from_int(x));
            }
            Ok(())
        })
        .unwrap();
    }
    let bytes: Bytes = ad.into_message().into_octets().into();
    Ok(Message::from_octets(bytes).expect("message"))
}

// ------------------------------------------------------------------ oracle

#[derive(Clone, Copy, Debug)]
struct Cfg {
    max_validity: u64,
    transport_failure: u64,
    misc_error: u64,
    nxdomain: u64,
    nodata: u64,
    delegation: u64,
    cache_truncated: bool,
    max_entries: u64,
}

fn is_dnssec(t: Rtype) -> bool {
    t == Rtype::RRSIG || t == Rtype::NSEC || t == Rtype::NSEC3
}

/// Independent classification of a logged upstream response (RFC 2308) and
/// the bound on the time it may be served from a cache under `cfg`.
fn validity_bound_s(u: &Upstream, cfg: &Cfg) -> u64 {
    let v = match &u.view {
        None => return cfg.transport_failure,
        Some(v) => v,
    };
    if v.tc && !cfg.cache_truncated {
        return 0;
    }
    let mut bound = cfg.max_validity;
    // (the full twelve bits: an extended rcode is an error whatever its low
    // four bits read)
    if v.full_rcode > 0xf {
        bound = bound.min(cfg.misc_error);
    } else if v.rcode == Rcode::NOERROR {
        let has_answer = v.recs.iter().any(|r| r.section == 1 && r.rtype == u.qtype && r.class == Class::IN);
        if !has_answer {
            let soa = v.recs.iter().any(|r| r.section == 2 && r.rtype == Rtype::SOA);
            let ns = v.recs.iter().any(|r| r.section == 2 && r.rtype == Rtype::NS);
            if soa {
                bound = bound.min(cfg.nodata);
            } else if ns {
                bound = bound.min(cfg.delegation);
            } else {
                return 0; // not cacheable
            }
        }
    } else if v.rcode == Rcode::NXDOMAIN {
        bound = bound.min(cfg.nxdomain);
    } else {
        bound = bound.min(cfg.misc_error);
    }
    for r in &v.recs {
        bound = bound.min(r.ttl as u64);
    }
    bound
}

struct Query {
    k: usize,
    qname: String,
    qtype: Rtype,
    qclass: Class,
    /// Further questions (lower-cased name, type); nearly always none.
    more: Vec<(String, Rtype)>,
    flags: Flags,
    opcode: u8,
    t_invoke: u64,
    t_return: u64,
    result: Result<View, String>,
}

fn serial_of(v: &View) -> Vec<u32> {
    // Serials are embedded in rdata texts; collect every one we can find.
    let mut out = Vec::new();
    for r in &v.recs {
        match r.rtype {
            Rtype::A => {
                if let Ok(ip) = r.rdata.parse::<Ipv4Addr>() {
                    let s = u32::from(ip) & 0x3fff_ffff;
                    out.push(s);
                }
            }
            Rtype::SOA => {
                if let Some(s) = r.rdata.split_whitespace().nth(2).and_then(|s| s.parse::<u32>().ok()) {
                    out.push(s);
                }
            }
            // (An NSEC3 record carries the serial as its salt.)
            Rtype::NSEC3 => {
                if let Some(s) = r.rdata.split_whitespace().nth(3).and_then(|s| u32::from_str_radix(s, 16).ok()) {
                    out.push(s);
                }
            }
            _ => {
                for pre in ["serial-", "sig", "ns", "t", "z"] {
                    for tok in r.rdata.split(|c: char| !c.is_ascii_alphanumeric() && c != '-') {
                        if let Some(hex) = tok.strip_prefix(pre) {
                            if hex.len() == 7 && hex.starts_with('2') {
                                if let Ok(s) = u32::from_str_radix(hex, 16) {
                                    out.push(s);
                                }
                            }
                        }
                    }
                }
            }
        }
    }
    out.sort();
    out.dedup();
    out
}

fn flags_compatible(q: &Flags, u: &Flags) -> Result<(), String> {
    if q.cd != u.cd {
        return Err("CD differs".into());
    }
    if q.rd && !u.rd {
        return Err("RD=1 query served from an RD=0 response".into());
    }
    if q.dnssec_ok && !u.dnssec_ok {
        return Err("DO=1 query served from a DO=0 response".into());
    }
    let q_ad = q.ad || q.dnssec_ok;
    let u_ad = u.ad || u.dnssec_ok;
    if q_ad && !u_ad {
        return Err("AD/DO query served from a response to a query without AD/DO".into());
    }
    Ok(())
}

fn check_query(q: &Query, log: &[Upstream], cfg: &Cfg) {
    let fail = |oracle: &str, sig: &str, detail: String| {
        sim::violation(
            P,
            oracle,
            sig.to_string(),
            format!("query k={} {} {} {:?} invoked at {:.3}s returned at {:.3}s: {}", q.k, q.qname, q.qtype, q.flags, q.t_invoke as f64 / 1e9, q.t_return as f64 / 1e9, detail),
        );
    };
    let lower = q.qname.to_ascii_lowercase();
    match &q.result {
        Err(e) => {
            // An error must be an upstream error for the same question and
            // compatible flags, no older than the transport-failure bound.
            let ok = log.iter().any(|u| {
                u.view.is_none()
                    && u.qname == lower
                    && u.qtype == q.qtype
                    && u.qclass == q.qclass
                    && u.more == q.more
                    && flags_compatible(&q.flags, &u.flags).is_ok()
                    && u.t_ret_ns <= q.t_return
                    && (q.t_invoke.saturating_sub(u.t_ret_ns)) <= cfg.transport_failure * 1_000_000_000
            });
            if !ok {
                fail("error-origin", "error-not-from-upstream-or-too-old", format!("got Err({}) but no upstream failure for this question within {} s explains it", e, cfg.transport_failure));
            }
        }
        Ok(r) => {
            let serials = serial_of(r);
            // Responses without any record (bare errors, weird) carry no
            // serial: match them by time/shape below.
            let cands: Vec<&Upstream> = if serials.is_empty() {
                log.iter()
                    .filter(|u| u.view.as_ref().is_some_and(|v| v.recs.is_empty()) && u.qname == lower && u.qtype == q.qtype && u.qclass == q.qclass && u.more == q.more && u.t_ret_ns <= q.t_return)
                    .collect()
            } else if serials.len() > 1 {
                fail("origin", "mixed-serials", format!("response mixes records of several upstream responses: {:x?}", serials));
                return;
            } else {
                log.iter().filter(|u| u.serial == serials[0]).collect()
            };
            if cands.is_empty() {
                fail("origin", "no-upstream-origin", format!("response (serials {:x?}, rcode {}) matches no upstream response", serials, r.rcode));
                return;
            }
            let mut last_err = String::new();
            for u in cands {
                match check_against(q, r, u, cfg) {
                    Ok(()) => return,
                    Err((sig, d)) => last_err = format!("{}|{}", sig, d),
                }
            }
            let (sig, d) = last_err.split_once('|').unwrap_or(("mismatch", ""));
            fail("aged-copy", sig, d.to_string());
        }
    }
}

fn check_against(q: &Query, r: &View, u: &Upstream, cfg: &Cfg) -> Result<(), (String, String)> {
    let e = |sig: &str, d: String| Err((sig.to_string(), format!("vs upstream #{:x} ({:?} at {:.3}s, flags {:?}): {}", u.serial, u.class, u.t_ret_ns as f64 / 1e9, u.flags, d)));
    let uv = u.view.as_ref().unwrap();
    if u.qname != q.qname.to_ascii_lowercase() || u.qtype != q.qtype || u.qclass != q.qclass || u.more != q.more {
        return e("wrong-question", format!("upstream response was for {} {} {} and {} more question(s) {:?}", u.qname, u.qclass, u.qtype, u.more.len(), u.more));
    }
    if u.t_ret_ns > q.t_return {
        return e("from-the-future", "upstream response is younger than the delivery".into());
    }
    if u.opcode != q.opcode {
        return e("other-opcode", format!("the request has opcode {}, that upstream response answered opcode {}", q.opcode, u.opcode));
    }
    let fresh = u.t_ret_ns >= q.t_invoke && u.flags == q.flags;
    if !fresh && q.opcode != 0 {
        return e("no-query-served-from-the-cache", format!("a request with opcode {} was answered with a response the upstream gave {:.3} s before it was made", q.opcode, q.t_invoke.saturating_sub(u.t_ret_ns) as f64 / 1e9));
    }
    if !fresh {
        if let Err(why) = flags_compatible(&q.flags, &u.flags) {
            return e("incompatible-flags", why);
        }
        // Staleness: the lookup happened at or after t_invoke.
        let age_ns = q.t_invoke.saturating_sub(u.t_ret_ns);
        let bound = validity_bound_s(u, cfg);
        if age_ns > bound * 1_000_000_000 {
            return e(
                &format!("stale/{:?}", u.class),
                format!("served at age {:.3} s but may be cached for at most {} s", age_ns as f64 / 1e9, bound),
            );
        }
    }
    // Question.
    let more_ok = r.questions.iter().skip(1).map(|x| (x.0.to_ascii_lowercase(), x.1)).collect::<Vec<_>>() == q.more;
    if r.questions.len() != 1 + q.more.len() || !more_ok || r.questions[0].0.to_ascii_lowercase() != u.qname || r.questions[0].1 != q.qtype || r.questions[0].2 != q.qclass {
        return e("question-changed", format!("question {:?}", r.questions));
    }
    // Header.
    if r.rcode != uv.rcode || r.tc != uv.tc || r.ra != uv.ra || !r.qr || r.cd != uv.cd {
        return e("header-changed", format!("rcode/tc/ra/cd {} {} {} {} vs upstream {} {} {} {}", r.rcode, r.tc, r.ra, r.cd, uv.rcode, uv.tc, uv.ra, uv.cd));
    }
    let want_rd = if !q.flags.rd && u.flags.rd && !fresh { false } else { uv.rd };
    if r.rd != want_rd {
        return e("rd-flag", format!("RD={} expected {}", r.rd, want_rd));
    }
    let q_ad = q.flags.ad || q.flags.dnssec_ok;
    if r.ad && (!q_ad || !uv.ad) {
        return e("ad-exposed", format!("AD=1 delivered (query AD/DO={}, upstream AD={})", q_ad, uv.ad));
    }
    if q_ad && uv.ad && !r.ad {
        return e("ad-lost", "AD cleared although the query asked for it".into());
    }
    if r.aa && !uv.aa {
        return e("aa-invented", "AA set but upstream did not set it".into());
    }
    // Records.
    let strip = !q.flags.dnssec_ok && u.flags.dnssec_ok && !fresh && !is_dnssec(q.qtype);
    let expect: Vec<&dns::Rec> = uv.recs.iter().filter(|x| !(strip && is_dnssec(x.rtype))).collect();
    if !q.flags.dnssec_ok && !is_dnssec(q.qtype) && !fresh && r.recs.iter().any(|x| is_dnssec(x.rtype)) {
        return e("dnssec-exposed", "DNSSEC records delivered to a query without DO".into());
    }
    if expect.len() != r.recs.len() {
        return e("record-count", format!("{} records, upstream had {} (after stripping: {})", r.recs.len(), uv.recs.len(), expect.len()));
    }
    let lo = if fresh { 0 } else { q.t_invoke.saturating_sub(u.t_ret_ns) / 1_000_000_000 };
    let hi = q.t_return.saturating_sub(u.t_ret_ns) / 1_000_000_000;
    let mut dec: Option<u64> = None;
    for (a, b) in r.recs.iter().zip(expect.iter()) {
        // Names inside rdata compare case-insensitively (compression against
        // the re-cased question may change their case).
        let same_rdata = match a.rtype {
            Rtype::NS | Rtype::CNAME | Rtype::SOA | Rtype::NSEC => a.rdata.eq_ignore_ascii_case(&b.rdata),
            _ => a.rdata == b.rdata,
        };
        if a.section != b.section || a.owner != b.owner || a.rtype != b.rtype || a.class != b.class || !same_rdata {
            return e("record-changed", format!("{:?} vs upstream {:?}", a, b));
        }
        if a.ttl > b.ttl {
            return e("ttl-increased", format!("{} {} ttl {} > upstream {}", a.owner, a.rtype, a.ttl, b.ttl));
        }
        let d = (b.ttl - a.ttl) as u64;
        match dec {
            None => dec = Some(d),
            Some(x) if x != d => return e("ttl-uneven", format!("records aged by different amounts ({} vs {})", x, d)),
            _ => {}
        }
    }
    if let Some(d) = dec {
        let lo = if fresh { 0 } else { lo };
        if d < lo || d > hi {
            return e(
                if d < lo { "ttl-not-aged" } else { "ttl-over-aged" },
                format!("TTLs reduced by {} s but the entry was {}..{} s old", d, lo, hi),
            );
        }
    }
    if r.opt.is_some() != uv.opt.is_some() && !strip {
        return e("opt-changed", format!("OPT {:?} vs upstream {:?}", r.opt, uv.opt));
    }
    Ok(())
}

// ---------------------------------------------------------------- scenario

pub struct CacheScn;

impl Scenario for CacheScn {
    fn name(&self) -> &'static str {
        "cache"
    }
    fn property(&self) -> &'static str {
        P
    }
    fn max_vtime(&self) -> Duration {
        Duration::from_secs(40 * 86400)
    }
    fn components(&self) -> (Vec<&'static str>, Vec<&'static str>) {
        (
            vec!["net::client::cache::{Connection, Config}", "moka::future::Cache", "base::Message / MessageBuilder", "tokio paused clock", "net::client::dgram::Connection between the cache and the upstream (one run in eight, over the simulated datagram network)"],
            vec!["upstream transport (SendRequest stub producing uniquely serialised responses)", "clients", "history oracle (aged-copy relation, RFC 2308 classification)"],
        )
    }
    fn rule(&self) -> &'static str {
        "1-4 client tasks issue up to 60 queries over 4 names x case variants x {A,TXT,RRSIG} x all RD/CD/AD/DO combinations with virtual gaps from 0 s to beyond every configured bound; the upstream stub answers each call with a uniquely serialised response of a drawn class (positive, CNAME, NODATA, NXDOMAIN with/without SOA, delegation, weird, error rcode, TC, transport failure) and TTLs from {0,1,5,30,60,3600,700000}; cache configuration (all seven bounds, cache_truncated, max entries down to 1; values outside the documented ranges, too) drawn per run; 25% of runs use only well-formed cacheable classes. One request in twelve is no query (NOTIFY/UPDATE/STATUS); one positive A answer in twenty is larger than 16 KiB with a name first written at offset 0x3FFF-0x4001 and used again; one run in eight the upstream is a peer behind the real datagram transport and a stray REFUSED with the request's ID and another question may arrive ahead of an answer."
    }
    fn assumptions(&self) -> Vec<&'static str> {
        vec![
            "the cache clearing AA on stored responses and copying the stored header (so the ID is not the requester's) is documented behaviour and accepted",
            "moka is trusted as a map with eviction; a miss is always acceptable",
        ]
    }
    fn nontrivial(&self, stats: &std::collections::BTreeMap<&'static str, u64>) -> bool {
        stats.get("probe.served_from_cache").copied().unwrap_or(0) > 0
    }
    fn run(&self, tier: Tier) -> Pin<Box<dyn Future<Output = ()>>> {
        Box::pin(run(tier))
    }
}

async fn run(_tier: Tier) {
    let faulty = sim::draw("faulty", 4) != 0;
    // What the configuration is asked for and what it takes: every setter
    // documents the range its value "has to be between" and clamps to it (an
    // NXDOMAIN or NODATA bound of three days is one day, RFC 2308 section 5).
    let asked = |label: &'static str, opts: &[u64], lo: u64, hi: u64| -> (u64, u64) {
        let a = *sim::pick(label, opts);
        if a < lo || a > hi {
            sim::stat("probe.config_value_outside_its_documented_range");
        }
        (a, a.clamp(lo, hi))
    };
    let max_validity = asked("cfg.max_validity", &[604_800, 60, 3600, 30, 10_000_000], 60, 6_048_000);
    let transport_failure = asked("cfg.transport_failure", &[30, 1, 300, 0, 3600], 1, 300);
    let misc_error = asked("cfg.misc_error", &[30, 1, 300, 0, 3600], 1, 300);
    let nxdomain = asked("cfg.nxdomain", &[3600, 60, 86_400, 259_200, 10], 60, 86_400);
    let nodata = asked("cfg.nodata", &[3600, 60, 86_400, 259_200, 10], 60, 86_400);
    let delegation = asked("cfg.delegation", &[1_000_000, 60, 3600, 10], 60, 1_000_000_000);
    let cfg = Cfg {
        max_validity: max_validity.1,
        transport_failure: transport_failure.1,
        misc_error: misc_error.1,
        nxdomain: nxdomain.1,
        nodata: nodata.1,
        delegation: delegation.1,
        cache_truncated: sim::chance("cfg.cache_truncated", 1, 3),
        max_entries: *sim::pick("cfg.max_entries", &[1000, 1, 3]),
    };
    ev!("cfg {:?} faulty={}", cfg, faulty);
    let mut c = cache::Config::new();
    c.set_max_validity(Duration::from_secs(max_validity.0));
    c.set_transport_failure_duration(Duration::from_secs(transport_failure.0));
    c.set_misc_error_duration(Duration::from_secs(misc_error.0));
    c.set_max_nxdomain_validity(Duration::from_secs(nxdomain.0));
    c.set_max_nodata_validity(Duration::from_secs(nodata.0));
    c.set_max_delegation_validity(Duration::from_secs(delegation.0));
    c.set_cache_truncated(cfg.cache_truncated);
    c.set_max_cache_entries(cfg.max_entries);

    // One run in eight the cache sits on the real datagram transport and the
    // upstream is a peer on the simulated network. Now and then a datagram
    // that is no answer to the request - right ID, another question, an
    // error code - arrives ahead of the answer (a late reply to somebody
    // else, a forgery): not something the upstream returned for the question.
    let net_mode = sim::chance("up.behind_a_real_transport", 1, 8);
    NET_MODE.with(|c| c.set(net_mode));
    let exec = Exec::new();
    let st = Arc::new(Mutex::new(UpState { log: Vec::new(), faulty }));
    let mut peer_task = None;
    let via = if net_mode {
        sim::stat("probe.upstream_behind_the_datagram_transport");
        let udp = UdpNet::new();
        let sock = udp.bind(addr(100, 53));
        let st = st.clone();
        let h = exec.spawn("upstream-peer", async move {
            loop {
                let (data, from) = sock.recv_from().await;
                let Ok(msg) = Message::from_octets(data) else { continue };
                let lat = sim::draw("up.latency_ms", 40);
                if lat > 0 {
                    tokio::time::sleep(Duration::from_millis(lat)).await;
                    sim::sync_clock();
                }
                if faulty && sim::chance("net.stray_error_datagram", 1, 3) {
                    sim::stat("fault.stray_error_datagram_ahead_of_the_answer");
                    let mut mb = MessageBuilder::new_vec();
                    mb.header_mut().set_id(msg.header().id());
                    mb.header_mut().set_qr(true);
                    mb.header_mut().set_rcode(Rcode::REFUSED);
                    let mut qb = mb.question();
                    qb.push((dns::name("other.example.net."), Rtype::AAAA)).unwrap();
                    ev!("a stray REFUSED for other.example.net. AAAA with the request's ID arrives");
                    sock.send_exact(from, qb.finish(), 0);
                    // (It gets there first.)
                    tokio::time::sleep(Duration::from_millis(1)).await;
                    sim::sync_clock();
                }
                if let Ok(resp) = upstream_answer(&st, &msg) {
                    sock.send_exact(from, resp.as_slice().to_vec(), 0);
                }
            }
        });
        peer_task = Some(h);
        let planner: Arc<dyn Fn(usize) -> DgConnectPlan + Send + Sync> = Arc::new(|_| DgConnectPlan::default());
        Some(Arc::new(dgram::Connection::new(SimDgConnector::new(&udp, 1, addr(100, 53), DgramFaults::default(), planner))))
    } else {
        None
    };
    let up = UpstreamStub { st, via };
    let conn = Rc::new(cache::Connection::with_config(up.clone(), c));
    let queries: Rc<RefCell<Vec<Query>>> = Rc::new(RefCell::new(Vec::new()));
    let n_clients = 1 + sim::draw("n_clients", 4) as usize;
    let clients_left = Rc::new(Cell::new(n_clients));
    let peer_id = peer_task.as_ref().map(|h| h.id);
    // Focus of this run: few names/types/flag bits make cache hits (and
    // flag-lattice fallbacks) frequent; wide runs exercise eviction.
    let n_names = 1 + sim::draw("focus.names", 4);
    let flag_mask = *sim::pick("focus.flag_mask", &[0b0001u64, 0b1111, 0b1001, 0b0101, 0b0011, 0b1000, 0b0100, 0b0000, 0b1101]);
    let n_types = 1 + sim::draw("focus.types", 5);
    let mut k = 0usize;
    for ci in 0..n_clients {
        let n = 1 + sim::draw("n_queries", 15) as usize;
        let ks: Vec<usize> = (k..k + n).collect();
        k += n;
        let conn = conn.clone();
        let queries = queries.clone();
        let (clients_left, exec2) = (clients_left.clone(), exec.clone());
        exec.spawn(format!("client{}", ci), async move {
            let _last_one_out = LastOneOut(clients_left, exec2, peer_id);
            for k in ks {
                // Gap before the query.
                let gap_s: u64 = match sim::draw("gap.kind", 10) {
                    0..=3 => 0,
                    4 | 5 => sim::draw("gap.short_s", 7),
                    6 => *sim::pick("gap.around", &[29, 30, 31, 59, 60, 61, 299, 300, 301]),
                    7 => *sim::pick("gap.long", &[3599, 3600, 3601, 86_400, 86_401]),
                    8 => *sim::pick("gap.huge", &[604_800, 700_001, 1_000_001]),
                    _ => sim::draw("gap.mid_s", 4000),
                };
                let gap_ms = gap_s * 1000 + if sim::chance("gap.sub_s", 1, 3) { sim::draw("gap.ms", 1000) } else { 0 };
                if gap_ms > 0 {
                    sim::sleep_ms(gap_ms).await;
                } else {
                    step().await;
                }
                if sim::stopped() {
                    return;
                }
                let ni = sim::draw("q.name", n_names);
                let qname = match sim::draw("q.case", 3) {
                    0 => format!("n{}.cache", ni),
                    1 => format!("N{}.Cache", ni),
                    _ => format!("n{}.CACHE", ni),
                };
                let qtype = [Rtype::A, Rtype::TXT, Rtype::RRSIG, Rtype::NSEC3, Rtype::NSEC][sim::draw("q.type", n_types) as usize];
                // Mostly the Internet class; now and then the same name and
                // type in another class, which is another question.
                let qclass = if sim::chance("q.other_class", 1, 10) { *sim::pick("q.class", &[Class::CH, Class::HS]) } else { Class::IN };
                // A second question now and then: a different question section
                // is a different question.
                let more: Vec<(String, Rtype)> = if sim::chance("q.second_question", 1, 12) {
                    vec![(format!("n{}.cache", sim::draw("q.name2", n_names)), [Rtype::A, Rtype::TXT][sim::draw("q.type2", 2) as usize])]
                } else {
                    Vec::new()
                };
                let fl = sim::draw("q.flags", 16) & flag_mask;
                let flags = Flags {
                    rd: fl & 1 != 0,
                    cd: fl & 2 != 0,
                    ad: fl & 4 != 0,
                    dnssec_ok: fl & 8 != 0,
                };
                let mut mb = MessageBuilder::new_vec();
                mb.header_mut().set_rd(flags.rd);
                mb.header_mut().set_cd(flags.cd);
                mb.header_mut().set_ad(flags.ad);
                // Now and then a message that is no query (NOTIFY, UPDATE,
                // STATUS) for the same names and types: it goes upstream and
                // gets its own answer, whatever the cache holds.
                let opcode: u8 = if sim::chance("q.other_opcode", 1, 12) {
                    sim::stat("probe.request_that_is_no_query");
                    *sim::pick("q.opcode", &[4u8, 5, 2])
                } else {
                    0
                };
                mb.header_mut().set_opcode(domain::base::iana::Opcode::from_int(opcode));
                let mut qb = mb.question();
                qb.push((Name::<Vec<u8>>::from_chars(qname.chars()).unwrap(), qtype, qclass)).unwrap();
                for (n2, t2) in &more {
                    qb.push((Name::<Vec<u8>>::from_chars(n2.chars()).unwrap(), *t2)).unwrap();
                }
                let mut req = RequestMessage::new(qb.into_message()).unwrap();
                if flags.dnssec_ok {
                    req.set_dnssec_ok(true);
                } else if sim::chance("q.plain_opt", 1, 4) {
                    req.set_udp_payload_size(1232);
                }
                // The request object may sit around for a while before its
                // response is asked for: what counts is the moment the answer
                // is looked up and served, not when the request was made.
                let mut gr = conn.send_request(req);
                if sim::chance("q.delay_before_get_response", 1, 6) {
                    sim::stat("probe.request_object_waits_before_get_response");
                    sim::sleep_ms(*sim::pick("q.delay_ms", &[1_000u64, 20_000, 150_000, 4_000_000, 500])).await;
                }
                let t_invoke = sim::now_ns();
                ev!("q k={} {} {} {} {:?} more={:?} invoke", k, qname, qclass, qtype, flags, more);
                // The caller may drop a pending get_response() (a timeout
                // around it) and ask again on the same request object - the
                // trait documents that as cancel safe: same answer.
                let res = if sim::chance("q.cancel_get_response", 1, 6) {
                    let mut tries = 0;
                    loop {
                        let patience = Duration::from_millis(sim::draw("q.cancel_after_ms", 45));
                        match tokio::time::timeout(patience, gr.get_response()).await {
                            Ok(r) => break r,
                            Err(_) => {
                                sim::stat("fault.get_response_cancelled");
                                tries += 1;
                                if tries >= 3 {
                                    break gr.get_response().await;
                                }
                            }
                        }
                    }
                } else {
                    gr.get_response().await
                };
                sim::sync_clock();
                let t_return = sim::now_ns();
                let result = match res {
                    Ok(m) => match dns::view(m.as_slice()) {
                        Some(v) => Ok(v),
                        None => {
                            sim::violation(P, "origin", "unparseable-response", format!("query k={} got a response that does not parse", k));
                            return;
                        }
                    },
                    Err(e) => Err(format!("{:?}", e)),
                };
                match &result {
                    Ok(v) => ev!("q k={} -> rcode={} recs={} serials={:x?} ttls={:?} ad={} rd={}", k, v.rcode, v.recs.len(), serial_of(v), v.recs.iter().map(|r| r.ttl).collect::<Vec<_>>(), v.ad, v.rd),
                    Err(e) => ev!("q k={} -> Err {}", k, e),
                };
                queries.borrow_mut().push(Query {
                    k,
                    qname,
                    qtype,
                    qclass,
                    more,
                    flags,
                    opcode,
                    t_invoke,
                    t_return,
                    result,
                });
            }
        });
    }
    exec.run().await;
    if sim::stopped() {
        return;
    }
    let log = up.st.lock().unwrap().log.clone();
    let qs = queries.borrow();
    let n_q = qs.len();
    sim::stat_add("counter.queries", n_q as u64);
    sim::stat_add("counter.upstream_calls", log.len() as u64);
    if n_q > log.len() {
        sim::stat_add("probe.served_from_cache", (n_q - log.len()) as u64);
    }
    for q in qs.iter() {
        check_query(q, &log, &cfg);
        if sim::stopped() {
            return;
        }
    }
    // An upstream response that may not be kept at all (a record with TTL 0,
    // a truncated one the configuration does not cache, one of no cacheable
    // kind) answers the request it was fetched for and nobody else - not
    // even a request made in the same instant.
    let mut users: std::collections::BTreeMap<u32, Vec<usize>> = std::collections::BTreeMap::new();
    for q in qs.iter() {
        if let Ok(v) = &q.result {
            if let [s] = serial_of(v)[..] {
                users.entry(s).or_default().push(q.k);
            }
        }
    }
    for u in &log {
        if validity_bound_s(u, &cfg) == 0 {
            if let Some(ks) = users.get(&u.serial).filter(|ks| ks.len() > 1) {
                sim::violation(P, "aged-copy", "uncacheable-response-served-more-than-once".to_string(), format!("upstream response #{:x} ({:?} at {:.3}s) may not be kept at all, yet queries {:?} were all answered with it", u.serial, u.class, u.t_ret_ns as f64 / 1e9, ks));
                return;
            }
        }
    }
}
