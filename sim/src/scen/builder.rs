//! C02 (narrow) — the message builder over a *failing sink*: space
//! exhaustion at every append point and push limits at the same positions,
//! for every compressor and the stream target. Real: MessageBuilder and its
//! section builders, Static/Tree/HashCompressor, StreamTarget, Message (read
//! back). Stub: `FaultySink` (the caller-supplied target buffer), the op
//! sequence generator, the list model.

use crate::core::runner::{Scenario, Tier};
use crate::core::sim;
use crate::dns;
use domain::base::iana::Class;
use domain::base::message_builder::{AdditionalBuilder, AnswerBuilder, AuthorityBuilder, PushError, QuestionBuilder};
use domain::base::name::Name;
use domain::base::wire::Composer;
use domain::base::{HashCompressor, MessageBuilder, Rtype, StaticCompressor, StreamTarget, TreeCompressor, Ttl};
use domain::rdata::{Cname, Mx, Ns, Soa, Txt, A};
use octseq::builder::{OctetsBuilder, ShortBuf, Truncate};
use std::cell::{Cell, RefCell};
use std::future::Future;
use std::net::Ipv4Addr;
use std::pin::Pin;
use std::rc::Rc;
use std::str::FromStr;
use std::time::Duration;

const P: &str = "C02";

// -------------------------------------------------------------- the sink

#[derive(Clone)]
struct SinkCtl {
    cap: Rc<Cell<usize>>,
    failed: Rc<Cell<u64>>,
    bytes: Rc<RefCell<Vec<u8>>>,
}

/// A target buffer that runs out of space at a chosen size.
struct FaultySink {
    ctl: SinkCtl,
}

impl OctetsBuilder for FaultySink {
    type AppendError = ShortBuf;
    fn append_slice(&mut self, slice: &[u8]) -> Result<(), ShortBuf> {
        let mut b = self.ctl.bytes.borrow_mut();
        if b.len() + slice.len() > self.ctl.cap.get() {
            self.ctl.failed.set(self.ctl.failed.get() + 1);
            return Err(ShortBuf);
        }
        b.extend_from_slice(slice);
        Ok(())
    }
}

impl Truncate for FaultySink {
    fn truncate(&mut self, len: usize) {
        let mut b = self.ctl.bytes.borrow_mut();
        if len < b.len() {
            b.truncate(len);
        }
    }
}

// The builder needs slice access; hand out a snapshot that lives as long as
// the sink (the RefCell content is never reallocated while borrowed here
// because all access is sequential on one thread).
impl AsRef<[u8]> for FaultySink {
    fn as_ref(&self) -> &[u8] {
        let b = self.ctl.bytes.borrow();
        unsafe { std::slice::from_raw_parts(b.as_ptr(), b.len()) }
    }
}

impl AsMut<[u8]> for FaultySink {
    fn as_mut(&mut self) -> &mut [u8] {
        let mut b = self.ctl.bytes.borrow_mut();
        unsafe { std::slice::from_raw_parts_mut(b.as_mut_ptr(), b.len()) }
    }
}

impl Composer for FaultySink {}

// ------------------------------------------------------------------ model

#[derive(Clone, Debug, PartialEq)]
enum RData {
    A(u32),
    Txt(usize, u8),
    Mx(u16, usize),
    Cname(usize),
    Ns(usize),
    Soa(usize, usize, u32),
    /// Entry k of `zone_rdata()`: record data of some other type, scanned
    /// from its presentation format.
    Zone(usize),
}

#[derive(Clone, Debug, PartialEq)]
enum Item {
    /// (name, type, class)
    Question(usize, Rtype, u16),
    Record(usize, u32, RData),
}

#[derive(Clone, Debug)]
enum Op {
    Push(Item),
    /// The same, but the record is one *parsed out of another message* in
    /// which its names are compressed (owner and rdata names come as bare
    /// pointers to names that end in pointers themselves): what a server does
    /// when it copies records from one message into another.
    PushParsed(Item),
    NextSection,
    /// Convert straight to the builder of another section: forwards (skipped
    /// sections stay empty) or backwards (that section's items stay, all
    /// later ones are dropped).
    /// (The flag: through the `From` implementations instead of the methods.)
    Goto(u8, bool),
    /// Back to the plain message builder (everything dropped), then on.
    ToBuilder(bool),
    /// Push one TXT record at the root sized so that the message would be
    /// exactly this many octets long (the 65535-octet boundary; in front of
    /// the 0x4000 pointer limit).
    FillTo(usize),
    /// Start the message as the answer to a request with this question
    /// (`MessageBuilder::start_answer` copies the question).
    StartAnswer(usize, Rtype, u16),
    Rewind,
    SetLimit(usize),
    ClearLimit,
    /// OPT with this payload size and raw options (code, length).
    /// (UDP size, options as (code, length), OPT header settings in order)
    Opt(u16, Vec<(u16, usize)>, Vec<HdrSet>, bool),
    /// The sink gets more room (as after the caller grew the buffer).
    Heal(usize),
    /// The same small record pushed this many times in a row (an unbounded
    /// target: more than a 16-bit count can say; the push that would wrap
    /// the count has to be refused).
    PushMany(Item, usize),
    /// Header flags set through `header_mut()`: AA, TC, RD, RA, AD, CD (bits
    /// 0-5). They stay as set whatever is pushed, refused or rolled back.
    Flags(u8),
}

fn names() -> Vec<String> {
    let long_label = "l".repeat(63);
    vec![
        "example.com.".into(),
        "www.example.com.".into(),
        "WWW.Example.COM.".into(),
        "mail.example.com.".into(),
        "a.b.c.example.com.".into(),
        "c.example.com.".into(),
        "example.org.".into(),
        "ftp.example.org.".into(),
        // Names whose labels are the leading labels of other names in the
        // pool (`example.` of `example.com.`, `www.example.` of
        // `www.example.com.`).
        "example.".into(),
        "www.example.".into(),
        ".".into(),
        format!("{l}.{l}.{l}.{s}.example.com.", l = long_label, s = "s".repeat(49)),
        format!("x.{l}.{l}.{l}.{s}.example.com.", l = long_label, s = "s".repeat(47)),
    ]
    .into_iter()
    .chain(ladder())
    .collect()
}

/// How many names at the end of the pool form the ladder.
const LADDER: usize = 26;

/// `r0.`, `r1.r0.`, `r2.r1.r0.`, ...: each name is the one before with a
/// label in front. Pushed in this order a compressor writes each of them as
/// one label and a pointer to the previous name, which ends in a pointer
/// itself: a reader of the last name follows a pointer per rung.
fn ladder() -> Vec<String> {
    let mut out: Vec<String> = Vec::new();
    for k in 0..LADDER {
        let prev = out.last().cloned().unwrap_or_default();
        out.push(format!("r{}.{}", k, prev));
    }
    out
}

fn nm(pool: &[String], i: usize) -> Name<Vec<u8>> {
    Name::<Vec<u8>>::from_str(&pool[i]).unwrap()
}

fn rdata_text(pool: &[String], rd: &RData) -> (Rtype, String) {
    let n = |i: &usize| pool[*i].to_ascii_lowercase();
    match rd {
        RData::A(v) => (Rtype::A, format!("{}", Ipv4Addr::from(*v))),
        RData::Txt(len, c) => (Rtype::TXT, format!("txt:{}:{}", len, c)),
        RData::Mx(p, i) => (Rtype::MX, format!("{} {}", p, n(i))),
        RData::Cname(i) => (Rtype::CNAME, n(i)),
        RData::Ns(i) => (Rtype::NS, n(i)),
        RData::Soa(a, b, s) => (Rtype::SOA, format!("{} {} {}", n(a), n(b), s)),
        RData::Zone(k) => {
            let t = zone_rdata();
            (t[*k].0, t[*k].2.clone())
        }
    }
}

/// Record data of the types the hand-written cases do not cover, as the
/// zone-file scanner produces it: names inside that are compressed (PTR, MB,
/// MINFO), names that never are (SRV, DNAME, RRSIG, NSEC, RP, SVCB, NAPTR),
/// data whose length is known in advance and data whose RDLENGTH is patched
/// in afterwards, an unknown type. With each entry the text a reader gets
/// back when the record went through a plain message without compressor.
type ZoneData = domain::rdata::ZoneRecordData<bytes::Bytes, Name<bytes::Bytes>>;

const ZONE_RDATA: &[&str] = &[
    "AAAA 2001:db8::1",
    "PTR www.example.com.",
    "MB mail.example.com.",
    "MINFO mail.example.com. a.b.c.example.com.",
    "SRV 10 20 443 www.example.com.",
    "DNAME example.org.",
    "HINFO \"cpu-x\" \"os y\"",
    "DNSKEY 257 3 13 mdsswUyr3DPW132mOi8V9xESWE8jTo0dxCjjnopKl+GqJxpVXckHAeF+KkxLbxILfDLUT0rAK9iUzy1L53eKGQ==",
    "DS 12345 13 2 0123456789abcdef0123456789abcdef0123456789abcdef0123456789abcdef",
    "RRSIG A 13 3 3600 20260101000000 20250101000000 12345 example.com. mdsswUyr3DPW132mOi8V9xESWE8jTo0dxCjjnopKl+GqJxpVXckHAeF+KkxLbxILfDLUT0rAK9iUzy1L53eKGQ==",
    "NSEC ftp.example.org. A MX RRSIG NSEC TYPE1234",
    "NSEC3 1 1 5 abcd 0123456789abcdefghijklmnopqrstuv A RRSIG",
    "NSEC3PARAM 1 0 5 abcd",
    "TYPE999 \\# 4 01020304",
    "TYPE65280 \\# 0",
    "CAA 0 issue \"ca.example\"",
    "TLSA 3 1 1 0123456789abcdef0123456789abcdef0123456789abcdef0123456789abcdef",
    "SSHFP 1 1 0123456789abcdef0123456789abcdef01234567",
    "RP mail.example.com. example.org.",
    "NAPTR 100 10 \"u\" \"sip+E2U\" \"!^.*$!sip:info@example.com!\" .",
    "SVCB 1 www.example.com. alpn=h2 port=443",
    "HTTPS 0 example.org.",
    "CDS 12345 13 2 0123456789abcdef0123456789abcdef0123456789abcdef0123456789abcdef",
    "CDNSKEY 257 3 13 mdsswUyr3DPW132mOi8V9xESWE8jTo0dxCjjnopKl+GqJxpVXckHAeF+KkxLbxILfDLUT0rAK9iUzy1L53eKGQ==",
    "ZONEMD 2018031900 1 1 0123456789abcdef0123456789abcdef0123456789abcdef0123456789abcdef0123456789abcdef0123456789abcdef",
    "OPENPGPKEY mdsswUyr3DPW132mOi8V9xESWE8jTo0dxCjjnopKl+GqJxpVXckHAeF+KkxLbxILfDLUT0rAK9iUzy1L53eKGQ==",
];

fn zone_rdata() -> Rc<Vec<(Rtype, ZoneData, String)>> {
    thread_local! {
        static TABLE: Rc<Vec<(Rtype, ZoneData, String)>> = Rc::new(build_zone_rdata());
    }
    TABLE.with(|t| t.clone())
}

fn build_zone_rdata() -> Vec<(Rtype, ZoneData, String)> {
    use domain::zonefile::inplace::{Entry, Zonefile};
    let mut out = Vec::new();
    for text in ZONE_RDATA {
        let mut zf = Zonefile::new();
        zf.extend_from_slice(format!("x.example.com. 60 IN {}\n", text).as_bytes());
        let data = match zf.next_entry() {
            Ok(Some(Entry::Record(rec))) => {
                use domain::base::name::FlattenInto;
                let rec: domain::base::Record<Name<bytes::Bytes>, ZoneData> = rec.flatten_into();
                rec.into_data()
            }
            // (A type this version of the scanner does not know: left out.)
            other => {
                if std::env::var_os("DSIM_TRACE").is_some() {
                    eprintln!("zone rdata table: {:?} left out ({:?})", text, other.map(|_| ()));
                }
                continue;
            }
        };
        let mut ab = MessageBuilder::new_vec().answer();
        ab.push((Name::<Vec<u8>>::root(), Class::IN, Ttl::from_secs(1), data.clone())).expect("plain message");
        let bytes = ab.finish();
        let v = dns::view(&bytes).expect("plain message parses");
        out.push((v.recs[0].rtype, data, v.recs[0].rdata.to_ascii_lowercase()));
    }
    assert!(out.len() >= 12, "zone rdata table: only {} of {} entries scanned", out.len(), ZONE_RDATA.len());
    out
}

fn txt_of(len: usize, c: u8) -> Txt<Vec<u8>> {
    let data: Vec<u8> = (0..len).map(|i| b'a' + ((i as u8).wrapping_add(c) % 26)).collect();
    Txt::<Vec<u8>>::build_from_slice(&data).unwrap()
}

thread_local! {
    /// This run pushes its records the way section-generic code does:
    /// through the `RecordSectionBuilder` trait.
    static PUSH_VIA_TRAIT: Cell<bool> = const { Cell::new(false) };
}

fn push_generic<T: Composer, B: domain::base::message_builder::RecordSectionBuilder<T>>(b: &mut B, rec: impl domain::base::record::ComposeRecord) -> Result<(), PushError> {
    b.push(rec)
}

/// The four typestate builders behind one interface.
enum Stage<T> {
    Q(QuestionBuilder<T>),
    An(AnswerBuilder<T>),
    Au(AuthorityBuilder<T>),
    Ad(AdditionalBuilder<T>),
    Gone,
}

impl<T: Composer> Stage<T> {
    fn section(&self) -> u8 {
        match self {
            Stage::Q(_) => 0,
            Stage::An(_) => 1,
            Stage::Au(_) => 2,
            Stage::Ad(_) => 3,
            Stage::Gone => 9,
        }
    }
    fn mb(&mut self) -> &mut MessageBuilder<T> {
        match self {
            Stage::Q(b) => b.as_builder_mut(),
            Stage::An(b) => b.as_builder_mut(),
            Stage::Au(b) => b.as_builder_mut(),
            Stage::Ad(b) => b.as_builder_mut(),
            Stage::Gone => unreachable!(),
        }
    }
    fn next(self) -> Self {
        match self {
            Stage::Q(b) => Stage::An(b.answer()),
            Stage::An(b) => Stage::Au(b.authority()),
            Stage::Au(b) => Stage::Ad(b.additional()),
            other => other,
        }
    }
    fn goto(self, to: u8, via_trait: bool) -> Self {
        if via_trait {
            // Generic code converts with `From`/`Into`.
            return match (self, to) {
                (Stage::Q(b), 1) => Stage::An(b.into()),
                (Stage::Q(b), 2) => Stage::Au(b.into()),
                (Stage::Q(b), 3) => Stage::Ad(b.into()),
                (Stage::An(b), 0) => Stage::Q(b.into()),
                (Stage::An(b), 2) => Stage::Au(b.into()),
                (Stage::An(b), 3) => Stage::Ad(b.into()),
                (Stage::Au(b), 0) => Stage::Q(b.into()),
                (Stage::Au(b), 1) => Stage::An(b.into()),
                (Stage::Au(b), 3) => Stage::Ad(b.into()),
                (Stage::Ad(b), 0) => Stage::Q(b.into()),
                (Stage::Ad(b), 1) => Stage::An(b.into()),
                (Stage::Ad(b), 2) => Stage::Au(b.into()),
                (other, _) => other,
            };
        }
        match (self, to) {
            (Stage::Q(b), 1) => Stage::An(b.answer()),
            (Stage::Q(b), 2) => Stage::Au(b.authority()),
            (Stage::Q(b), 3) => Stage::Ad(b.additional()),
            (Stage::An(b), 0) => Stage::Q(b.question()),
            (Stage::An(b), 2) => Stage::Au(b.authority()),
            (Stage::An(b), 3) => Stage::Ad(b.additional()),
            (Stage::Au(b), 0) => Stage::Q(b.question()),
            (Stage::Au(b), 1) => Stage::An(b.answer()),
            (Stage::Au(b), 3) => Stage::Ad(b.additional()),
            (Stage::Ad(b), 0) => Stage::Q(b.question()),
            (Stage::Ad(b), 1) => Stage::An(b.answer()),
            (Stage::Ad(b), 2) => Stage::Au(b.authority()),
            // The identity conversions (documented to do nothing).
            (Stage::Q(b), 0) => Stage::Q(b.question()),
            (Stage::An(b), 1) => Stage::An(b.answer()),
            (Stage::Au(b), 2) => Stage::Au(b.authority()),
            (Stage::Ad(b), 3) => Stage::Ad(b.additional()),
            (other, _) => other,
        }
    }
    fn to_builder(self, via_trait: bool) -> Self {
        if via_trait {
            return match self {
                Stage::Q(b) => Stage::Q(MessageBuilder::from(b).into()),
                Stage::An(b) => Stage::Q(MessageBuilder::from(b).into()),
                Stage::Au(b) => Stage::Q(MessageBuilder::from(b).into()),
                Stage::Ad(b) => Stage::Q(MessageBuilder::from(b).into()),
                Stage::Gone => Stage::Gone,
            };
        }
        match self {
            Stage::Q(b) => Stage::Q(b.builder().question()),
            Stage::An(b) => Stage::Q(b.builder().question()),
            Stage::Au(b) => Stage::Q(b.builder().question()),
            Stage::Ad(b) => Stage::Q(b.builder().question()),
            Stage::Gone => Stage::Gone,
        }
    }
    fn rewind(&mut self) {
        match self {
            Stage::Q(b) => b.rewind(),
            Stage::An(b) => b.rewind(),
            Stage::Au(b) => b.rewind(),
            Stage::Ad(b) => b.rewind(),
            Stage::Gone => {}
        }
    }
    fn push(&mut self, pool: &[String], item: &Item) -> Result<(), PushError> {
        match (self, item) {
            (Stage::Q(b), Item::Question(n, t, c)) => b.push((nm(pool, *n), *t, Class::from_int(*c))),
            (st, Item::Record(o, ttl, rd)) => {
                let owner = nm(pool, *o);
                let ttl = Ttl::from_secs(*ttl);
                macro_rules! push_rec {
                    ($data:expr) => {{
                        let rec = (owner, Class::IN, ttl, $data);
                        let via_trait = PUSH_VIA_TRAIT.with(|c| c.get());
                        match st {
                            Stage::An(b) if via_trait => push_generic(b, rec),
                            Stage::Au(b) if via_trait => push_generic(b, rec),
                            Stage::Ad(b) if via_trait => push_generic(b, rec),
                            Stage::An(b) => b.push(rec),
                            Stage::Au(b) => b.push(rec),
                            Stage::Ad(b) => b.push(rec),
                            _ => unreachable!(),
                        }
                    }};
                }
                match rd {
                    RData::A(v) => push_rec!(A::new(Ipv4Addr::from(*v))),
                    RData::Txt(len, c) => push_rec!(txt_of(*len, *c)),
                    RData::Mx(p, i) => push_rec!(Mx::new(*p, nm(pool, *i))),
                    RData::Cname(i) => push_rec!(Cname::new(nm(pool, *i))),
                    RData::Ns(i) => push_rec!(Ns::new(nm(pool, *i))),
                    RData::Soa(a, b, s) => push_rec!(Soa::new(
                        nm(pool, *a),
                        nm(pool, *b),
                        domain::base::Serial(*s),
                        Ttl::from_secs(1),
                        Ttl::from_secs(2),
                        Ttl::from_secs(3),
                        Ttl::from_secs(4)
                    )),
                    RData::Zone(k) => push_rec!(zone_rdata()[*k].1.clone()),
                }
            }
            _ => unreachable!(),
        }
    }
}

impl<T: Composer> Stage<T> {
    /// Push `item` (a record) by way of a compressed source message.
    fn push_parsed(&mut self, pool: &[String], item: &Item) -> Result<(), PushError> {
        use domain::base::{ParsedName, TreeCompressor as TC};
        use domain::rdata::AllRecordData;
        let Item::Record(o, _, _) = item else { unreachable!() };
        // Source: a record owned by the item's owner (so that the name is on
        // record), then the item twice - the second copy's names are bare
        // pointers to the first copy's, which end in pointers themselves.
        let mut src: Stage<TC<Vec<u8>>> = Stage::An(MessageBuilder::from_target(TC::new(Vec::new())).unwrap().answer());
        let lead = Item::Record(*o, 1, RData::A(7));
        src.push(pool, &lead).expect("source");
        src.push(pool, item).expect("source");
        src.push(pool, item).expect("source");
        let bytes = match src {
            Stage::An(b) => b.finish().into_target(),
            _ => unreachable!(),
        };
        let msg = domain::base::Message::from_octets(bytes.as_slice()).expect("source parses");
        let rec = msg.answer().expect("answer").nth(2).expect("third record").expect("parses");
        let rec = rec.into_record::<AllRecordData<_, ParsedName<_>>>().expect("record data").expect("known type");
        match self {
            Stage::An(b) => b.push(rec),
            Stage::Au(b) => b.push(rec),
            Stage::Ad(b) => b.push(rec),
            _ => unreachable!(),
        }
    }
}

#[derive(Clone, Copy, Debug, PartialEq)]
enum Comp {
    None,
    Static,
    Tree,
    Hash,
}

/// One setter of the OPT header, called inside the `opt()` closure.
#[derive(Clone, Copy, Debug, PartialEq)]
enum HdrSet {
    /// The 12-bit extended rcode (low four bits go to the message header).
    Rcode(u16),
    Version(u8),
    Do(bool),
}

/// (UDP size, options, full 12-bit rcode, version, DO)
type OptView = (u16, Vec<(u16, Vec<u8>)>, u16, u8, bool);

/// An OPT view with the option data abbreviated (for messages).
fn brief(o: &Option<OptView>) -> String {
    match o {
        None => "no OPT".into(),
        Some((size, opts, rcode, version, dnssec_ok)) => {
            let sum = |d: &Vec<u8>| d.iter().fold(0u32, |a, b| a.wrapping_mul(31).wrapping_add(*b as u32));
            format!("OPT(size {}, rcode {}, version {}, DO {}, options {:?})", size, rcode, version, dnssec_ok, opts.iter().map(|(c, d)| format!("{}:{}o#{:x}", c, d.len(), sum(d))).collect::<Vec<_>>())
        }
    }
}

/// What the model expects the message to contain.
#[derive(Clone, Default, Debug, PartialEq)]
struct Model {
    items: Vec<(u8, Item)>, // (section, item)
    opt: Option<OptView>,
    /// The message header's rcode bits (survive rewinds).
    rcode_low: u16,
    /// The header flags last set (AA, TC, RD, RA, AD, CD as bits 0-5).
    flags: u8,
}

fn expected_view(pool: &[String], m: &Model) -> (Vec<(String, Rtype, u16)>, Vec<(u8, String, Rtype, u32, String)>) {
    let mut qs = Vec::new();
    let mut rs = Vec::new();
    for (sec, it) in &m.items {
        match it {
            Item::Question(n, t, c) => qs.push((pool[*n].to_ascii_lowercase(), *t, *c)),
            Item::Record(o, ttl, rd) => {
                let (t, text) = rdata_text(pool, rd);
                rs.push((*sec, pool[*o].to_ascii_lowercase(), t, *ttl, text));
            }
        }
    }
    (qs, rs)
}

#[allow(clippy::type_complexity)]
fn actual_view(bytes: &[u8]) -> Result<(Vec<(String, Rtype, u16)>, Vec<(u8, String, Rtype, u32, String)>, Option<OptView>, [u16; 4], u16), String> {
    let v = dns::view(bytes).ok_or("message does not parse")?;
    let dot = |s: &str| if s.ends_with('.') { s.to_ascii_lowercase() } else { format!("{}.", s.to_ascii_lowercase()) };
    let qs = v.questions.iter().map(|(n, t, c)| (dot(n), *t, c.to_int())).collect();
    let mut rs = Vec::new();
    for r in &v.recs {
        let text = match r.rtype {
            Rtype::A => r.rdata.clone(),
            Rtype::TXT => {
                // Display of TXT is the quoted character strings; recover
                // (total length, first char offset).
                let raw: String = r.rdata.replace('"', "").replace(' ', "");
                let c = raw.bytes().next().map(|b| b.wrapping_sub(b'a') % 26).unwrap_or(0);
                format!("txt:{}:{}", raw.len(), c)
            }
            Rtype::MX => {
                let mut p = r.rdata.split_whitespace();
                format!("{} {}", p.next().unwrap_or(""), dot(p.next().unwrap_or("")))
            }
            Rtype::CNAME | Rtype::NS => dot(&r.rdata),
            Rtype::SOA => {
                let p: Vec<&str> = r.rdata.split_whitespace().collect();
                format!("{} {} {}", dot(p.first().unwrap_or(&"")), dot(p.get(1).unwrap_or(&"")), p.get(2).unwrap_or(&""))
            }
            _ => r.rdata.to_ascii_lowercase(),
        };
        rs.push((r.section, dot(&r.owner), r.rtype, r.ttl, text));
    }
    let counts = [
        u16::from_be_bytes([bytes[4], bytes[5]]),
        u16::from_be_bytes([bytes[6], bytes[7]]),
        u16::from_be_bytes([bytes[8], bytes[9]]),
        u16::from_be_bytes([bytes[10], bytes[11]]),
    ];
    // The OPT record with its options as raw (code, data) pairs.
    let opt = match v.opt {
        None => None,
        Some((size, dnssec_ok, version)) => {
            let m = domain::base::Message::from_octets(bytes).map_err(|_| "message does not parse")?;
            let o = m.opt().ok_or("OPT record vanished")?;
            let mut opts = Vec::new();
            for item in o.opt().iter::<domain::base::opt::UnknownOptData<_>>() {
                let u = item.map_err(|_| "OPT option does not parse")?;
                opts.push((u.code().to_int(), u.data().to_vec()));
            }
            Some((size, opts, v.full_rcode, version, dnssec_ok))
        }
    };
    let flags = (v.aa as u8) | (v.tc as u8) << 1 | (v.rd as u8) << 2 | (v.ra as u8) << 3 | (v.ad as u8) << 4 | (v.cd as u8) << 5;
    Ok((qs, rs, opt, counts, v.rcode.to_int() as u16 | (flags as u16) << 8))
}

/// Execute `ops` on a builder over a sink of capacity `cap`; check after
/// every op. Returns the message length after each op (for enumeration).
#[allow(clippy::too_many_arguments)]
fn execute<T: Composer>(pool: &[String], ops: &[Op], ctl: &SinkCtl, stream: bool, mk: impl FnOnce(FaultySink) -> Option<T>, label: &str, cap: usize, limit_at: Option<usize>) -> Option<Vec<usize>> {
    ctl.cap.set(cap);
    ctl.failed.set(0);
    ctl.bytes.borrow_mut().clear();
    let sink = FaultySink { ctl: ctl.clone() };
    let target = match mk(sink) {
        Some(t) => t,
        // No room even for the stream prefix: nothing to check (`None` would
        // read as "a violation was reported" and end the enumeration).
        None => return Some(vec![]),
    };
    let mb = match MessageBuilder::from_target(target) {
        Ok(mb) => mb,
        Err(_) => return Some(vec![]), // no room for the header: nothing to check
    };
    let mut st: Stage<T> = Stage::Q(mb.question());
    if let Some(l) = limit_at {
        st.mb().set_push_limit(l);
    }
    let mut model = Model::default();
    let mut lens = Vec::new();
    let prefix = if stream { 2 } else { 0 };
    sim::stat("counter.builder_executions");
    for (i, op) in ops.iter().enumerate() {
        let before = ctl.bytes.borrow().clone();
        let mut failed = false;
        let filled;
        let op = match op {
            Op::FillTo(target) => {
                let cur = ctl.bytes.borrow().len() - prefix.min(ctl.bytes.borrow().len());
                // owner "." (1) + type, class, TTL, RDLENGTH (10) + RDATA;
                // RDATA of a TXT of P octets is P + ceil(P / 255).
                let rdlen = target.saturating_sub(cur + 11);
                let root = pool.iter().position(|n| n == ".").unwrap_or(0);
                if !(1..=3).contains(&st.section()) || rdlen < 2 || rdlen > 65_000 {
                    lens.push(ctl.bytes.borrow().len());
                    continue;
                }
                let mut p = rdlen - rdlen.div_ceil(256);
                while p + p.div_ceil(255) < rdlen {
                    p += 1;
                }
                if p + p.div_ceil(255) != rdlen {
                    lens.push(ctl.bytes.borrow().len());
                    continue; // not every length is reachable (n*256 + 1)
                }
                sim::stat("probe.message_filled_to_the_65535_boundary");
                filled = Op::Push(Item::Record(root, 7, RData::Txt(p, 3)));
                &filled
            }
            other => other,
        };
        match op {
            Op::FillTo(_) => unreachable!(),
            Op::StartAnswer(n, t, c) => {
                if st.section() != 0 || !model.items.is_empty() {
                    lens.push(ctl.bytes.borrow().len());
                    continue;
                }
                let mut rb = MessageBuilder::new_vec();
                rb.header_mut().set_id(0x1234);
                let mut rq = rb.question();
                rq.push((nm(pool, *n), *t, Class::from_int(*c))).unwrap();
                let req = rq.into_message();
                let s = std::mem::replace(&mut st, Stage::Gone);
                let mb = match s {
                    Stage::Q(b) => b.builder(),
                    _ => unreachable!(),
                };
                match mb.start_answer(&req, domain::base::iana::Rcode::NOERROR) {
                    Ok(ab) => {
                        sim::stat("probe.started_as_answer_to_a_request");
                        st = Stage::An(ab);
                        model.items.push((0, Item::Question(*n, *t, *c)));
                    }
                    // The builder is gone: nothing further to look at.
                    Err(_) => return Some(lens),
                }
            }
            Op::Push(item) | Op::PushParsed(item) => {
                let sec = st.section();
                let parsed = matches!(op, Op::PushParsed(_));
                let ok_here = matches!((sec, item), (0, Item::Question(..)) | (1..=3, Item::Record(..))) && !(parsed && sec == 0);
                if !ok_here {
                    lens.push(ctl.bytes.borrow().len());
                    continue;
                }
                if parsed {
                    sim::stat("probe.record_parsed_from_a_compressed_message_pushed");
                }
                match if parsed { st.push_parsed(pool, item) } else { st.push(pool, item) } {
                    Ok(()) => model.items.push((sec, item.clone())),
                    Err(_) => failed = true,
                }
            }
            Op::NextSection => {
                let s = std::mem::replace(&mut st, Stage::Gone);
                st = s.next();
            }
            Op::Goto(to, via_trait) => {
                let s = std::mem::replace(&mut st, Stage::Gone);
                st = s.goto(*to, *via_trait);
                model.items.retain(|(s, _)| *s <= *to);
                if *to < 3 {
                    model.opt = None;
                }
                sim::stat("probe.section_conversion");
            }
            Op::ToBuilder(via_trait) => {
                let s = std::mem::replace(&mut st, Stage::Gone);
                st = s.to_builder(*via_trait);
                model.items.clear();
                model.opt = None;
            }
            Op::Rewind => {
                let sec = st.section();
                st.rewind();
                model.items.retain(|(s, _)| *s != sec);
                if sec == 3 {
                    model.opt = None;
                }
            }
            Op::SetLimit(l) => st.mb().set_push_limit(*l),
            Op::ClearLimit => st.mb().clear_push_limit(),
            Op::Heal(extra) => ctl.cap.set(ctl.cap.get() + extra),
            Op::PushMany(item, n) => {
                let sec = st.section();
                if !matches!((sec, item), (0, Item::Question(..)) | (1..=3, Item::Record(..))) {
                    lens.push(ctl.bytes.borrow().len());
                    continue;
                }
                let mut ok = 0usize;
                let mut len_before_refusal = None;
                for _ in 0..*n {
                    let l = ctl.bytes.borrow().len();
                    match st.push(pool, item) {
                        Ok(()) => ok += 1,
                        Err(_) => {
                            len_before_refusal = Some(l);
                            break;
                        }
                    }
                }
                for _ in 0..ok {
                    model.items.push((sec, item.clone()));
                }
                sim::stat("probe.same_record_pushed_tens_of_thousands_of_times");
                if let Some(l) = len_before_refusal {
                    sim::stat("fault.push_failed");
                    let now = ctl.bytes.borrow().len();
                    if now != l {
                        sim::violation(P, "failed-push-atomic", format!("octets-changed/{}", label), format!("op #{} {:?}: push {} of the series was refused but the message went from {} to {} octets", i, op, ok + 1, l, now));
                        return None;
                    }
                }
            }
            Op::Flags(f) => {
                let h = st.mb().header_mut();
                h.set_aa(f & 1 != 0);
                h.set_tc(f & 2 != 0);
                h.set_rd(f & 4 != 0);
                h.set_ra(f & 8 != 0);
                h.set_ad(f & 16 != 0);
                h.set_cd(f & 32 != 0);
                model.flags = *f;
                sim::stat("probe.header_flags_set");
            }
            Op::Opt(size, opts, hdr, via_record) => {
                if let Stage::Ad(b) = &mut st {
                    if model.opt.is_none() {
                        // (Code 12 is EDNS padding, written through the typed
                        // `padding()` helper: that many zero octets.)
                        let datas: Vec<(u16, Vec<u8>)> = opts.iter().map(|(c, l)| (*c, if *c == 12 { vec![0u8; *l] } else { (0..*l).map(|i| (i as u8).wrapping_mul(7).wrapping_add(*c as u8)).collect() })).collect();
                        // The same OPT record as a value (read from a
                        // message of its own): what a proxy copies over
                        // with `OptBuilder::clone_from`.
                        let scratch_msg;
                        let as_value = if *via_record {
                            let mut scratch = MessageBuilder::new_vec().additional();
                            scratch
                                .opt(|o| {
                                    o.set_udp_payload_size(*size);
                                    for h in hdr {
                                        match h {
                                            HdrSet::Rcode(r) => o.set_rcode(domain::base::iana::OptRcode::masked_from_int(*r)),
                                            HdrSet::Version(v) => o.set_version(*v),
                                            HdrSet::Do(d) => o.set_dnssec_ok(*d),
                                        }
                                    }
                                    for (c, d) in &datas {
                                        o.push_raw_option(domain::base::iana::OptionCode::from_int(*c), d.len() as u16, |t| t.append_slice(d))?;
                                    }
                                    Ok(())
                                })
                                .expect("a Vec has room");
                            sim::stat("probe.opt_record_copied_as_a_value");
                            scratch_msg = scratch.into_message();
                            scratch_msg.opt()
                        } else {
                            None
                        };
                        match b.opt(|o| {
                            if let Some(rec) = &as_value {
                                o.clone_from(rec)?;
                                // (The low four bits of the rcode live in
                                // the header.)
                                for h in hdr {
                                    if let HdrSet::Rcode(r) = h {
                                        o.set_rcode(domain::base::iana::OptRcode::masked_from_int(*r));
                                    }
                                }
                                return Ok(());
                            }
                            o.set_udp_payload_size(*size);
                            for h in hdr {
                                match h {
                                    HdrSet::Rcode(r) => o.set_rcode(domain::base::iana::OptRcode::masked_from_int(*r)),
                                    HdrSet::Version(v) => o.set_version(*v),
                                    HdrSet::Do(d) => o.set_dnssec_ok(*d),
                                }
                            }
                            for (c, d) in &datas {
                                if *c == 12 {
                                    o.padding(d.len() as u16)?;
                                } else {
                                    o.push_raw_option(domain::base::iana::OptionCode::from_int(*c), d.len() as u16, |t| t.append_slice(d))?;
                                }
                            }
                            Ok(())
                        }) {
                            Ok(()) => {
                                let mut ext = 0u16;
                                let (mut version, mut dnssec_ok) = (0u8, false);
                                for h in hdr {
                                    match h {
                                        HdrSet::Rcode(r) => {
                                            ext = r >> 4;
                                            model.rcode_low = r & 0xf;
                                        }
                                        HdrSet::Version(v) => version = *v,
                                        HdrSet::Do(d) => dnssec_ok = *d,
                                    }
                                }
                                model.opt = Some((*size, datas, (ext << 4) | model.rcode_low, version, dnssec_ok));
                            }
                            Err(_) => failed = true,
                        }
                    }
                }
            }
        }
        let after = ctl.bytes.borrow().clone();
        lens.push(after.len());
        // The builder's own view of the message is what the target holds.
        if after.len() >= prefix + 12 {
            let live = st.mb().as_slice().to_vec();
            if live != after[prefix..] {
                sim::violation(P, "parse-back", format!("builder-view-differs-from-target/{}", label), format!("after op #{} {:?}: as_slice() has {} octets, the target {}", i, op, live.len(), after.len() - prefix));
                return None;
            }
        }
        if failed {
            sim::stat("fault.push_failed");
            // (a) a failed push leaves octets and counts exactly as before.
            if after != before {
                let d = after.iter().zip(before.iter()).position(|(a, b)| a != b).unwrap_or(after.len().min(before.len()));
                sim::violation(
                    P,
                    "failed-push-atomic",
                    format!("octets-changed/{}", label),
                    format!("op #{} {:?} failed (cap {}, limit {:?}) but the octets changed: {} -> {} octets, first difference at {}", i, op, cap, limit_at, before.len(), after.len(), d),
                );
                return None;
            }
        }
        // (b) the message parses back to exactly the accepted items.
        if after.len() >= prefix + 12 {
            if stream {
                let announced = u16::from_be_bytes([after[0], after[1]]) as usize;
                if announced != after.len() - 2 {
                    sim::violation(P, "stream-prefix", format!("length-prefix-wrong/{}", label), format!("after op #{} {:?} (failed={}) the stream prefix says {} but the message has {} octets", i, op, failed, announced, after.len() - 2));
                    return None;
                }
            }
            let msg = &after[prefix..];
            let (eq, er) = expected_view(pool, &model);
            match actual_view(msg) {
                Err(e) => {
                    sim::violation(P, "parse-back", format!("unparseable/{}", label), format!("after op #{} {:?} (failed={}, cap {}, limit {:?}): {}", i, op, failed, cap, limit_at, e));
                    return None;
                }
                Ok((aq, ar, aopt, counts, hdr)) => {
                    // (low octet: the header's rcode; high octet: its flags)
                    let (hdr_rcode, got_flags) = (hdr & 0xff, (hdr >> 8) as u8);
                    if got_flags != model.flags {
                        sim::violation(P, if failed { "failed-push-atomic" } else { "parse-back" }, format!("header-flags/{}", label), format!("after op #{} {:?} (failed={}): the header flags (AA TC RD RA AD CD) read {:06b}, last set {:06b}", i, op, failed, got_flags, model.flags));
                        return None;
                    }
                    if hdr_rcode != model.rcode_low {
                        sim::violation(P, "parse-back", format!("header-rcode/{}", label), format!("after op #{} {:?} (failed={}): the header's rcode reads {}, last successfully set {}", i, op, failed, hdr_rcode, model.rcode_low));
                        return None;
                    }
                    let want_counts = [
                        eq.len() as u16,
                        er.iter().filter(|r| r.0 == 1).count() as u16,
                        er.iter().filter(|r| r.0 == 2).count() as u16,
                        er.iter().filter(|r| r.0 == 3).count() as u16 + model.opt.is_some() as u16,
                    ];
                    if counts != want_counts {
                        sim::violation(
                            P,
                            if failed { "failed-push-atomic" } else { "parse-back" },
                            format!("{}/{}", if failed { "counts-changed" } else { "counts-wrong" }, label),
                            format!("after op #{} {:?} (failed={}, cap {}, limit {:?}) header counts are {:?}, {} items were accepted: {:?}", i, op, failed, cap, limit_at, counts, model.items.len(), want_counts),
                        );
                        return None;
                    }
                    if aq != eq || ar != er || aopt != model.opt {
                        let bad = ar.iter().zip(er.iter()).find(|(a, b)| a != b).map(|(a, b)| format!("read {:?}, pushed {:?}", a, b)).unwrap_or_else(|| format!("questions {:?} vs {:?}, opt {} vs {}, {} vs {} records", aq, eq, brief(&aopt), brief(&model.opt), ar.len(), er.len()));
                        let name_issue = ar.iter().zip(er.iter()).any(|(a, b)| a != b && a.2 == b.2 && a.3 == b.3);
                        sim::violation(
                            P,
                            "parse-back",
                            format!("{}/{}", if name_issue { "wrong-name-or-data" } else { "items-differ" }, label),
                            format!("after op #{} {:?} (failed={}, cap {}, limit {:?}): {}", i, op, failed, cap, limit_at, bad),
                        );
                        return None;
                    }
                }
            }
        }
    }
    Some(lens)
}

fn gen_ops(pool: &[String], size_class: u64) -> Vec<Op> {
    let n = 3 + sim::draw("ops.n", 22) as usize;
    let mut ops = Vec::new();
    let nn = pool.len() - LADDER;
    // Names restricted to a few per run so that compression kicks in.
    let fav: Vec<usize> = (0..3).map(|_| sim::draw("ops.fav_name", nn as u64) as usize).collect();
    let pick_name = || -> usize {
        if sim::chance("ops.any_name", 1, 4) {
            sim::draw("ops.name", nn as u64) as usize
        } else {
            fav[sim::draw("ops.fav", 3) as usize]
        }
    };
    let mut section = 0;
    if sim::chance("ops.start_answer", 1, 5) {
        ops.push(Op::StartAnswer(pick_name(), *sim::pick("ops.qtype", &[Rtype::A, Rtype::MX, Rtype::TXT]), *sim::pick("ops.qclass", &[1u16, 3, 255, 254])));
        section = 1;
    }
    for _ in 0..n {
        match sim::draw("ops.kind", 20) {
            0 | 1 if section < 3 => {
                ops.push(Op::NextSection);
                section += 1;
            }
            2 => ops.push(Op::Rewind),
            7 if sim::chance("ops.goto", 1, 2) => {
                // (Also to the section the builder is in: a helper that
                // takes "any builder" converts without looking.)
                let to = sim::draw("ops.goto_to", 4) as u8;
                ops.push(Op::Goto(to, sim::chance("ops.goto_via_trait", 1, 3)));
                section = to;
            }
            8 if sim::chance("ops.to_builder", 1, 4) => {
                ops.push(Op::ToBuilder(sim::chance("ops.to_builder_via_trait", 1, 3)));
                section = 0;
            }
            3 => ops.push(Op::SetLimit(12 + sim::draw("ops.limit", 700) as usize)),
            4 => ops.push(Op::ClearLimit),
            5 if section == 3 => {
                let n = sim::draw("ops.opt_n_options", 4) as usize;
                let opts: Vec<(u16, usize)> = (0..n)
                    .map(|i| {
                        if sim::chance("ops.opt_padding", 1, 4) {
                            (12u16, *sim::pick("ops.opt_padding_len", &[0usize, 1, 31, 99, 100, 101, 200, 468, 1000]))
                        } else {
                            (65_001 + i as u16, *sim::pick("ops.opt_option_len", &[0usize, 1, 8, 40, 300]))
                        }
                    })
                    .collect();
                let hdr: Vec<HdrSet> = (0..sim::draw("ops.opt_n_hdr", 4))
                    .map(|_| match sim::draw("ops.opt_hdr", 4) {
                        0 | 3 => HdrSet::Rcode(*sim::pick("ops.opt_rcode", &[0u16, 5, 16, 23, 0xABC])),
                        1 => HdrSet::Version(*sim::pick("ops.opt_version", &[0u8, 1, 255])),
                        _ => HdrSet::Do(sim::chance("ops.opt_do", 1, 2)),
                    })
                    .collect();
                ops.push(Op::Opt(*sim::pick("ops.opt_size", &[1232u16, 512, 4096]), opts, hdr, sim::chance("ops.opt_via_record", 1, 3)));
            }
            6 => ops.push(Op::Heal(1 + sim::draw("ops.heal", 300) as usize)),
            9 if sim::chance("ops.flags", 1, 2) => ops.push(Op::Flags(sim::draw("ops.flag_bits", 64) as u8)),
            _ => {
                if section == 0 {
                    if sim::chance("ops.leave_question", 1, 3) {
                        ops.push(Op::NextSection);
                        section += 1;
                    } else {
                        ops.push(Op::Push(Item::Question(pick_name(), *sim::pick("ops.qtype", &[Rtype::A, Rtype::MX, Rtype::TXT]), *sim::pick("ops.qclass", &[1u16, 1, 1, 3, 255, 254]))));
                        continue;
                    }
                }
                let owner = pick_name();
                let ttl = match sim::draw("ops.ttl", 8) {
                    k @ 0..=3 => k as u32 * 100,
                    4 => 0x7fff_ffff,
                    5 => 0x8000_0000,
                    6 => 0xffff_ffff,
                    _ => sim::draw("ops.ttl_any", 1 << 32) as u32,
                };
                let rd = match sim::draw("ops.rtype", 9) {
                    7 | 8 => {
                        sim::stat("probe.record_of_a_further_type");
                        RData::Zone(sim::draw("ops.zone_rdata", zone_rdata().len() as u64) as usize)
                    }
                    0 | 1 => RData::A(sim::draw("ops.a", 1 << 16) as u32),
                    2 => {
                        let len = match size_class {
                            0 => 1 + sim::draw("ops.txt_small", 60) as usize,
                            1 => 200 + sim::draw("ops.txt_mid", 55) as usize,
                            2 => 255 * (1 + sim::draw("ops.txt_big", 8) as usize),
                            3 => 255 * (8 + sim::draw("ops.txt_huge", 24) as usize),
                            _ => 255 * (30 + sim::draw("ops.txt_max", 60) as usize),
                        };
                        RData::Txt(len, sim::draw("ops.txt_c", 26) as u8)
                    }
                    3 => RData::Mx(sim::draw("ops.mx_pref", 100) as u16, pick_name()),
                    4 => RData::Cname(pick_name()),
                    5 => RData::Ns(pick_name()),
                    _ => RData::Soa(pick_name(), pick_name(), sim::draw("ops.serial", 1000) as u32),
                };
                // (Huge TXT data does not go through a second message.)
                let small = !matches!(rd, RData::Txt(l, _) if l > 2000);
                if small && sim::chance("ops.via_parsed", 1, 6) {
                    ops.push(Op::PushParsed(Item::Record(owner, ttl, rd)));
                } else {
                    ops.push(Op::Push(Item::Record(owner, ttl, rd)));
                }
            }
        }
    }
    if size_class <= 2 && sim::chance("ops.ladder", 1, 10) {
        // Names that each extend the one before by a label, in that order,
        // then the ordinary operations' records.
        sim::stat("probe.name_behind_a_long_chain_of_pointers");
        let rungs = 12 + sim::draw("ops.ladder_rungs", (LADDER - 11) as u64) as usize;
        let tail: Vec<Op> = ops.drain(..).filter(|o| matches!(o, Op::Push(Item::Record(..)) | Op::PushParsed(Item::Record(..)) | Op::Rewind)).collect();
        ops.push(Op::NextSection);
        for k in 0..rungs {
            ops.push(Op::Push(Item::Record(nn + k, 60, RData::A(k as u32))));
        }
        ops.push(Op::Push(Item::Record(nn + rungs - 1, 60, RData::Ns(nn + rungs - 1))));
        ops.extend(tail);
        return ops;
    }
    if size_class == 5 && sim::chance("ops.count_wrap", 1, 6) {
        // An unbounded target and more records of one section than a 16-bit
        // count can say: 65535 go in, the next one is refused.
        ops.clear();
        let (sec, item) = if sim::chance("ops.count_wrap_questions", 1, 3) {
            (0u8, Item::Question(pool.iter().position(|n| n == ".").unwrap_or(0), Rtype::A, 1))
        } else {
            (1 + sim::draw("ops.count_wrap_section", 3) as u8, Item::Record(pool.iter().position(|n| n == ".").unwrap_or(0), 60, RData::A(9)))
        };
        for _ in 0..sec {
            ops.push(Op::NextSection);
        }
        ops.push(Op::PushMany(item.clone(), 65_530 + sim::draw("ops.count_wrap_n", 12) as usize));
        ops.push(Op::Push(item));
        return ops;
    }
    if size_class == 5 {
        // An unbounded target and an OPT record whose options add up to more
        // than an RDLENGTH can say: the push has to be refused (and rolled
        // back), whatever room there is.
        while section < 3 {
            ops.push(Op::NextSection);
            section += 1;
        }
        let (a, b) = *sim::pick("ops.huge_opt", &[(40_000usize, 30_000usize), (65_000, 600), (65_531, 0), (65_532, 0), (30_000, 30_000)]);
        ops.push(Op::Opt(1232, vec![(65_001, a), (65_002, b)], vec![], false));
        ops.push(Op::Push(Item::Record(pick_name(), 60, RData::A(5))));
    }
    if size_class == 4 {
        if section == 0 {
            ops.push(Op::NextSection);
        }
        ops.push(Op::FillTo(65_533 + sim::draw("ops.fill_to", 5) as usize));
    }
    if size_class == 3 {
        // A record whose owner name starts exactly at, just before or just
        // behind offset 0x4000 (the last one a compression pointer can
        // address is 0x3FFF), then names that share its suffix.
        if section == 0 {
            ops.push(Op::NextSection);
        }
        ops.push(Op::FillTo(0x3FFF + sim::draw("ops.fill_to_ptr_limit", 3) as usize));
        // Preferably a name no earlier record mentions (so that its labels
        // are written out at that offset rather than pointed to).
        let used: Vec<usize> = ops
            .iter()
            .flat_map(|o| match o {
                Op::Push(Item::Record(o, _, rd)) | Op::PushParsed(Item::Record(o, _, rd)) => {
                    let mut v = vec![*o];
                    match rd {
                        RData::Mx(_, i) | RData::Cname(i) | RData::Ns(i) => v.push(*i),
                        RData::Soa(a, b, _) => {
                            v.push(*a);
                            v.push(*b);
                        }
                        _ => {}
                    }
                    v
                }
                Op::Push(Item::Question(n, _, _)) | Op::StartAnswer(n, _, _) => vec![*n],
                _ => vec![],
            })
            .collect();
        let fresh: Vec<usize> = (0..nn).filter(|i| !used.contains(i) && pool[*i] != ".").collect();
        let base = if fresh.is_empty() { pick_name() } else { fresh[sim::draw("ops.fresh_name", fresh.len() as u64) as usize] };
        ops.push(Op::Push(Item::Record(base, 60, RData::A(1))));
        for _ in 0..2 + sim::draw("ops.after_ptr_limit", 3) {
            let o = if sim::chance("ops.same_suffix", 2, 3) { base } else { pick_name() };
            let rd = if sim::chance("ops.rdata_name", 1, 2) { RData::Ns(base) } else { RData::Mx(10, pick_name()) };
            ops.push(Op::Push(Item::Record(o, 60, rd)));
        }
    }
    ops
}

pub struct BuilderScn;

impl Scenario for BuilderScn {
    fn name(&self) -> &'static str {
        "builder"
    }
    fn property(&self) -> &'static str {
        P
    }
    fn max_vtime(&self) -> Duration {
        Duration::from_secs(60)
    }
    fn components(&self) -> (Vec<&'static str>, Vec<&'static str>) {
        (
            vec!["base::message_builder::{MessageBuilder, Question/Answer/Authority/AdditionalBuilder, OptBuilder}", "StaticCompressor, TreeCompressor, HashCompressor", "StreamTarget", "base::Message (read back), rdata compose of A/TXT/MX/CNAME/NS/SOA and 26 further types scanned from presentation format (AAAA PTR MB MINFO SRV DNAME HINFO DNSKEY DS RRSIG NSEC NSEC3 NSEC3PARAM CAA TLSA SSHFP RP NAPTR SVCB HTTPS CDS CDNSKEY ZONEMD OPENPGPKEY and two unknown types)"],
            vec!["FaultySink: the caller-supplied target buffer, failing with ShortBuf at a chosen size and 'healing' on request", "operation sequence generator", "list model of accepted items"],
        )
    }
    fn rule(&self) -> &'static str {
        "one evaluation = one seeded operation sequence (3-24 ops: push question/record with names from a pool with shared suffixes, case variants, the root and 255-octet names and rdata A/TXT/MX/CNAME/NS/SOA plus 26 further types scanned from presentation format, and TTLs over the whole 32-bit range; next section; direct conversion to any other section builder or back to the message builder; rewind; set/clear push limit; opt; heal) executed fault-free and then re-executed once per fault point: sink capacity at EVERY octet offset up to the fault-free length (first 1500 offsets, then every 37th) and a push limit at every 3rd such position, for one compressor kind (none/static/tree/hash) x plain/stream target; after every op the octets and counts must be unchanged if the op failed, the stream prefix must equal the length, and the message must parse back to exactly the accepted items with the pushed names. counter.builder_executions = number of builder runs."
    }
    fn assumptions(&self) -> Vec<&'static str> {
        vec![
            "narrow claim: the fault (space exhaustion / push limit) half of C02 is enumerated for the sampled sequences; the input half (all names, all record types, all targets) is only sampled",
            "octseq's OctetsBuilder contract ('on error leaves the builder alone') is honoured by the sink, i.e. no torn appends",
        ]
    }
    fn nontrivial(&self, stats: &std::collections::BTreeMap<&'static str, u64>) -> bool {
        stats.get("fault.push_failed").copied().unwrap_or(0) > 0
    }
    fn run(&self, tier: Tier) -> Pin<Box<dyn Future<Output = ()>>> {
        Box::pin(async move { run(tier) })
    }
}

fn run(tier: Tier) {
    let pool = names();
    let comp = *sim::pick("cfg.compressor", &[Comp::Tree, Comp::Static, Comp::Hash, Comp::None]);
    let stream = sim::chance("cfg.stream", 1, 2);
    // 0 small, 1 around 512, 2 a few KiB, 3 around the 0x3FFF pointer limit,
    // 4 around the 0xFFFF size limit.
    // 5: beyond 64 KiB on an unbounded target (plain targets only).
    let size_class = *sim::pick("cfg.size_class", &[0u64, 1, 2, 0, 1, 2, 3, 3, 4, 5]);
    let size_class = if size_class == 5 && stream { 2 } else { size_class };
    if size_class == 5 {
        sim::stat("probe.unbounded_target_beyond_64k");
    }
    PUSH_VIA_TRAIT.with(|c| c.set(sim::chance("cfg.push_via_the_section_trait", 1, 3)));
    let ops = gen_ops(&pool, size_class);
    ev!("compressor={:?} stream={} size_class={} ops={:?}", comp, stream, size_class, ops);
    let label = format!("{:?}{}", comp, if stream { "+stream" } else { "" });
    let ctl = SinkCtl {
        cap: Rc::new(Cell::new(usize::MAX)),
        failed: Rc::new(Cell::new(0)),
        bytes: Rc::new(RefCell::new(Vec::new())),
    };
    macro_rules! exec {
        ($cap:expr, $limit:expr) => {
            match (comp, stream) {
                (Comp::None, false) => execute(&pool, &ops, &ctl, false, |s| Some(s), &label, $cap, $limit),
                (Comp::None, true) => execute(&pool, &ops, &ctl, true, |s| StreamTarget::new(s).ok(), &label, $cap, $limit),
                (Comp::Static, false) => execute(&pool, &ops, &ctl, false, |s| Some(StaticCompressor::new(s)), &label, $cap, $limit),
                (Comp::Static, true) => execute(&pool, &ops, &ctl, true, |s| StreamTarget::new(s).ok().map(StaticCompressor::new), &label, $cap, $limit),
                (Comp::Tree, false) => execute(&pool, &ops, &ctl, false, |s| Some(TreeCompressor::new(s)), &label, $cap, $limit),
                (Comp::Tree, true) => execute(&pool, &ops, &ctl, true, |s| StreamTarget::new(s).ok().map(TreeCompressor::new), &label, $cap, $limit),
                (Comp::Hash, false) => execute(&pool, &ops, &ctl, false, |s| Some(HashCompressor::new(s)), &label, $cap, $limit),
                (Comp::Hash, true) => execute(&pool, &ops, &ctl, true, |s| StreamTarget::new(s).ok().map(HashCompressor::new), &label, $cap, $limit),
            }
        };
    }
    // Fault-free run (capacity 65535 + prefix: the 0xFFFF boundary).
    let hard = if size_class == 5 { 1 << 22 } else { 65_535 + if stream { 2 } else { 0 } };
    let lens = match exec!(hard, None) {
        Some(l) => l,
        None => return,
    };
    let total = lens.iter().copied().max().unwrap_or(0);
    if total > 0x3FFF {
        sim::stat("probe.message_beyond_pointer_limit");
    }
    // (A series of tens of thousands of pushes is re-run at a few fault
    // points only: around the end, where the count is about to wrap.)
    if ops.iter().any(|o| matches!(o, Op::PushMany(..))) {
        let mut n_points = 0u64;
        for k in [total.saturating_sub(1), total / 2] {
            if sim::stopped() || exec!(k, None).is_none() {
                return;
            }
            n_points += 1;
        }
        sim::stat_add("counter.fault_points", n_points);
        return;
    }
    // Enumerate the fault points.
    let dense = if tier == Tier::Quick { 600 } else { 1500 };
    let mut k = 0usize;
    let mut n_points = 0u64;
    while k <= total {
        if sim::stopped() {
            return;
        }
        if exec!(k, None).is_none() {
            return;
        }
        n_points += 1;
        if k % 3 == 0 && k >= 12 {
            if exec!(hard, Some(k)).is_none() {
                return;
            }
            n_points += 1;
        }
        k += if total > 8000 {
            // Large messages: a dense start, then ~40 spread points, with
            // every offset around the 0x3FFF pointer limit and the end.
            if k < 64 || (0x3FF8..0x4008).contains(&k) || k + 16 > total {
                1
            } else {
                let next_dense = if k < 0x3FF8 { 0x3FF8 } else { total.saturating_sub(15) };
                (total / 40).max(997).min(next_dense.saturating_sub(k).max(1))
            }
        } else if k < dense {
            1
        } else {
            37
        };
    }
    sim::stat_add("counter.fault_points", n_points);
}
