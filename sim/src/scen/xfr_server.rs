//! C10, server side: the real `XfrMiddlewareSvc` (ZoneFunneler /
//! DiffFunneler, BatchingRrResponder, XfrRrBatcher) serves the primary built
//! by `xfr::build_primary`; its response messages go straight into the real
//! interpreter + updater of a secondary. The zone walk of the AXFR path runs
//! on a tokio blocking thread the simulator does not own: nothing else is
//! scheduled while a request is in flight (serialised), and only the
//! resulting message sequence - a function of the pinned zone version - is
//! observed.

use super::xfr::{content_records, reference, serial_of, soa_spec, walk_str, Primary, RefVerdict, Wire};
use super::zonestore::{build_direct, content_as_walk, stored_name, walk_zone, Content, APEX};
use crate::core::runner::{Scenario, Tier};
use crate::core::sim;
use bytes::Bytes;
use domain::base::iana::Class;
use domain::base::{Message, MessageBuilder, Rtype, Serial, Ttl};
use domain::net::server::message::{NonUdpTransportContext, Request, TransportSpecificContext, UdpTransportContext};
use domain::net::server::middleware::xfr::{XfrData, XfrDataProvider, XfrDataProviderError, XfrMiddlewareSvc};
use domain::net::server::service::{CallResult, Service, ServiceError, ServiceFeedback, ServiceResult};
use domain::net::xfr::protocol::XfrResponseInterpreter;
use domain::zonetree::update::ZoneUpdater;
use domain::zonetree::{InMemoryZoneDiff, ReadableZone, StoredName, WritableZone, Zone, ZoneStore};
use futures_util::stream::{Stream, StreamExt};
use std::future::Future;
use std::pin::Pin;
use std::sync::Arc;
use std::time::Duration;

const P: &str = "C10";

/// The bottom service: never reached by XFR requests.
#[derive(Clone)]
struct NoSvc;

type SvcStream = futures_util::stream::Once<std::future::Ready<ServiceResult<Vec<u8>>>>;

impl Service<Vec<u8>, ()> for NoSvc {
    type Target = Vec<u8>;
    type Stream = SvcStream;
    type Future = std::future::Ready<SvcStream>;
    fn call(&self, _request: Request<Vec<u8>, ()>) -> Self::Future {
        let item: ServiceResult<Vec<u8>> = Err(ServiceError::Refused);
        std::future::ready(futures_util::stream::once(std::future::ready(item)))
    }
}

/// Hands out the primary zone and the journal suffix.
#[derive(Clone)]
pub(super) struct Provider {
    pub zone: Zone,
    /// (start serial, diff) in order.
    pub journal: Arc<Vec<(u32, InMemoryZoneDiff)>>,
    pub have_journal: bool,
    /// Backward compatible packaging: one record per response message.
    pub compat: bool,
}

impl<M> XfrDataProvider<M> for Provider {
    type Diff = InMemoryZoneDiff;
    fn request<Octs>(&self, _req: &Request<Octs, M>, diff_from: Option<Serial>) -> Pin<Box<dyn Future<Output = Result<XfrData<Self::Diff>, XfrDataProviderError>> + Sync + Send + '_>>
    where
        Octs: octseq::Octets + Send + Sync,
    {
        let mut diffs = Vec::new();
        if let (Some(from), true) = (diff_from, self.have_journal) {
            if let Some(pos) = self.journal.iter().position(|(s, _)| *s == from.into_int()) {
                diffs = self.journal[pos..].iter().map(|(_, d)| d.clone()).collect();
            }
        }
        let data = XfrData::new(self.zone.clone(), diffs, self.compat);
        Box::pin(std::future::ready(Ok(data)))
    }
}

/// A zone store that lets a prepared commit land right after its n-th
/// `read()` call returned: the interleaving "a writer commits between two
/// reads of one request" that a single-threaded run of the synchronous
/// request path can otherwise never produce.
pub(super) struct RacyStore {
    inner: Zone,
    apex: StoredName,
    pub pending: Arc<std::sync::Mutex<Option<(usize, Box<dyn WritableZone>)>>>,
    reads: std::sync::atomic::AtomicUsize,
    pub fired: Arc<std::sync::atomic::AtomicBool>,
}

impl std::fmt::Debug for RacyStore {
    fn fmt(&self, f: &mut std::fmt::Formatter<'_>) -> std::fmt::Result {
        write!(f, "RacyStore")
    }
}

impl RacyStore {
    pub fn new(inner: Zone, fire_at_read: usize, pending: Box<dyn WritableZone>) -> Self {
        RacyStore {
            apex: inner.apex_name().clone(),
            inner,
            pending: Arc::new(std::sync::Mutex::new(Some((fire_at_read, pending)))),
            reads: std::sync::atomic::AtomicUsize::new(0),
            fired: Arc::new(std::sync::atomic::AtomicBool::new(false)),
        }
    }
}

impl ZoneStore for RacyStore {
    fn class(&self) -> Class {
        self.inner.class()
    }
    fn apex_name(&self) -> &StoredName {
        &self.apex
    }
    fn read(self: Arc<Self>) -> Box<dyn ReadableZone> {
        let r = self.inner.read();
        let n = self.reads.fetch_add(1, std::sync::atomic::Ordering::SeqCst) + 1;
        let mut g = self.pending.lock().unwrap();
        if matches!(&*g, Some((k, _)) if *k == n) {
            let (_, mut w) = g.take().unwrap();
            let _ = futures_util::FutureExt::now_or_never(w.commit(false));
            drop(w);
            self.fired.store(true, std::sync::atomic::Ordering::SeqCst);
        }
        r
    }
    fn write(self: Arc<Self>) -> Pin<Box<dyn Future<Output = Box<dyn WritableZone + 'static>> + Send + Sync + 'static>> {
        self.inner.write()
    }
    fn as_any(&self) -> &dyn std::any::Any {
        self
    }
}

pub struct XfrServerScn;

impl Scenario for XfrServerScn {
    fn name(&self) -> &'static str {
        "xfr_server"
    }
    fn property(&self) -> &'static str {
        P
    }
    fn max_vtime(&self) -> Duration {
        Duration::from_secs(3600)
    }
    fn event_cap(&self) -> u64 {
        50_000
    }
    fn components(&self) -> (Vec<&'static str>, Vec<&'static str>) {
        (
            vec![
                "net::server::middleware::xfr::{XfrMiddlewareSvc, ZoneFunneler, DiffFunneler, BatchingRrResponder, XfrRrBatcher}",
                "net::server::batcher",
                "net::xfr::protocol::XfrResponseInterpreter, zonetree::update::ZoneUpdater (secondary)",
                "zonetree write interface with create_diff (primary journal)",
            ],
            vec!["XfrDataProvider handing out the zone and the journal suffix", "request builder (AXFR / IXFR with the secondary's SOA)", "reference interpreter and content model (shared with the xfr scenario)"],
        )
    }
    fn rule(&self) -> &'static str {
        "the primary of the xfr scenario (1-4 committed steps, serials optionally across the 2^32 wrap) is served by the real XFR middleware over a stream-transport request context: AXFR, IXFR from any earlier version with the journal available (multi-step diffs), IXFR with the journal withheld (AXFR-style fallback), IXFR from the current or a newer serial (single SOA); the response messages are applied to a secondary holding the requested-from version and must reproduce the primary's current version exactly."
    }
    fn assumptions(&self) -> Vec<&'static str> {
        vec!["the AXFR zone walk runs on a real tokio blocking thread: it is contained (nothing else is scheduled while it runs) but not scheduled by the simulator; races between that walk and a concurrent writer on the primary are not explored here (the pinned-version guarantee that makes them harmless is C09)"]
    }
    fn nontrivial(&self, stats: &std::collections::BTreeMap<&'static str, u64>) -> bool {
        stats.iter().any(|(k, v)| *v > 0 && k.starts_with("probe."))
    }
    fn run(&self, tier: Tier) -> Pin<Box<dyn Future<Output = ()>>> {
        Box::pin(run(tier))
    }
}

async fn run(_tier: Tier) {
    // One run in twelve: more RRsets than the zone walk's channel holds (100)
    // - the walk, on its blocking thread, then has to wait for the responder
    // task to take items out - and all of them in one response message.
    let hosts = if sim::chance("cfg.more_rrsets_than_the_walk_channel_holds", 1, 12) {
        sim::stat("probe.zone_with_more_rrsets_than_the_walk_channel_holds");
        95 + sim::draw("cfg.hosts", 16) as usize
    } else {
        0
    };
    let Primary { zone, contents, steps, .. } = match super::xfr::build_primary_with2(0, hosts).await {
        Some(p) => p,
        None => return,
    };
    let j = contents.len() - 1;
    let mut journal = Vec::new();
    for (k, st) in steps.iter().enumerate() {
        match &st.raw_diff {
            Some(d) => journal.push((serial_of(&contents[k]).unwrap(), d.clone())),
            None => return, // reported by the xfr scenario's diff law
        }
    }
    // What does the secondary have, and what does it ask for?
    #[derive(Debug, PartialEq)]
    enum Ask {
        Axfr,
        Ixfr,
        IxfrNoJournal,
        IxfrCurrent,
        IxfrNewer,
    }
    let ask = match sim::draw("ask", 8) {
        0 | 1 => Ask::Axfr,
        2..=4 => Ask::Ixfr,
        5 => Ask::IxfrNoJournal,
        6 => Ask::IxfrCurrent,
        _ => Ask::IxfrNewer,
    };
    let i = match ask {
        Ask::IxfrCurrent | Ask::IxfrNewer => j,
        _ => sim::draw("from", j as u64) as usize, // i < j
    };
    let sec_content: Content = contents[i].clone();
    let secondary = match build_direct(&sec_content) {
        Ok(z) => z,
        Err(e) => {
            sim::harness_error(format!("secondary: {}", e));
            return;
        }
    };
    let sec_serial = match ask {
        Ask::IxfrNewer => serial_of(&contents[j]).unwrap().wrapping_add(5),
        _ => serial_of(&sec_content).unwrap(),
    };
    // Sometimes a further version is prepared and committed by "another
    // party" right after the request path's first or second read() of the
    // zone: the response must then describe the old or the new version,
    // never a mixture.
    // With more RRsets than the walk's channel holds the walk is still under
    // way - parked, waiting for the responder - when the call returns: then
    // the commit may also land right there, in the middle of the walk.
    let commit_mid_walk = hosts >= 100 && matches!(ask, Ask::Axfr | Ask::IxfrNoJournal) && sim::chance("commit_in_the_middle_of_the_walk", 1, 2);
    let racy = commit_mid_walk || (matches!(ask, Ask::Axfr | Ask::IxfrNoJournal) && sim::chance("racy_commit", 1, 4));
    let mut next_content: Option<Content> = None;
    let mut fired_flag = None;
    let mut late_commit: Option<Arc<std::sync::Mutex<Option<(usize, Box<dyn WritableZone>)>>>> = None;
    let zone = if racy {
        use super::zonestore::{apply_add, rrset_of, RecSpec};
        let w = zone.write().await;
        let root = w.open(false).await.expect("open");
        let mut c = contents[j].clone();
        let rec = RecSpec {
            owner: APEX.to_string(),
            rtype: Rtype::TXT,
            ttl: 300,
            rdata: "\"committed-meanwhile\"".into(),
        };
        apply_add(&mut c, &rec);
        let soa = soa_spec(serial_of(&contents[j]).unwrap().wrapping_add(1));
        c.remove(&(APEX.to_string(), Rtype::SOA));
        apply_add(&mut c, &soa);
        for (o, t) in [(APEX, Rtype::TXT), (APEX, Rtype::SOA)] {
            let (ttl, rds) = c.get(&(o.to_string(), t)).cloned().unwrap();
            root.update_rrset(rrset_of(t, ttl, &rds, o)).await.expect("update_rrset");
        }
        drop(root);
        next_content = Some(c);
        let store = RacyStore::new(zone.clone(), if commit_mid_walk { usize::MAX } else { 1 + sim::draw("racy_commit.at_read", 3) as usize }, w);
        fired_flag = Some(store.fired.clone());
        if commit_mid_walk {
            late_commit = Some(store.pending.clone());
        }
        sim::stat("probe.commit_prepared_to_land_between_reads");
        Zone::new(store)
    } else {
        zone
    };
    let provider = Provider {
        zone: zone.clone(),
        journal: Arc::new(journal),
        have_journal: ask != Ask::IxfrNoJournal,
        compat: sim::chance("compat_mode", 1, 4),
    };
    // The library's own data providers (a `Zone` by itself, a `ZoneTree`
    // holding it next to others) hand out the zone without a journal and in
    // the normal packaging.
    let lib_provider = if matches!(ask, Ask::Axfr | Ask::IxfrNoJournal) { sim::draw("provider.kind", 4) } else { 0 };
    let mut provider = provider;
    if lib_provider == 1 || lib_provider == 2 {
        provider.compat = false;
        sim::stat("probe.library_data_provider");
    }
    let compat = provider.compat;
    if compat {
        sim::stat("probe.one_record_per_message_mode");
    }
    // The request.
    let mut mb = MessageBuilder::new_vec();
    mb.header_mut().set_id(sim::draw("id", 65536) as u16);
    let mut q = mb.question();
    q.push((stored_name(APEX), if ask == Ask::Axfr { Rtype::AXFR } else { Rtype::IXFR })).unwrap();
    let mut au = q.authority();
    if ask != Ask::Axfr {
        let soa = soa_spec(sec_serial).record();
        au.push((soa.owner(), Class::IN, Ttl::from_secs(3600), soa.data())).unwrap();
    }
    let req_msg: Message<Vec<u8>> = au.into_message();
    let udp = ask != Ask::Axfr && sim::chance("over_udp", 1, 6);
    let ctx = if udp { TransportSpecificContext::Udp(UdpTransportContext::new(Some(1232))) } else { TransportSpecificContext::NonUdp(NonUdpTransportContext::new(None)) };
    let request = Request::new("10.0.0.9:5300".parse().unwrap(), tokio::time::Instant::now(), req_msg, ctx, ());
    ev!("{:?} from version {} (serial {}) to {} (serial {}), udp={}", ask, i, sec_serial, j, serial_of(&contents[j]).unwrap(), udp);
    sim::stat(match ask {
        Ask::Axfr => "probe.axfr",
        Ask::Ixfr => "probe.ixfr",
        Ask::IxfrNoJournal => "probe.ixfr_fallback_to_axfr",
        Ask::IxfrCurrent => "probe.ixfr_same_serial",
        Ask::IxfrNewer => "probe.ixfr_newer_serial",
    });
    if ask == Ask::Ixfr && j - i > 1 {
        sim::stat("probe.multi_step_ixfr");
    }
    // Call the service and drain the response stream.
    let mut stream: Pin<Box<dyn Stream<Item = ServiceResult<Vec<u8>>> + Send>> = match lib_provider {
        1 => Box::pin(XfrMiddlewareSvc::<Vec<u8>, NoSvc, (), Zone>::new(NoSvc, provider.zone.clone(), 1).call(request).await),
        2 => {
            // Neighbours in the tree: a zone above, one below, one elsewhere.
            let mut tree = domain::zonetree::ZoneTree::new();
            for apex in [".", "other.", "deep.down.example.", "ple."] {
                if apex != APEX && sim::chance("provider.neighbour", 1, 2) {
                    let _ = tree.insert_zone(domain::zonetree::ZoneBuilder::new(stored_name(apex), Class::IN).build());
                }
            }
            if tree.insert_zone(provider.zone.clone()).is_err() {
                sim::harness_error("zone tree refused the primary zone".to_string());
                return;
            }
            Box::pin(XfrMiddlewareSvc::<Vec<u8>, NoSvc, (), Arc<domain::zonetree::ZoneTree>>::new(NoSvc, Arc::new(tree), 1).call(request).await)
        }
        _ => Box::pin(XfrMiddlewareSvc::<Vec<u8>, NoSvc, (), Provider>::new(NoSvc, provider, 1).call(request).await),
    };
    if let Some(p) = late_commit {
        // (Two turns of the runtime: the walk has begun and is parked.)
        tokio::task::yield_now().await;
        tokio::task::yield_now().await;
        if let Some((_, mut w)) = p.lock().unwrap().take() {
            let _ = futures_util::FutureExt::now_or_never(w.commit(false));
            drop(w);
            if let Some(f) = &fired_flag {
                f.store(true, std::sync::atomic::Ordering::SeqCst);
            }
            sim::stat("probe.commit_landed_in_the_middle_of_the_walk");
            ev!("another party commits a new version while the zone walk is under way");
        }
    }
    let mut wires: Vec<Wire> = Vec::new();
    let mut ended = false;
    loop {
        let item = match tokio::time::timeout(Duration::from_secs(60), stream.next()).await {
            Ok(Some(item)) => item,
            Ok(None) => break,
            Err(_) => {
                sim::violation(P, "liveness", "server-response-stream-stalled", "no response message for 60 virtual seconds".to_string());
                return;
            }
        };
        let cr: CallResult<Vec<u8>> = match item {
            Ok(cr) => cr,
            Err(e) => {
                sim::violation(P, "fidelity", format!("server-service-error/{:?}", ask), format!("XFR middleware answered with service error {:?}", e));
                return;
            }
        };
        let (resp, feedback) = cr.into_inner();
        if let Some(r) = resp {
            wires.push(Wire { bytes: r.as_slice().to_vec() });
        }
        if matches!(feedback, Some(ServiceFeedback::EndTransaction)) {
            ended = true;
            break;
        }
    }
    let _ = ended;
    sim::stat_add("counter.response_messages", wires.len() as u64);
    ev!("{} response messages, sizes {:?}", wires.len(), wires.iter().map(|w| w.bytes.len()).collect::<Vec<_>>());
    // RFC 1995 section 2: over UDP the answer is one message - the transfer
    // if it fits, else the current SOA alone (the client then retries over TCP).
    if udp && wires.len() > 1 {
        sim::violation(
            P,
            "fidelity",
            format!("udp-request-answered-with-several-messages/{:?}", ask),
            format!("{:?} {}->{} over UDP was answered with {} messages of {:?} octets; a datagram client gets one message - the whole transfer or the SOA alone", ask, i, j, wires.len(), wires.iter().map(|w| w.bytes.len()).collect::<Vec<_>>()),
        );
        return;
    }
    let verdict = reference(&wires, &sec_content);
    // Expected outcome.
    let want: Result<&Content, &str> = match ask {
        Ask::Axfr | Ask::Ixfr | Ask::IxfrNoJournal => Ok(&contents[j]),
        Ask::IxfrCurrent | Ask::IxfrNewer => Err("single-soa"),
    };
    let fired = fired_flag.as_ref().is_some_and(|f| f.load(std::sync::atomic::Ordering::SeqCst));
    if fired {
        sim::stat("probe.commit_landed_during_request");
    }
    match (&verdict, &want) {
        (RefVerdict::Complete(c, false), Ok(_)) if fired && Some(c) == next_content.as_ref() => {}
        (RefVerdict::Complete(c, false), Ok(w)) => {
            if c != *w {
                let missing: Vec<_> = content_records(w).into_iter().filter(|r| !content_records(c).contains(r)).collect();
                let extra: Vec<_> = content_records(c).into_iter().filter(|r| !content_records(w).contains(r)).collect();
                sim::violation(
                    P,
                    "fidelity",
                    format!("served-transfer-differs-from-zone/{:?}", ask),
                    format!("the messages the server sent for {:?} {}->{} describe a zone that differs from its current version: missing {:?}, extra {:?}", ask, i, j, missing, extra),
                );
                return;
            }
        }
        (RefVerdict::UpToDate, Err(_)) => {}
        // A client that is already current may also be sent the whole zone
        // (the middleware falls back to AXFR when the provider has no diffs
        // for it); the property only demands that what is sent is right.
        (RefVerdict::Complete(c, false), Err(_)) if *c == contents[j] => {
            sim::stat("probe.full_zone_sent_to_current_client");
        }
        (RefVerdict::Complete(..), Err(_)) if udp => {}
        (v, w) => {
            let vs = match v {
                RefVerdict::Complete(_, t) => format!("a complete transfer (trailing garbage: {})", t),
                RefVerdict::UpToDate => "a single SOA (client is up to date)".to_string(),
                RefVerdict::Reject(why) => format!("an invalid stream ({})", why),
            };
            // A UDP IXFR that does not fit is answered with the SOA only.
            if udp && matches!(v, RefVerdict::UpToDate) {
                sim::stat("probe.udp_ixfr_did_not_fit");
                return;
            }
            sim::violation(
                P,
                "fidelity",
                format!("server-sent-wrong-kind-of-response/{:?}", ask),
                format!("{:?} from serial {} against zone serial {}: the server sent {}, expected {}", ask, sec_serial, serial_of(&contents[j]).unwrap(), vs, if w.is_ok() { "the transfer to the current version" } else { "a single SOA" }),
            );
            return;
        }
    }
    // And the library's own client side applies them to the same result.
    if want.is_ok() {
        let mut interpreter = XfrResponseInterpreter::new();
        let mut updater: ZoneUpdater = ZoneUpdater::new(secondary.clone()).await.expect("updater");
        'outer: for w in &wires {
            let msg = Message::from_octets(Bytes::from(w.bytes.clone())).unwrap();
            let it = match interpreter.interpret_response(msg) {
                Ok(it) => it,
                Err(e) => {
                    sim::violation(P, "fidelity", "client-rejects-server-output".to_string(), format!("interpreter: {}", e));
                    return;
                }
            };
            for u in it {
                match u {
                    Ok(u) => {
                        if let Err(e) = updater.apply(u).await {
                            sim::violation(P, "fidelity", "client-rejects-server-output".to_string(), format!("updater: {}", e));
                            return;
                        }
                    }
                    Err(e) => {
                        // One record per message IXFR is the known finding
                        // of the xfr scenario; the server packages like that
                        // in its backward compatible mode.
                        let es = format!("{:?}", e);
                        if compat && ask != Ask::Axfr && es.contains("SingleSoaIxfrTcpRetrySignal") && wires.len() > 1 {
                            if sim::violation(
                                P,
                                "fidelity",
                                "ixfr-first-message-with-only-the-soa-taken-as-whole-response".to_string(),
                                format!("the library's own XFR server in compatibility mode sent an IXFR as {} one-record messages; the library's interpreter ended with {}", wires.len(), es),
                            ) {
                                return;
                            }
                            return; // known finding: nothing more to compare
                        }
                        sim::violation(P, "fidelity", "client-rejects-server-output".to_string(), format!("iteration: {}", es));
                        break 'outer;
                    }
                }
            }
        }
        drop(updater);
        let seen = walk_str(&walk_zone(secondary.read().as_ref()));
        let want_w = walk_str(&content_as_walk(&contents[j]));
        let alt_w = next_content.as_ref().filter(|_| fired).map(|c| walk_str(&content_as_walk(c)));
        if seen != want_w && Some(&seen) != alt_w.as_ref() {
            let extra: Vec<_> = seen.iter().filter(|x| !want_w.contains(x)).collect();
            let missing: Vec<_> = want_w.iter().filter(|x| !seen.contains(x)).collect();
            sim::violation(P, "fidelity", format!("secondary-differs-after-served-transfer/{:?}", ask), format!("unexpected {:?}; missing {:?}", extra, missing));
        }
    }
}
